package c02

import (
	"encoding/json"
	"testing"

	"github.com/fxamacker/cbor/v2"
	"verif/harness/dec"
	"verif/harness/ev"
	"verif/harness/gen"
	"verif/harness/model"
	"verif/harness/spec"
	"verif/harness/units"
	"verif/harness/val"
)

func fuzzSpecs() []*spec.Spec {
	p := func(x int64) *int64 { return &x }
	bytes := units.BuiltinDef("bytes")
	nanos := units.BuiltinDef("nanos")
	out := append([]*spec.Spec(nil), gen.GridSpecs()[:17]...) // the value-constraint kinds (scalars, enums, list, map, any)
	out = append(out,
		&spec.Spec{Kind: spec.KInt, Min: p(-5), Max: p(5)},
		&spec.Spec{Kind: spec.KInt, Units: &bytes, Max: p(1 << 40)},
		&spec.Spec{Kind: spec.KInt, Units: &nanos},
		&spec.Spec{Kind: spec.KFloat, FMin: spec.P(-1.5), FMax: spec.P(1e18)},
		&spec.Spec{Kind: spec.KFloat, Units: &nanos},
		&spec.Spec{Kind: spec.KString, Max: p(4)},
		&spec.Spec{Kind: spec.KList, Items: &spec.Spec{Kind: spec.KFloat, FMax: spec.P(10.0)}, Max: p(3)},
		&spec.Spec{Kind: spec.KMap, Keys: &spec.Spec{Kind: spec.KInt, Min: p(0)}, Values: &spec.Spec{Kind: spec.KBool}, Max: p(2)},
	)
	return out
}

// FuzzDenote: coverage-guided search over (schema index, decoder, bytes): whatever the decoder hands over (or the
// bytes as a plain string) is given to Unserialize and judged in both directions against the reference interpreter.
func FuzzDenote(f *testing.F) {
	specs := fuzzSpecs()
	for i, x := range gen.Catalogue(false) {
		g := x.Go()
		if b, err := cbor.Marshal(g); err == nil {
			f.Add(uint8(i), uint8(0), b)
		}
		if b, err := json.Marshal(g); err == nil {
			f.Add(uint8(i/3), uint8(1), b)
		}
		if x.T == "string" {
			f.Add(uint8(i), uint8(3), []byte(x.S))
		}
	}
	for i, s := range []string{"5m30s", "1kB", "1.5s", "9223372036854775807", "9223372036854775808", "18014398509481985kB", "16777216TB", "106752d", "1e400", "0x1p-2", "+5", " 5", "NaN", "-0", "Yes", "enable", "1_000", "5µs", "1h1m1s1ms1us1ns", "éé"} {
		f.Add(uint8(i), uint8(3), []byte(s))
		f.Add(uint8(17+i%8), uint8(3), []byte(s))
	}
	f.Fuzz(func(t *testing.T, specSel, decSel uint8, data []byte) {
		if len(data) > 512 {
			return
		}
		raw, name, ok := dec.Any(decSel, data)
		if !ok {
			return
		}
		c := Case{Spec: specs[int(specSel)%len(specs)], Raw: val.Describe(raw), Note: "native fuzz, " + name}
		if c.Raw.T == "?" {
			return
		}
		if ev.FuzzConvert("unserialize", c) {
			return
		}
		msg, class := RunUnserialize(c)
		_, verdict := model.Denote(c.Spec, nil, c.Raw.Go())
		ev.Case(ev.FP("fuzz", specSel, c.Raw.String()), verdict == model.Accept, "fuzz_decoder:"+name, "fuzz:"+class)
		if msg != "" {
			ev.Fail(t, "unserialize", c, "%s\nschema: %s", msg, *specKey(c.Spec))
		}
		if msg := floatBeyond(c); msg != "" {
			ev.Fail(t, "unit_edge", c, "%s\nschema: %s", msg, *specKey(c.Spec))
		}
	})
}
