package c02

import (
	"encoding/json"
	"fmt"
	"go.flow.arcalot.io/pluginsdk/schema"
	"math"
	"strconv"
	"testing"

	"pgregory.net/rapid"
	"verif/harness/ev"
	"verif/harness/gen"
	"verif/harness/model"
	"verif/harness/spec"
	"verif/harness/units"
	"verif/harness/val"
)

func TestMain(m *testing.M) {
	ev.Note("rule", "C02: (a) enumerated scalar battery: int/float/string/bool/enum schemas over a grid of absent/present bounds (incl. min>max), units and patterns x boundary values (bound-1, bound, bound+1, 0, +-1, 2^63 edges, NaN/Inf, -0, off-by-one lengths) x every Go representation that can carry the value, plus malformed strings; (b) rapid-generated int/float/string/bool/pattern/enum/list/map/any schemas (depth<=3) x inputs that are valid-by-construction renderings, one-place perturbations of them (one step outside a bound, non-member, off-by-one size) and decoder-domain trees. Oracle: reference interpreter model.Denote (accept <=> SDK accepts, accepted result equals the denoted value); native values: Validate(x)==nil <=> Serialize(x) succeeds <=> model.Check. Key collisions and ambiguous unit sentences are unspecified (counted). Non-trivial: the input is a perturbation, or a non-canonical representation, or within one step of a bound; distinct by (schema, input).")
	ev.RegisterReplay("unserialize", func(t *testing.T, raw json.RawMessage) {
		var c Case
		if err := json.Unmarshal(raw, &c); err != nil {
			t.Fatal(err)
		}
		if msg, _ := RunUnserialize(c); msg != "" {
			t.Fatal(msg)
		}
	})
	ev.RegisterReplay("unit_edge", func(t *testing.T, raw json.RawMessage) {
		var c Case
		if err := json.Unmarshal(raw, &c); err != nil {
			t.Fatal(err)
		}
		if msg := floatBeyond(c); msg != "" {
			t.Fatal(msg)
		}
	})
	ev.RegisterReplay("native", func(t *testing.T, raw json.RawMessage) {
		var c Case
		if err := json.Unmarshal(raw, &c); err != nil {
			t.Fatal(err)
		}
		if msg := RunNative(c); msg != "" {
			t.Fatal(msg)
		}
	})
	ev.Main(m, "C02")
}

func TestReplay(t *testing.T) { ev.RunReplay(t) }

// Case is one (schema, raw input) pair. For native cases Raw holds the canonical rendering of the model value.
type Case struct {
	Spec *spec.Spec `json:"spec"`
	Raw  val.V      `json:"raw"`
	Note string     `json:"note,omitempty"`
}

func safely(f func()) (p any) {
	defer func() {
		if e := recover(); e != nil {
			p = e
		}
	}()
	f()
	return nil
}

// RunUnserialize compares SDK Unserialize with the model. Returns (message, class).
func RunUnserialize(c Case) (string, string) {
	sch, err := spec.Build(c.Spec)
	if err != nil {
		return "", "build_error"
	}
	raw := c.Raw.Go()
	mv, verdict := model.Denote(c.Spec, nil, raw)
	var got any
	var uerr error
	p := safely(func() { got, uerr = sch.Unserialize(c.Raw.Go()) })
	switch verdict {
	case model.Unspec:
		return "", "unspecified"
	case model.Accept:
		if p != nil {
			return fmt.Sprintf("Unserialize(%s) panicked (%v) but the input denotes %#v which meets every constraint", c.Raw, p, mv), "accept"
		}
		if uerr != nil {
			return fmt.Sprintf("Unserialize(%s) was rejected (%v) but the input denotes %#v which meets every constraint", c.Raw, uerr, mv), "accept"
		}
		if msg := model.Match(c.Spec, nil, mv, got); msg != "" {
			return fmt.Sprintf("Unserialize(%s) returned a value that is not the denoted one: %s", c.Raw, msg), "accept"
		}
		return "", "accept"
	default:
		if p != nil {
			return "", "reject_panic_left_to_C04"
		}
		if uerr == nil {
			return fmt.Sprintf("Unserialize(%s) = %#v was accepted but the input does not denote a value meeting the constraints", c.Raw, got), "reject"
		}
		return "", "reject"
	}
}

// RunNative compares Validate/Serialize on a native-form value with the model's constraint check.
func RunNative(c Case) string {
	sch, err := spec.Build(c.Spec)
	if err != nil {
		return ""
	}
	mv, v := model.Denote(looseSpec(c.Spec), nil, c.Raw.Go())
	if v != model.Accept {
		return ""
	}
	want := model.Check(c.Spec, nil, mv)
	if msg := runNativeForm(sch, c, mv, want, model.ToNative); msg != "" {
		return msg
	}
	// the same value with its empty lists and maps as nil slices / nil maps: "no elements" in its other native form
	return runNativeForm(sch, c, mv, want, model.ToNativeNil)
}

func runNativeForm(sch schema.Type, c Case, mv any, want bool, toNative func(*spec.Spec, *model.Env, any) any) string {
	native := toNative(c.Spec, nil, mv)
	var verr, serr error
	var ser any
	if p := safely(func() { verr = sch.Validate(native) }); p != nil {
		return fmt.Sprintf("Validate(%#v) panicked: %v", native, p)
	}
	if p := safely(func() { ser, serr = sch.Serialize(toNative(c.Spec, nil, mv)) }); p != nil {
		return fmt.Sprintf("Serialize(%#v) panicked: %v", native, p)
	}
	if (verr == nil) != want {
		return fmt.Sprintf("Validate(%#v) = %v, but the constraints say valid=%v", native, verr, want)
	}
	if (serr == nil) != want {
		return fmt.Sprintf("Serialize(%#v) = (%#v, %v), but the constraints say valid=%v", native, ser, serr, want)
	}
	if want {
		// the serialized form must denote the same value again
		back, bv := model.Denote(c.Spec, nil, ser)
		if bv == model.Accept && !val.Equal(norm(back), norm(mv), val.Opts{}) {
			return fmt.Sprintf("Serialize(%#v) = %#v, which denotes %#v", native, ser, back)
		}
		if bv == model.Reject {
			return fmt.Sprintf("Serialize(%#v) = %#v, which the schema itself would reject", native, ser)
		}
	}
	return ""
}

func norm(mv any) any {
	switch t := mv.(type) {
	case model.Pat:
		return "pat:" + t.Src
	case []any:
		o := make([]any, len(t))
		for i := range t {
			o[i] = norm(t[i])
		}
		return o
	case map[any]any:
		o := map[any]any{}
		for k, v := range t {
			o[k] = norm(v)
		}
		return o
	}
	return mv
}

// looseSpec is the spec with every value constraint removed (used to read a canonical raw back into a model value).
func looseSpec(s *spec.Spec) *spec.Spec {
	if s == nil {
		return nil
	}
	c := *s
	switch s.Kind {
	case spec.KInt, spec.KFloat, spec.KString, spec.KList, spec.KMap:
		c.Min, c.Max, c.FMin, c.FMax, c.Pattern, c.Units = nil, nil, nil, nil, nil, nil
	case spec.KEnumS, spec.KTypedEnumS:
		return &spec.Spec{Kind: spec.KString}
	case spec.KEnumI:
		return &spec.Spec{Kind: spec.KInt}
	}
	c.Items, c.Keys, c.Values = looseSpec(s.Items), looseSpec(s.Keys), looseSpec(s.Values)
	return &c
}

// ---------------------------------------------------------------------------------------------------------------
// (a) enumerated battery

func intReps(x int64) []val.V {
	out := []val.V{val.Int("int64", x), val.Int("int", x), val.Str(strconv.FormatInt(x, 10)), val.Str(" " + strconv.FormatInt(x, 10)), val.Str(strconv.FormatInt(x, 10) + ".0")}
	if x >= math.MinInt32 && x <= math.MaxInt32 {
		out = append(out, val.Int("int32", x))
	}
	if x >= math.MinInt16 && x <= math.MaxInt16 {
		out = append(out, val.Int("int16", x))
	}
	if x >= math.MinInt8 && x <= math.MaxInt8 {
		out = append(out, val.Int("int8", x))
	}
	if x >= 0 {
		out = append(out, val.Uint("uint64", uint64(x)), val.Uint("uint", uint64(x)), val.Str("+"+strconv.FormatInt(x, 10)))
		if x <= math.MaxUint32 {
			out = append(out, val.Uint("uint32", uint64(x)))
		}
		if x <= math.MaxUint16 {
			out = append(out, val.Uint("uint16", uint64(x)))
		}
		if x <= math.MaxUint8 {
			out = append(out, val.Uint("uint8", uint64(x)))
		}
	}
	if int64(float64(x)) == x && x != math.MaxInt64 {
		out = append(out, val.Float("float64", float64(x)))
	}
	if float64(float32(x)) == float64(x) && x > -(1<<24) && x < 1<<24 {
		out = append(out, val.Float("float32", float64(x)))
	}
	if x == 0 || x == 1 {
		out = append(out, val.Bool(x == 1))
	}
	return out
}

var extraIntInputs = []val.V{
	val.Uint("uint64", 1<<63), val.Uint("uint64", math.MaxUint64), val.Uint("uint", 1<<63),
	val.Float("float64", 9223372036854775808.0), val.Float("float64", -9223372036854775808.0), val.Float("float64", -9223372036854777856.0),
	val.Float("float64", 0.5), val.Float("float64", math.NaN()), val.Float("float64", math.Inf(1)), val.Float("float64", math.Inf(-1)), val.Float("float64", math.Copysign(0, -1)),
	val.Float("float32", 9223372036854775808.0), val.Float("float32", 0.5), val.Float("float32", math.NaN()),
	val.Str(""), val.Str("abc"), val.Str("9223372036854775808"), val.Str("-9223372036854775809"), val.Str("1e3"), val.Str("0x10"), val.Str("1_000"), val.Str("٣"),
	val.Nil(), val.V{T: "bytes", S: "1"}, val.V{T: "[]any"}, val.V{T: "map[string]any"}, val.V{T: "bigint", S: "5"},
}

func boundCombosInt() [][2]*int64 {
	vals := []*int64{nil, spec.P(int64(-5)), spec.P(int64(0)), spec.P(int64(10)), spec.P(int64(math.MaxInt64)), spec.P(int64(math.MinInt64))}
	var out [][2]*int64
	for _, a := range vals {
		for _, b := range vals {
			out = append(out, [2]*int64{a, b})
		}
	}
	return out
}

func around(b *int64) []int64 {
	if b == nil {
		return nil
	}
	out := []int64{*b}
	if *b > math.MinInt64 {
		out = append(out, *b-1)
	}
	if *b < math.MaxInt64 {
		out = append(out, *b+1)
	}
	return out
}

func judgeU(t *testing.T, c Case, nontrivial bool, cls string) {
	msg, class := RunUnserialize(c)
	ev.Case(ev.FP(fmt.Sprint(*specKey(c.Spec)), c.Raw.String()), nontrivial, cls, cls+":"+class)
	if msg != "" {
		ev.Fail(t, "unserialize", c, "%s\nschema: %s", msg, *specKey(c.Spec))
	}
}

func specKey(s *spec.Spec) *string {
	b, _ := json.Marshal(s)
	str := string(b)
	return &str
}

func TestEnumInt(t *testing.T) {
	if ev.Replaying() {
		t.Skip()
	}
	idx := 0
	secs := units.BuiltinDef("seconds")
	for _, u := range []*units.Def{nil, &secs} {
		for _, b := range boundCombosInt() {
			s := &spec.Spec{Kind: spec.KInt, Min: b[0], Max: b[1], Units: u}
			values := append(append(around(b[0]), around(b[1])...), 0, 1, -1, math.MaxInt64, math.MinInt64, 1<<53, 1<<53+1, 60, 3661)
			seen := map[int64]bool{}
			for _, x := range values {
				if seen[x] {
					continue
				}
				seen[x] = true
				for _, r := range intReps(x) {
					idx++
					if ev.Mine(idx) {
						judgeU(t, Case{Spec: s, Raw: r}, true, "enum_int")
					}
				}
				idx++
				if ev.Mine(idx) {
					c := Case{Spec: s, Raw: val.Int("int64", x)}
					ev.Case(ev.FP("native", *specKey(s), x), true, "enum_int_native")
					if msg := RunNative(c); msg != "" {
						ev.Fail(t, "native", c, "%s\nschema: %s", msg, *specKey(s))
					}
				}
			}
			extra := extraIntInputs
			if u != nil {
				extra = append(append([]val.V{}, extra...), val.Str("1m"), val.Str("1m1s"), val.Str("1H1m1s"), val.Str("61s"), val.Str("1.5s"), val.Str("1s1m"), val.Str("5 minutes"), val.Str("1d"), val.Str("9999999999999999d"), val.Str("m"))
			}
			for _, r := range extra {
				idx++
				if ev.Mine(idx) {
					judgeU(t, Case{Spec: s, Raw: r}, true, "enum_int_malformed")
				}
			}
		}
	}
	ev.Exhaustive("integer schemas: 36 bound combinations x {no units, seconds} x boundary battery x every Go representation")
}

func floatReps(f float64) []val.V {
	out := []val.V{val.Float("float64", f), val.Str(strconv.FormatFloat(f, 'g', -1, 64)), val.Str(strconv.FormatFloat(f, 'e', -1, 64))}
	if float64(float32(f)) == f || math.IsNaN(f) {
		out = append(out, val.Float("float32", f))
	}
	if f == math.Trunc(f) && math.Abs(f) < 1<<62 && !(f == 0 && math.Signbit(f)) {
		out = append(out, val.Int("int64", int64(f)), val.Int("int", int64(f)))
		if f >= 0 {
			out = append(out, val.Uint("uint64", uint64(f)))
		}
		if math.Abs(f) < 100 {
			out = append(out, val.Int("int8", int64(f)))
		}
	}
	if f == 0 || f == 1 {
		out = append(out, val.Bool(f == 1))
	}
	return out
}

func TestEnumFloat(t *testing.T) {
	if ev.Replaying() {
		t.Skip()
	}
	idx := 0
	bounds := []*float64{nil, spec.P(-1.5), spec.P(0.0), spec.P(1e300), spec.P(math.Inf(1)), spec.P(math.Inf(-1)), spec.P(10.0)}
	secs := units.BuiltinDef("seconds")
	for _, u := range []*units.Def{nil, &secs} {
		for _, a := range bounds {
			for _, b := range bounds {
				s := &spec.Spec{Kind: spec.KFloat, FMin: a, FMax: b, Units: u}
				values := []float64{0, math.Copysign(0, -1), 1, -1, 0.5, math.NaN(), math.Inf(1), math.Inf(-1), math.MaxFloat64, -math.MaxFloat64, math.SmallestNonzeroFloat64, 1 << 53, 1<<63 - 1024, 3.4028234663852886e38}
				for _, bb := range []*float64{a, b} {
					if bb != nil {
						values = append(values, *bb, math.Nextafter(*bb, math.Inf(1)), math.Nextafter(*bb, math.Inf(-1)))
					}
				}
				for _, f := range values {
					for _, r := range floatReps(f) {
						idx++
						if ev.Mine(idx) {
							judgeU(t, Case{Spec: s, Raw: r}, true, "enum_float")
						}
					}
					idx++
					if ev.Mine(idx) {
						c := Case{Spec: s, Raw: val.Float("float64", f)}
						ev.Case(ev.FP("native", *specKey(s), f), true, "enum_float_native")
						if msg := RunNative(c); msg != "" {
							ev.Fail(t, "native", c, "%s\nschema: %s", msg, *specKey(s))
						}
					}
				}
				for _, str := range []string{"", "abc", "NaN", "nan", "Inf", "inf", "-Inf", "+Inf", "infinity", "1e400", "-1e400", "0x1p-2", "1_000", " 1", "1 ", "1e-400", ".5", "5.", "1.5s", "1m0.5s", "1m", "m", "1,5"} {
					idx++
					if ev.Mine(idx) {
						judgeU(t, Case{Spec: s, Raw: val.Str(str)}, true, "enum_float_strings")
					}
				}
				for _, r := range []val.V{val.Nil(), val.V{T: "bytes", S: "1"}, val.V{T: "[]any"}, val.Uint("uint64", math.MaxUint64), val.V{T: "bigint", S: "5"}} {
					idx++
					if ev.Mine(idx) {
						judgeU(t, Case{Spec: s, Raw: r}, true, "enum_float_malformed")
					}
				}
			}
		}
	}
	ev.Exhaustive("float schemas: 49 bound combinations x {no units, seconds} x boundary battery x every Go representation")
}

func TestEnumStringBool(t *testing.T) {
	if ev.Replaying() {
		t.Skip()
	}
	idx := 0
	lens := []*int64{nil, spec.P(int64(0)), spec.P(int64(1)), spec.P(int64(3)), spec.P(int64(8))}
	pats := []*string{nil, spec.P(`^[a-z]+$`), spec.P(`^[0-9.]*$`)}
	inputs := []val.V{val.Str(""), val.Str("a"), val.Str("ab"), val.Str("abc"), val.Str("abcd"), val.Str("é"), val.Str("éé"), val.Str("12"), val.Str("123456789"),
		val.Int("int64", 1), val.Int("int64", -12), val.Int("int", 123), val.Uint("uint64", 1234), val.Uint("uint8", 7), val.Int("int8", -7), val.Int("int16", 300), val.Uint("uint16", 9), val.Int("int32", 5), val.Uint("uint32", 5), val.Uint("uint", 5),
		val.Float("float64", 1.5), val.Float("float64", 1), val.Float("float32", 0.5), val.Float("float64", math.NaN()), val.Float("float64", math.Inf(1)), val.Float("float64", 1e20),
		val.Bool(true), val.Nil(), val.V{T: "bytes", S: "ab"}, val.V{T: "[]any"}, val.V{T: "mystr", S: "ab"}}
	for _, a := range lens {
		for _, b := range lens {
			for _, p := range pats {
				s := &spec.Spec{Kind: spec.KString, Min: a, Max: b, Pattern: p}
				for _, r := range inputs {
					idx++
					if ev.Mine(idx) {
						judgeU(t, Case{Spec: s, Raw: r}, true, "enum_string")
					}
					if r.T == "string" {
						idx++
						if ev.Mine(idx) {
							c := Case{Spec: s, Raw: r}
							ev.Case(ev.FP("native", *specKey(s), r.S), true, "enum_string_native")
							if msg := RunNative(c); msg != "" {
								ev.Fail(t, "native", c, "%s\nschema: %s", msg, *specKey(s))
							}
						}
					}
				}
			}
		}
	}
	// bool: every word in several casings, every integer width
	bs := &spec.Spec{Kind: spec.KBool}
	words := []string{"1", "yes", "y", "on", "true", "enable", "enabled", "0", "no", "n", "off", "false", "disable", "disabled", "YES", "On", "TRUE", "fAlSe", "Disabled", "", "2", "t", "f", "yep", "enables", " true", "true ", "01", "-0", "+1", "1.0"}
	for _, w := range words {
		idx++
		if ev.Mine(idx) {
			judgeU(t, Case{Spec: bs, Raw: val.Str(w)}, true, "enum_bool")
		}
	}
	for _, x := range []int64{0, 1, 2, -1, 255, 256} {
		for _, r := range intReps(x) {
			idx++
			if ev.Mine(idx) {
				judgeU(t, Case{Spec: bs, Raw: r}, true, "enum_bool")
			}
		}
	}
	for _, r := range []val.V{val.Uint("uint64", math.MaxUint64), val.Uint("uint64", 1<<63), val.Uint("uint64", 1<<63+1), val.Nil(), val.Float("float64", 1), val.Float("float64", 0), val.V{T: "bytes", S: "1"}} {
		idx++
		if ev.Mine(idx) {
			judgeU(t, Case{Spec: bs, Raw: r}, true, "enum_bool")
		}
	}
	// enums
	es := &spec.Spec{Kind: spec.KEnumS, Enum: []spec.EnumVal{{S: "a"}, {S: "123"}, {S: ""}, {S: "1.500000"}}}
	ei := &spec.Spec{Kind: spec.KEnumI, Enum: []spec.EnumVal{{I: 0}, {I: 60}, {I: -1}, {I: math.MaxInt64}}}
	secs := units.BuiltinDef("seconds")
	eu := &spec.Spec{Kind: spec.KEnumI, Enum: []spec.EnumVal{{I: 0}, {I: 60}, {I: 3600}}, Units: &secs}
	for _, r := range inputs {
		idx++
		if ev.Mine(idx) {
			judgeU(t, Case{Spec: es, Raw: r}, true, "enum_enum_string")
		}
	}
	for _, x := range []int64{0, 60, -1, math.MaxInt64, 1, 59, 61, 3600} {
		for _, r := range intReps(x) {
			for _, e := range []*spec.Spec{ei, eu} {
				idx++
				if ev.Mine(idx) {
					judgeU(t, Case{Spec: e, Raw: r}, true, "enum_enum_int")
				}
			}
		}
	}
	for _, str := range []string{"1m", "60s", "1H", "1m0s", "59s", "1 minute", "1minute", "1minutes", "60", "m"} {
		idx++
		if ev.Mine(idx) {
			judgeU(t, Case{Spec: eu, Raw: val.Str(str)}, true, "enum_enum_int_units")
		}
	}
	ev.Exhaustive("string schemas: 25 length-bound combinations x 3 patterns x 31 inputs; bool: all words/casings x all integer widths; enum batteries")
}

// ---------------------------------------------------------------------------------------------------------------
// (b) generated schemas

func c02Opts() gen.Opts {
	return gen.Opts{MaxDepth: 3, Units: true, Unsat: true}
}

func TestGenUnserialize(t *testing.T) {
	ev.Check(t, "unser", 12000, 120000, func(rt *rapid.T) {
		s := gen.Spec(c02Opts()).Draw(rt, "spec")
		mode := rapid.IntRange(0, 9).Draw(rt, "mode")
		var raw val.V
		cls := "valid"
		nontrivial := false
		mv, ok := gen.ValueFor(rt, s, nil, 3)
		switch {
		case !ok || mode >= 8:
			raw = gen.Hostile(2).Draw(rt, "hostile")
			cls = "hostile"
			nontrivial = true
		case mode >= 5:
			pv, what := gen.Perturb(rt, s, nil, mv)
			r := gen.Render(rt, s, nil, pv)
			raw = r.V
			if what != "" {
				cls = "perturbed"
				nontrivial = true
			} else {
				nontrivial = r.NonCanonical
			}
		default:
			r := gen.Render(rt, s, nil, mv)
			raw = r.V
			nontrivial = r.NonCanonical
		}
		c := Case{Spec: s, Raw: raw, Note: cls}
		msg, class := RunUnserialize(c)
		ev.Case(ev.FP(*specKey(s), raw.String()), nontrivial, "gen:"+cls, "gen:"+cls+":"+class, "root="+s.Kind)
		if nontrivial && ev.WantSample("gen_"+cls) {
			ev.Sample("gen_"+cls, c)
		}
		if msg != "" {
			ev.Fail(rt, "unserialize", c, "%s\nschema: %s", msg, *specKey(s))
		}
	})
}

func TestGenNative(t *testing.T) {
	ev.Check(t, "native", 8000, 80000, func(rt *rapid.T) {
		s := gen.Spec(c02Opts()).Draw(rt, "spec")
		mv, ok := gen.ValueFor(rt, s, nil, 3)
		if !ok {
			rt.Skip("unsatisfiable schema")
		}
		cls := "native_valid"
		if rapid.Bool().Draw(rt, "perturb") {
			pv, what := gen.Perturb(rt, s, nil, mv)
			if what != "" {
				mv, cls = pv, "native_perturbed"
			}
		}
		c := Case{Spec: s, Raw: gen.RenderCanonical(rt, looseSpec(s), nil, mv), Note: cls}
		ev.Case(ev.FP("native", *specKey(s), c.Raw.String()), cls == "native_perturbed" || len(spec.Kinds(s)) > 1, "gen:"+cls, "root="+s.Kind)
		if ev.WantSample(cls) {
			ev.Sample(cls, c)
		}
		if msg := RunNative(c); msg != "" {
			ev.Fail(rt, "native", c, "%s\nschema: %s", msg, *specKey(s))
		}
	})
}
