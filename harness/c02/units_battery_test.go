package c02

import (
	"fmt"
	"math"
	"math/big"
	"testing"

	"verif/harness/ev"
	"verif/harness/spec"
	"verif/harness/units"
	"verif/harness/val"
)

// floatBeyond judges a float schema with units on a unit string whose value lies beyond 64 bits - the one region
// where the statement tolerates two answers (rejection, or the value). An ACCEPTED result must still be the number the
// string denotes and must meet the declared bounds; a wrapped-around small number is the failure this looks for.
func floatBeyond(c Case) string {
	if c.Spec.Kind != spec.KFloat || c.Spec.Units == nil || c.Raw.T != "string" {
		return ""
	}
	rs := c.Spec.Units.ParseAll(c.Raw.S)
	if len(rs) != 1 {
		return ""
	}
	want, _ := rs[0].Value.Float64()
	sch, err := spec.Build(c.Spec)
	if err != nil {
		return ""
	}
	var got any
	var uerr error
	if p := safely(func() { got, uerr = sch.Unserialize(c.Raw.S) }); p != nil || uerr != nil {
		return "" // rejection is fine (a panic is C04's concern)
	}
	f, ok := got.(float64)
	if !ok {
		return fmt.Sprintf("Unserialize(%q) returned %#v, not a float64", c.Raw.S, got)
	}
	if math.IsNaN(f) || math.Abs(f-want) > 1e-9*math.Abs(want)+1e-9 {
		return fmt.Sprintf("Unserialize(%q) = %v was accepted, but the string denotes %v", c.Raw.S, f, want)
	}
	if (c.Spec.FMax != nil && want > *c.Spec.FMax) || (c.Spec.FMin != nil && want < *c.Spec.FMin) {
		return fmt.Sprintf("Unserialize(%q) = %v was accepted although the denoted value %v violates the bounds", c.Raw.S, f, want)
	}
	return ""
}

// TestEnumUnitStrings: for every built-in unit set (and two custom ones) and every unit of it, counts at the edges
// where count x multiplier leaves the 64-bit range - floor(MaxInt64/m) and its neighbours, ceil(2^63/m), ceil(2^64/m)
// and neighbours, a power of ten beyond - alone and followed by a small second component, against int and float
// schemas with and without a maximum.
func TestEnumUnitStrings(t *testing.T) {
	if ev.Replaying() {
		t.Skip()
	}
	var defs []units.Def
	for _, n := range units.BuiltinNames {
		defs = append(defs, units.BuiltinDef(n))
	}
	defs = append(defs,
		units.Def{Base: units.Names{"u", "us", "unit", "units"}, Mults: []units.Mult{{M: 3, N: units.Names{"t", "ts", "triple", "triples"}}, {M: 1 << 62, N: units.Names{"Q", "Qs", "quad", "quads"}}}},
		units.Def{Base: units.Names{"b", "b", "bit", "bits"}, Mults: []units.Mult{{M: 8, N: units.Names{"B", "B", "byte", "bytes"}}, {M: 8192, N: units.Names{"KB", "KB", "kbyte", "kbytes"}}}},
	)
	idx := 0
	two63 := new(big.Int).Lsh(big.NewInt(1), 63)
	two64 := new(big.Int).Lsh(big.NewInt(1), 64)
	for di := range defs {
		d := defs[di]
		type unit struct {
			m    int64
			name string
		}
		us := []unit{{1, d.Base[0]}}
		for _, m := range d.Mults {
			us = append(us, unit{m.M, m.N[0]}, unit{m.M, m.N[3]})
		}
		schemas := []*spec.Spec{
			{Kind: spec.KInt, Units: &d}, {Kind: spec.KInt, Units: &d, Max: spec.P(int64(4096))},
			{Kind: spec.KFloat, Units: &d}, {Kind: spec.KFloat, Units: &d, FMax: spec.P(4096.0)}, {Kind: spec.KFloat, Units: &d, FMin: spec.P(0.0)},
		}
		for _, u := range us {
			bm := big.NewInt(u.m)
			var counts []*big.Int
			add := func(x *big.Int) {
				for _, delta := range []int64{-1, 0, 1} {
					c := new(big.Int).Add(x, big.NewInt(delta))
					if c.Sign() >= 0 {
						counts = append(counts, c)
					}
				}
			}
			add(new(big.Int).Div(big.NewInt(math.MaxInt64), bm))
			add(new(big.Int).Div(new(big.Int).Add(two63, new(big.Int).Sub(bm, big.NewInt(1))), bm))
			add(new(big.Int).Div(new(big.Int).Add(two64, new(big.Int).Sub(bm, big.NewInt(1))), bm))
			add(new(big.Int).Mul(new(big.Int).Div(new(big.Int).Add(two64, new(big.Int).Sub(bm, big.NewInt(1))), bm), big.NewInt(3)))
			counts = append(counts, new(big.Int).Exp(big.NewInt(10), big.NewInt(19), nil), new(big.Int).Exp(big.NewInt(10), big.NewInt(30), nil))
			for _, cnt := range counts {
				for _, tail := range []string{"", " 5" + d.Base[0]} {
					if tail != "" && u.m == 1 {
						continue
					}
					str := cnt.String() + u.name + tail
					for _, s := range schemas {
						idx++
						if !ev.Mine(idx) {
							continue
						}
						c := Case{Spec: s, Raw: val.Str(str), Note: "unit string at the 64-bit edge"}
						judgeU(t, c, true, "enum_unit_edge")
						if msg := floatBeyond(c); msg != "" {
							ev.Fail(t, "unit_edge", c, "%s\nschema: %s", msg, *specKey(s))
						}
					}
				}
			}
		}
	}
	ev.Exhaustive("unit strings at the 64-bit edge: 7 unit sets x every unit x counts around MaxInt64/m, 2^63/m, 2^64/m, 3*2^64/m, 1e19, 1e30 x {alone, plus a base component} x {int, int max, float, float max, float min}")
}

// TestEnumSizes: list and map size bounds - every combination of absent/0/1/2/3 for min and max x every length 0..4 x
// every raw container form (incl. typed slices, nil slices and nil maps) on Unserialize, and the same lengths in native
// form (empty rendered both as an empty and as a nil slice / map) on Validate and Serialize; also one level down (a
// list of lists whose INNER bound is the one that decides).
func TestEnumSizes(t *testing.T) {
	if ev.Replaying() {
		t.Skip()
	}
	bounds := []*int64{nil, spec.P(int64(0)), spec.P(int64(1)), spec.P(int64(2)), spec.P(int64(3))}
	integer, str := &spec.Spec{Kind: spec.KInt}, &spec.Spec{Kind: spec.KString}
	idx := 0
	judgeBoth := func(s *spec.Spec, raw val.V) {
		idx++
		if !ev.Mine(idx) {
			return
		}
		c := Case{Spec: s, Raw: raw, Note: "size grid"}
		judgeU(t, c, true, "enum_sizes")
		ev.Case(ev.FP("native_size", *specKey(s), raw.String()), true, "enum_sizes_native")
		if msg := RunNative(c); msg != "" {
			ev.Fail(t, "native", c, "%s\nschema: %s", msg, *specKey(s))
		}
	}
	for _, lo := range bounds {
		for _, hi := range bounds {
			list := &spec.Spec{Kind: spec.KList, Items: integer, Min: lo, Max: hi}
			mp := &spec.Spec{Kind: spec.KMap, Keys: str, Values: integer, Min: lo, Max: hi}
			outer := &spec.Spec{Kind: spec.KList, Items: list}
			for n := 0; n <= 4; n++ {
				var items []val.V
				var kvs []val.KV
				for i := 0; i < n; i++ {
					items = append(items, val.Int("int64", int64(i)))
					kvs = append(kvs, val.KV{K: val.Str(fmt.Sprintf("k%d", i)), V: val.Int("int64", int64(i))})
				}
				forms := []val.V{{T: "[]any", L: items}, {T: "[]int64", L: items}}
				if n == 0 {
					forms = append(forms, val.V{T: "nil[]any"})
				}
				for _, f := range forms {
					judgeBoth(list, f)
					judgeBoth(outer, val.V{T: "[]any", L: []val.V{{T: "[]any", L: []val.V{val.Int("int64", 1)}}, f}})
				}
				mforms := []val.V{{T: "map[string]any", M: kvs}, {T: "map[any]any", M: kvs}, {T: "map[string]int64", M: kvs}}
				if n == 0 {
					mforms = append(mforms, val.V{T: "nilmap[string]any"})
				}
				for _, f := range mforms {
					judgeBoth(mp, f)
				}
			}
		}
	}
	ev.Exhaustive("list/map size grid: min, max in {absent,0,1,2,3} x lengths 0..4 x raw container forms (any-typed, typed, nil) x {Unserialize; Validate and Serialize with empty as empty and as nil}, also as inner list of a list of lists")
}
