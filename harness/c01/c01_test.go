package c01

import (
	"encoding/json"
	"fmt"
	"regexp"
	"testing"

	"github.com/fxamacker/cbor/v2"
	"go.flow.arcalot.io/pluginsdk/schema"
	"pgregory.net/rapid"
	"verif/harness/ev"
	"verif/harness/gen"
	"verif/harness/spec"
	"verif/harness/val"
)

func TestMain(m *testing.M) {
	ev.Note("rule", "C01: rapid-generated schemas of all 16 kinds (depth<=3 quick / 5 thorough: map-based and struct-mapped objects from a struct catalogue, units, defaults, presence rules, one-of int/string x inlined/non-inlined x map/struct members, references incl. recursive, nested scopes) x inputs rendered from valid-by-construction values in an arbitrary representation per leaf (every int/uint/float width, numeric and unit strings, typed slices/maps, map[string]any vs map[any]any, single-property shorthand). Oracle: round-trip laws on the real API: accepted => Validate ok, Serialize ok and wire-typed, Unserialize(Serialize(u)) equals u and serializes identically, the same after cbor.Marshal/Unmarshal as ATP does it, and for one form in eight a real exchange (any-typed echo step on RunATPServer, the SDK's client) must deliver what a CBOR round trip of the in-process result gives; typed entry points agree with the untyped ones. Equality is deep, NaN-reflexive, regexp-by-source, with empty==absent only for treat-empty-as-default schemas. Non-trivial: accepted input whose schema has a container/object and at least one leaf in a non-canonical representation; distinct by (schema, input).")
	ev.RegisterReplay("roundtrip", func(t *testing.T, raw json.RawMessage) {
		var c Case
		if err := json.Unmarshal(raw, &c); err != nil {
			t.Fatal(err)
		}
		if msg, _ := RunRoundTrip(c); msg != "" {
			t.Fatal(msg)
		}
	})
	ev.RegisterReplay("typed", func(t *testing.T, raw json.RawMessage) {
		var c Case
		if err := json.Unmarshal(raw, &c); err != nil {
			t.Fatal(err)
		}
		if msg, _ := RunTyped(c); msg != "" {
			t.Fatal(msg)
		}
	})
	ev.Main(m, "C01")
}

func TestReplay(t *testing.T) { ev.RunReplay(t) }

type Case struct {
	Spec *spec.Spec `json:"spec"`
	Raw  val.V      `json:"raw"`
}

func safely(f func()) (p any) {
	defer func() {
		if e := recover(); e != nil {
			p = e
		}
	}()
	f()
	return nil
}

func specJSON(s *spec.Spec) string {
	b, _ := json.Marshal(s)
	return string(b)
}

var decModeClient = func() cbor.DecMode {
	m, err := cbor.DecOptions{ExtraReturnErrors: cbor.ExtraDecErrorUnknownField}.DecMode()
	if err != nil {
		panic(err)
	}
	return m
}()

// laws checks the round-trip laws for an already accepted value u. from names where u came from.
func laws(sch schema.Type, u any, o val.Opts, from string) string {
	var verr error
	if p := safely(func() { verr = sch.Validate(u) }); p != nil {
		return fmt.Sprintf("Validate of the %s result %#v panicked: %v", from, u, p)
	}
	if verr != nil {
		return fmt.Sprintf("the %s result %#v fails Validate: %v", from, u, verr)
	}
	var w any
	var serr error
	if p := safely(func() { w, serr = sch.Serialize(u) }); p != nil {
		return fmt.Sprintf("Serialize of the %s result %#v panicked: %v", from, u, p)
	}
	if serr != nil {
		return fmt.Sprintf("Serialize of the %s result %#v failed: %v", from, u, serr)
	}
	if prob := val.WireProblem(w); prob != "" {
		return fmt.Sprintf("Serialize of %#v produced %#v, not a wire form: %s", u, w, prob)
	}
	// direct: the caller keeps the serialized form it got and hands that very value back (no defensive copy)
	kept := val.DeepCopy(w)
	var u2 any
	var uerr error
	if p := safely(func() { u2, uerr = sch.Unserialize(w) }); p != nil {
		return fmt.Sprintf("Unserialize of the serialized form %#v panicked: %v", kept, p)
	}
	if uerr != nil {
		return fmt.Sprintf("the serialized form %#v of %#v is not accepted back: %v", kept, u, uerr)
	}
	if !val.Equal(w, kept, val.Opts{}) {
		return fmt.Sprintf("Unserialize changed the serialized form it was given, so that form is no longer what Serialize produced:\n before: %#v\n after:  %#v", kept, w)
	}
	if !val.Equal(u2, u, o) {
		return fmt.Sprintf("Unserialize(Serialize(u)) != u:\n u  = %#v\n w  = %#v\n u' = %#v", u, w, u2)
	}
	w2, serr := sch.Serialize(u2)
	if serr != nil || !val.Equal(w2, w, o) {
		return fmt.Sprintf("Serialize is not idempotent on wire forms:\n w  = %#v\n w' = %#v (%v)", w, w2, serr)
	}
	// over CBOR, as ATP transports it
	enc, err := cbor.Marshal(w)
	if err != nil {
		return fmt.Sprintf("serialized form %#v cannot be CBOR-encoded: %v", w, err)
	}
	if msg := atpLeg(w, enc); msg != "" {
		return msg
	}
	for i, unmarshal := range []func([]byte, any) error{cbor.Unmarshal, decModeClient.Unmarshal} {
		var dec any
		if err := unmarshal(enc, &dec); err != nil {
			return fmt.Sprintf("CBOR encoding of %#v cannot be decoded: %v", w, err)
		}
		var u3 any
		if p := safely(func() { u3, uerr = sch.Unserialize(dec) }); p != nil {
			return fmt.Sprintf("Unserialize of the CBOR-transported form %#v panicked: %v", dec, p)
		}
		if uerr != nil {
			return fmt.Sprintf("the CBOR-transported serialized form %#v (from %#v) is not accepted back: %v", dec, w, uerr)
		}
		if !val.Equal(u3, u, o) {
			return fmt.Sprintf("after CBOR (decoder %d) Unserialize(Serialize(u)) != u:\n u  = %#v\n w  = %#v\n dec= %#v\n u' = %#v", i, u, w, dec, u3)
		}
		var verr error
		if p := safely(func() { verr = sch.Validate(u3) }); p != nil || verr != nil {
			return fmt.Sprintf("the value unserialized from the CBOR-transported form %#v fails Validate: %v %v", dec, verr, p)
		}
		w3, serr := sch.Serialize(u3)
		if serr != nil || !val.Equal(w3, w, o) {
			return fmt.Sprintf("after CBOR the value serializes differently:\n w  = %#v\n w' = %#v (%v)", w, w3, serr)
		}
	}
	return ""
}

// RunRoundTrip returns (message, class).
func RunRoundTrip(c Case) (string, string) {
	sch, err := spec.Build(c.Spec)
	if err != nil {
		return "", "build_error"
	}
	var u any
	var uerr error
	if p := safely(func() { u, uerr = sch.Unserialize(c.Raw.Go()) }); p != nil {
		return "", "panic_left_to_C04"
	}
	if uerr != nil {
		return "", "rejected"
	}
	o := val.Opts{EmptyIsAbsent: spec.HasEmptyIsDefault(c.Spec)}
	if msg := laws(sch, u, o, "Unserialize"); msg != "" {
		return fmt.Sprintf("input %s\n%s", c.Raw, msg), "accepted"
	}
	return "", "accepted"
}

func hasContainer(s *spec.Spec) bool {
	k := spec.Kinds(s)
	return k[spec.KList] || k[spec.KMap] || k[spec.KObject] || k[spec.KOneOfI] || k[spec.KOneOfS] || k[spec.KScope]
}

func TestRoundTrip(t *testing.T) {
	depth := ev.N(3, 5)
	ev.Check(t, "roundtrip", 2500, 40000, func(rt *rapid.T) {
		o := gen.Full(depth)
		s := gen.Spec(o).Draw(rt, "spec")
		gen.AddDefaults(rt, s, o)
		mv, ok := gen.ValueFor(rt, s, nil, 4)
		if !ok {
			ev.Class("no_valid_value", 1)
			rt.Skip("no valid value for the schema")
		}
		// The laws quantify over whatever Unserialize accepts, not over what the reference says it should accept: a
		// quarter of the inputs are pushed just outside one declared constraint. Whether such an input is accepted is
		// C02/C03's business; if it is, the result must still validate, serialize and round-trip.
		perturbed := ""
		if rapid.IntRange(0, 3).Draw(rt, "perturb") == 0 {
			if pv, label := gen.Perturb(rt, s, nil, mv); label != "" {
				mv, perturbed = pv, label
			}
		}
		r := gen.Render(rt, s, nil, mv)
		c := Case{Spec: s, Raw: r.V}
		msg, class := RunRoundTrip(c)
		nontrivial := class == "accepted" && hasContainer(s) && r.NonCanonical
		classes := []string{class, "root=" + s.Kind}
		if perturbed != "" {
			classes = append(classes, "perturbed:"+class)
		}
		if class == "accepted" {
			for k := range spec.Kinds(s) {
				classes = append(classes, "accepted_with:"+k)
			}
			structs, emptyDef, defaults := false, false, false
			spec.Walk(s, func(n *spec.Spec) {
				if n.Struct != "" {
					structs = true
				}
				for _, p := range n.Props {
					if p.EmptyIsDefault {
						emptyDef = true
					}
					if p.Default != nil {
						defaults = true
					}
				}
				if (n.Kind == spec.KOneOfI || n.Kind == spec.KOneOfS) && n.Inlined {
					classes = append(classes, "accepted_with:oneof_inlined")
				}
			})
			if structs {
				classes = append(classes, "accepted_with:struct_mapped")
			}
			if emptyDef {
				classes = append(classes, "accepted_with:empty_is_default")
			}
			if defaults {
				classes = append(classes, "accepted_with:defaults")
			}
		}
		ev.Case(ev.FP(specJSON(s), r.V.String()), nontrivial, classes...)
		if nontrivial && ev.WantSample("roundtrip") {
			ev.Sample("roundtrip", c)
		}
		if msg != "" {
			ev.Fail(rt, "roundtrip", c, "%s\nschema: %s", msg, specJSON(s))
		}
	})
}

// ---------------------------------------------------------------------------------------------------------------
// typed entry points

type typedOps struct {
	untyped schema.Type
	unser   func(any) (any, error)
	valid   func(any) error
	ser     func(any) (any, error)
}

func ops[T any](tt schema.TypedType[T]) *typedOps {
	return &typedOps{
		untyped: tt,
		unser:   func(d any) (any, error) { return tt.UnserializeType(d) },
		valid:   func(d any) error { return tt.ValidateType(d.(T)) },
		ser:     func(d any) (any, error) { return tt.SerializeType(d.(T)) },
	}
}

func buildUnits(s *spec.Spec) *schema.UnitsDefinition {
	if s.Units == nil {
		return nil
	}
	return s.Units.Build()
}

// typedFor builds the typed form of a spec when the SDK has one.
func typedFor(s *spec.Spec) *typedOps {
	switch s.Kind {
	case spec.KInt:
		return ops[int64](schema.NewIntSchema(s.Min, s.Max, buildUnits(s)))
	case spec.KFloat:
		return ops[float64](schema.NewFloatSchema(s.FMin, s.FMax, buildUnits(s)))
	case spec.KString:
		var re *regexp.Regexp
		if s.Pattern != nil {
			re = regexp.MustCompile(*s.Pattern)
		}
		return ops[string](schema.NewStringSchema(s.Min, s.Max, re))
	case spec.KBool:
		return ops[bool](schema.NewBoolSchema())
	case spec.KPattern:
		return ops[*regexp.Regexp](schema.NewPatternSchema())
	case spec.KEnumI:
		return ops[int64](spec.MustBuild(s).(*schema.IntEnumSchema))
	case spec.KEnumS:
		return ops[string](spec.MustBuild(s).(*schema.StringEnumSchema))
	case spec.KTypedEnumS:
		e := spec.MustBuild(s).(*schema.TypedStringEnumSchema[val.MyStr])
		// the typed entry points of this schema have mixed signatures (UnserializeType returns string)
		return &typedOps{
			untyped: e,
			unser:   func(d any) (any, error) { return e.UnserializeType(d) },
			valid:   func(d any) error { return e.ValidateType(d.(val.MyStr)) },
			ser:     func(d any) (any, error) { return e.SerializeType(d.(val.MyStr)) },
		}
	case spec.KList:
		switch s.Items.Kind {
		case spec.KInt:
			return ops[[]int64](schema.NewTypedListSchema[int64](schema.NewIntSchema(s.Items.Min, s.Items.Max, buildUnits(s.Items)), s.Min, s.Max))
		case spec.KString:
			return ops[[]string](schema.NewTypedListSchema[string](schema.NewStringSchema(s.Items.Min, s.Items.Max, nil), s.Min, s.Max))
		}
	case spec.KMap:
		if s.Keys.Kind == spec.KString && s.Values.Kind == spec.KInt {
			return ops[map[string]int64](schema.NewTypedMapSchema[string, int64](schema.NewStringSchema(s.Keys.Min, s.Keys.Max, nil), schema.NewIntSchema(s.Values.Min, s.Values.Max, buildUnits(s.Values)), s.Min, s.Max))
		}
		if s.Keys.Kind == spec.KInt && s.Values.Kind == spec.KString {
			return ops[map[int64]string](schema.NewTypedMapSchema[int64, string](schema.NewIntSchema(s.Keys.Min, s.Keys.Max, nil), schema.NewStringSchema(s.Values.Min, s.Values.Max, nil), s.Min, s.Max))
		}
	case spec.KObject:
		if s.Struct == "Leaf" {
			props := spec.MustBuild(s).(*schema.ObjectSchema).Properties()
			to := schema.NewTypedObject[spec.Leaf](s.ID, props)
			return ops[spec.Leaf](to)
		}
		if s.Struct == "*Leaf" {
			props := spec.MustBuild(s).(*schema.ObjectSchema).Properties()
			to := schema.NewTypedObject[*spec.Leaf](s.ID, props)
			if len(s.ID)%2 == 0 {
				return ops[any](to.Any())
			}
			return ops[*spec.Leaf](to)
		}
	case spec.KScope:
		root := s.ObjectByID(s.Root)
		if root != nil && root.Struct == "Leaf" && len(s.Objects) == 1 {
			ro := spec.MustBuild(root).(*schema.ObjectSchema)
			return ops[spec.Leaf](schema.NewTypedScopeSchema[spec.Leaf](ro))
		}
	case spec.KOneOfS:
		o := spec.MustBuild(s).(*schema.OneOfSchema[string])
		return &typedOps{untyped: o, unser: o.UnserializeType, valid: o.ValidateType, ser: o.SerializeType}
	case spec.KOneOfI:
		o := spec.MustBuild(s).(*schema.OneOfSchema[int64])
		return &typedOps{untyped: o, unser: o.UnserializeType, valid: o.ValidateType, ser: o.SerializeType}
	}
	return nil
}

// RunTyped compares the typed entry points with the untyped ones on one input.
func RunTyped(c Case) (string, string) {
	var tp *typedOps
	if p := safely(func() { tp = typedFor(c.Spec) }); p != nil || tp == nil {
		return "", "no_typed_form"
	}
	o := val.Opts{EmptyIsAbsent: spec.HasEmptyIsDefault(c.Spec)}
	var u, ut any
	var uerr, uterr error
	if p := safely(func() { u, uerr = tp.untyped.Unserialize(c.Raw.Go()) }); p != nil {
		return "", "panic_left_to_C04"
	}
	if p := safely(func() { ut, uterr = tp.unser(c.Raw.Go()) }); p != nil {
		if uerr == nil {
			return fmt.Sprintf("UnserializeType(%s) panicked (%v) where Unserialize returned %#v", c.Raw, p, u), "accepted"
		}
		return "", "panic_left_to_C04"
	}
	if (uerr == nil) != (uterr == nil) {
		return fmt.Sprintf("Unserialize(%s) = (%#v, %v) but UnserializeType = (%#v, %v)", c.Raw, u, uerr, ut, uterr), "accepted"
	}
	if uerr != nil {
		// both reject the raw form; if the raw value happens to be of the schema's native type, the native-side
		// entry points must agree on it as well
		var verr, vterr, serr, sterr error
		raw := c.Raw.Go()
		if p := safely(func() { vterr = tp.valid(raw); _, sterr = tp.ser(raw) }); p != nil {
			return "", "rejected" // not a value of the static type (the assertion in the adapter failed)
		}
		if p := safely(func() { verr = tp.untyped.Validate(raw); _, serr = tp.untyped.Serialize(raw) }); p != nil {
			return "", "panic_left_to_C04"
		}
		if (verr == nil) != (vterr == nil) {
			return fmt.Sprintf("Validate(%s) = %v but ValidateType = %v", c.Raw, verr, vterr), "rejected_native"
		}
		if (serr == nil) != (sterr == nil) {
			return fmt.Sprintf("Serialize(%s) fails with %v but SerializeType with %v", c.Raw, serr, sterr), "rejected_native"
		}
		return "", "rejected_native"
	}
	// compare the values up to the static result type (e.g. string vs named string)
	if !val.Equal(fmt.Sprintf("%v", ut), fmt.Sprintf("%v", u), o) && !val.Equal(ut, u, o) {
		return fmt.Sprintf("Unserialize(%s) = %#v but UnserializeType = %#v", c.Raw, u, ut), "accepted"
	}
	var verr, vterr error
	if p := safely(func() { verr = tp.untyped.Validate(u); vterr = tp.valid(u) }); p != nil {
		return fmt.Sprintf("ValidateType/Validate(%#v) panicked: %v", u, p), "accepted"
	}
	if (verr == nil) != (vterr == nil) {
		return fmt.Sprintf("Validate(%#v) = %v but ValidateType = %v", u, verr, vterr), "accepted"
	}
	var w, wt any
	var serr, sterr error
	if p := safely(func() { w, serr = tp.untyped.Serialize(u); wt, sterr = tp.ser(u) }); p != nil {
		return fmt.Sprintf("SerializeType/Serialize(%#v) panicked: %v", u, p), "accepted"
	}
	if (serr == nil) != (sterr == nil) || (serr == nil && !val.Equal(w, wt, o)) {
		return fmt.Sprintf("Serialize(%#v) = (%#v, %v) but SerializeType = (%#v, %v)", u, w, serr, wt, sterr), "accepted"
	}
	return "", "accepted"
}

func typedSpec(t *rapid.T) *spec.Spec {
	base := gen.Opts{MaxDepth: 1, Units: true}
	k := rapid.IntRange(0, 9).Draw(t, "typedShape")
	switch k {
	case 0, 1, 2:
		// scalars and enums
		o := base
		o.MaxDepth = 0
		return gen.Spec(o).Draw(t, "scalar")
	case 3:
		return &spec.Spec{Kind: spec.KTypedEnumS, Enum: []spec.EnumVal{{S: "a"}, {S: "b"}, {S: "1"}}}
	case 4:
		items := rapid.SampledFrom([]*spec.Spec{{Kind: spec.KInt, Min: spec.P(int64(0))}, {Kind: spec.KString}}).Draw(t, "items")
		return &spec.Spec{Kind: spec.KList, Items: items, Max: spec.P(int64(3))}
	case 5:
		if rapid.Bool().Draw(t, "mapShape") {
			return &spec.Spec{Kind: spec.KMap, Keys: &spec.Spec{Kind: spec.KString}, Values: &spec.Spec{Kind: spec.KInt}}
		}
		return &spec.Spec{Kind: spec.KMap, Keys: &spec.Spec{Kind: spec.KInt}, Values: &spec.Spec{Kind: spec.KString}}
	case 6, 7:
		// typed objects / scopes over Leaf
		o := gen.Full(2)
		o.Refs, o.OneOf = false, false
		for i := 0; i < 20; i++ {
			s := gen.Spec(o).Draw(t, "objSpec")
			var found *spec.Spec
			spec.Walk(s, func(n *spec.Spec) {
				if found == nil && n.Kind == spec.KObject && (n.Struct == "Leaf" || n.Struct == "*Leaf") {
					found = n
				}
			})
			if found != nil {
				if k == 7 && found.Struct == "Leaf" {
					return &spec.Spec{Kind: spec.KScope, Root: found.ID, Objects: []*spec.Spec{found}}
				}
				return found
			}
		}
		return &spec.Spec{Kind: spec.KBool}
	default:
		o := gen.Full(2)
		o.Refs = false
		for i := 0; i < 20; i++ {
			s := gen.Spec(o).Draw(t, "oneofSpec")
			var found *spec.Spec
			spec.Walk(s, func(n *spec.Spec) {
				if found == nil && (n.Kind == spec.KOneOfI || n.Kind == spec.KOneOfS) {
					found = n
				}
			})
			if found != nil {
				return found
			}
		}
		return &spec.Spec{Kind: spec.KInt}
	}
}

func TestTyped(t *testing.T) {
	ev.Check(t, "typed", 2500, 40000, func(rt *rapid.T) {
		s := typedSpec(rt)
		mv, ok := gen.ValueFor(rt, s, nil, 3)
		if !ok {
			rt.Skip("no valid value")
		}
		if rapid.IntRange(0, 2).Draw(rt, "perturb") == 0 {
			if pv, label := gen.Perturb(rt, s, nil, mv); label != "" {
				mv = pv
			}
		}
		r := gen.Render(rt, s, nil, mv)
		c := Case{Spec: s, Raw: r.V}
		msg, class := RunTyped(c)
		ev.Case(ev.FP("typed", specJSON(s), r.V.String()), class == "accepted" && (r.NonCanonical || hasContainer(s)), "typed:"+class, "typed_root="+s.Kind)
		if class == "accepted" && ev.WantSample("typed") {
			ev.Sample("typed", c)
		}
		if msg != "" {
			ev.Fail(rt, "typed", c, "%s\nschema: %s", msg, specJSON(s))
		}
	})
}

// TestKeyCollision feeds maps whose raw keys are distinct Go values that denote the same schema key (1 and "1" for
// an integer-keyed map - both can come out of one CBOR or YAML document). Whatever the SDK does with them, an
// accepted result must still obey the round-trip laws (in particular pass Validate, e.g. the size bounds).
func TestKeyCollision(t *testing.T) {
	ev.Check(t, "collision", 1500, 20000, func(rt *rapid.T) {
		n := rapid.IntRange(1, 3).Draw(rt, "min")
		valSpec := gen.Spec(gen.Opts{MaxDepth: 0}).Draw(rt, "valueSpec")
		var keySpec *spec.Spec
		intKeys := rapid.Bool().Draw(rt, "intKeys")
		if intKeys {
			keySpec = &spec.Spec{Kind: spec.KInt}
		} else {
			keySpec = &spec.Spec{Kind: spec.KString}
		}
		s := &spec.Spec{Kind: spec.KMap, Keys: keySpec, Values: valSpec, Min: spec.P(int64(n))}
		if rapid.Bool().Draw(rt, "hasMax") {
			s.Max = spec.P(int64(n + rapid.IntRange(0, 2).Draw(rt, "maxDelta")))
		}
		var kvs []val.KV
		total := n + rapid.IntRange(0, 2).Draw(rt, "extra")
		for i := 0; i < total; i++ {
			k := int64(rapid.IntRange(1, 2).Draw(rt, "key"))
			var kv val.V
			switch rapid.IntRange(0, 2).Draw(rt, "keyRep") {
			case 0:
				kv = val.Int("int64", k)
			case 1:
				kv = val.Str(fmt.Sprint(k))
			default:
				kv = val.Uint("uint64", uint64(k))
			}
			dup := false
			for _, e := range kvs {
				if e.K.T == kv.T && e.K.S == kv.S {
					dup = true
				}
			}
			if dup {
				continue
			}
			mv, ok := gen.ValueFor(rt, valSpec, nil, 1)
			if !ok {
				rt.Skip("no value")
			}
			kvs = append(kvs, val.KV{K: kv, V: gen.Render(rt, valSpec, nil, mv).V})
		}
		c := Case{Spec: s, Raw: val.V{T: "map[any]any", M: kvs}}
		msg, class := RunRoundTrip(c)
		distinct := map[string]bool{}
		for _, e := range kvs {
			distinct[e.K.S] = true
		}
		ev.Case(ev.FP("collision", specJSON(s), c.Raw.String()), len(distinct) < len(kvs), "collision:"+class)
		if len(distinct) < len(kvs) && ev.WantSample("collision") {
			ev.Sample("collision", c)
		}
		if msg != "" {
			ev.Fail(rt, "roundtrip", c, "%s\nschema: %s", msg, specJSON(s))
		}
	})
}
