package c01

import (
	"context"
	"fmt"
	"hash/fnv"
	"io"
	"sync"
	"time"

	"github.com/fxamacker/cbor/v2"
	"go.flow.arcalot.io/pluginsdk/atp"
	"go.flow.arcalot.io/pluginsdk/schema"
	"verif/harness/atpx"
	"verif/harness/ev"
	"verif/harness/val"
)

// The ATP leg: "after a CBOR encode/decode exactly as ATP transports it" is taken literally for a sample of the
// serialized forms - the form travels to a real RunATPServer as the any-typed input of an echo step and comes back as
// its any-typed output, through the SDK's own encoders and decode modes on both sides. Oracle: whenever the any
// schema passes the form through in process, the exchange succeeds and delivers what a plain CBOR round trip of the
// in-process result gives.

type pipeChannel struct {
	io.Reader
	io.Writer
	closer io.Closer
}

func (p pipeChannel) Close() error { return p.closer.Close() }

var (
	atpClient atp.Client
	atpMu     sync.Mutex
	atpRuns   int
)

func echoScope(id string) *schema.ScopeSchema {
	return schema.NewScopeSchema(schema.NewObjectSchema(id, map[string]*schema.PropertySchema{
		"v": schema.NewPropertySchema(schema.NewAnySchema(), nil, true, nil, nil, nil, nil, nil),
	}))
}

// atpSession returns the running echo session, starting one if there is none. A session in which an exchange failed
// is dropped (dropSession), so that a failure is only ever attributed to the form that caused it.
func atpSession() (atp.Client, error) {
	atpMu.Lock()
	defer atpMu.Unlock()
	if atpClient != nil {
		return atpClient, nil
	}
	stdinR, stdinW := io.Pipe()
	stdoutR, stdoutW := io.Pipe()
	plugin := schema.NewCallableSchema(schema.NewCallableStep[any]("echo", echoScope("In"),
		map[string]*schema.StepOutputSchema{"success": schema.NewStepOutputSchema(echoScope("Out"), nil, false)}, nil,
		func(_ context.Context, in any) (string, any) { return "success", in }))
	go func() {
		_ = atp.RunATPServer(context.Background(), stdinR, stdoutW, plugin)
		_ = stdoutW.Close()
	}()
	cl := atp.NewClient(pipeChannel{Reader: stdoutR, Writer: stdinW, closer: stdinW})
	done := make(chan error, 1)
	go func() { _, err := cl.ReadSchema(); done <- err }()
	select {
	case err := <-done:
		if err != nil {
			return nil, err
		}
	case <-time.After(20 * time.Second):
		return nil, fmt.Errorf("ReadSchema did not return")
	}
	atpClient = cl
	return cl, nil
}

func dropSession(cl atp.Client) {
	atpMu.Lock()
	if atpClient == cl {
		atpClient = nil
	}
	atpMu.Unlock()
	go func() { defer func() { _ = recover() }(); _ = cl.Close() }()
}

// atpLeg returns a message if the serialized form w does not survive a real ATP exchange.
func atpLeg(w any, enc []byte) string {
	h := fnv.New32a()
	_, _ = h.Write(enc)
	if h.Sum32()%8 != 0 {
		return ""
	}
	// in process: what the echo step's schemas make of the form
	scope := echoScope("In")
	var inproc any
	var ierr error
	if p := safely(func() {
		var u any
		u, ierr = scope.Unserialize(map[string]any{"v": w})
		if ierr == nil {
			inproc, ierr = scope.Serialize(u)
		}
	}); p != nil || ierr != nil {
		ev.Class("atp_leg:form_not_an_any_value", 1)
		return ""
	}
	b, err := cbor.Marshal(inproc)
	if err != nil {
		return ""
	}
	var want any
	if err := atpx.Dec.Unmarshal(b, &want); err != nil {
		return ""
	}
	cl, err := atpSession()
	if err != nil {
		return fmt.Sprintf("harness: ATP echo session could not be started: %v", err)
	}
	atpMu.Lock()
	atpRuns++
	run := fmt.Sprintf("echo-%d", atpRuns)
	atpMu.Unlock()
	res := make(chan atp.ExecutionResult, 1)
	go func() { res <- cl.Execute(schema.Input{RunID: run, ID: "echo", InputData: map[string]any{"v": w}}, nil, nil) }()
	select {
	case r := <-res:
		ev.Class("atp_leg:exchanged", 1)
		if r.Error != nil {
			dropSession(cl)
			return fmt.Sprintf("the serialized form %#v passes through the any schema in process, but as a step input / output over ATP the exchange fails: %v", w, r.Error)
		}
		if r.OutputID != "success" || !val.Equal(r.OutputData, want, val.Opts{}) {
			return fmt.Sprintf("the serialized form %#v came back over ATP as (%q, %#v); a CBOR round trip of the in-process result gives %#v", w, r.OutputID, r.OutputData, want)
		}
	case <-time.After(30 * time.Second):
		dropSession(cl)
		return fmt.Sprintf("the ATP exchange of the serialized form %#v did not return within 30 s", w)
	}
	return ""
}
