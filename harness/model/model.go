// Package model is the reference interpreter over spec.Spec, written from the property statements and the
// documented conversions - not from the SDK code. It decides accept/reject and the denoted value of raw inputs,
// the validity of native values, and compares SDK results with the denoted value.
package model

import (
	"encoding/json"
	"fmt"
	"math"
	"math/big"
	"reflect"
	"regexp"
	"strconv"
	"strings"

	"verif/harness/spec"
	"verif/harness/units"
	"verif/harness/val"
)

// Verdict of the model.
type Verdict int

const (
	Accept Verdict = iota
	Reject
	Unspec // the statement leaves the outcome open (e.g. two raw map keys denoting the same key)
)

func (v Verdict) String() string { return [...]string{"accept", "reject", "unspecified"}[v] }

// Pat is the model value of a pattern.
type Pat struct{ Src string }

// Env is the lexical environment: the object table of the nearest enclosing scope.
type Env struct {
	Objects map[string]*spec.Spec
	// Ext maps a namespace to the scope spec whose objects it exposes.
	Ext map[string]*spec.Spec
}

// ScopeEnv returns the environment inside a scope.
func (e *Env) ScopeEnv(s *spec.Spec) *Env {
	n := &Env{Objects: map[string]*spec.Spec{}}
	if e != nil {
		n.Ext = e.Ext
	}
	for _, o := range s.Objects {
		n.Objects[o.ID] = o
	}
	return n
}

// Resolve follows ref and scope nodes to the object they denote, with the environment that applies inside it.
func Resolve(s *spec.Spec, env *Env) (*spec.Spec, *Env) {
	for i := 0; i < 1000; i++ {
		switch s.Kind {
		case spec.KRef:
			if s.Namespace == "" {
				if env == nil || env.Objects[s.RefID] == nil {
					return nil, env
				}
				s = env.Objects[s.RefID]
			} else {
				if env == nil || env.Ext[s.Namespace] == nil {
					return nil, env
				}
				sc := env.Ext[s.Namespace]
				env = (&Env{Ext: env.Ext}).ScopeEnv(sc) // a namespace name denotes the same external scope everywhere
				s = sc.ObjectByID(s.RefID)
				if s == nil {
					return nil, env
				}
			}
		case spec.KScope:
			env = env.ScopeEnv(s)
			s = s.ObjectByID(s.Root)
			if s == nil {
				return nil, env
			}
		default:
			return s, env
		}
	}
	return nil, env
}

var boolWords = map[string]bool{
	"1": true, "yes": true, "y": true, "on": true, "true": true, "enable": true, "enabled": true,
	"0": false, "no": false, "n": false, "off": false, "false": false, "disable": false, "disabled": false,
}

// toInt applies the fixed lenient conversions to integer.
func toInt(raw any, u *units.Def) (int64, Verdict) {
	switch v := raw.(type) {
	case int:
		return int64(v), Accept
	case int8:
		return int64(v), Accept
	case int16:
		return int64(v), Accept
	case int32:
		return int64(v), Accept
	case int64:
		return v, Accept
	case uint8:
		return int64(v), Accept
	case uint16:
		return int64(v), Accept
	case uint32:
		return int64(v), Accept
	case uint:
		if uint64(v) > math.MaxInt64 {
			return 0, Reject
		}
		return int64(v), Accept
	case uint64:
		if v > math.MaxInt64 {
			return 0, Reject
		}
		return int64(v), Accept
	case float64:
		if v != math.Trunc(v) || math.IsInf(v, 0) || math.IsNaN(v) || v < -9223372036854775808.0 || v >= 9223372036854775808.0 {
			return 0, Reject
		}
		return int64(v), Accept
	case float32:
		f := float64(v)
		if f != math.Trunc(f) || math.IsInf(f, 0) || math.IsNaN(f) || f < -9223372036854775808.0 || f >= 9223372036854775808.0 {
			return 0, Reject
		}
		return int64(f), Accept
	case bool:
		if v {
			return 1, Accept
		}
		return 0, Accept
	case string:
		if u != nil {
			rs := u.ParseAll(v)
			switch {
			case len(rs) == 0:
				return 0, Reject
			case len(rs) > 1:
				return 0, Unspec
			}
			r := rs[0]
			if r.Decimal {
				if r.Value.IsInt() && r.Value.Num().IsInt64() {
					return 0, Unspec // "5.0s" for an integer: rejection or 5 both tolerated
				}
				return 0, Reject
			}
			if !r.Value.Num().IsInt64() {
				return 0, Reject
			}
			return r.Value.Num().Int64(), Accept
		}
		i, err := strconv.ParseInt(v, 10, 64)
		if err != nil {
			return 0, Reject
		}
		return i, Accept
	}
	return 0, Reject
}

func toFloat(raw any, u *units.Def) (float64, Verdict) {
	switch v := raw.(type) {
	case int:
		return float64(v), Accept
	case int8:
		return float64(v), Accept
	case int16:
		return float64(v), Accept
	case int32:
		return float64(v), Accept
	case int64:
		return float64(v), Accept
	case uint:
		return float64(v), Accept
	case uint8:
		return float64(v), Accept
	case uint16:
		return float64(v), Accept
	case uint32:
		return float64(v), Accept
	case uint64:
		return float64(v), Accept
	case float32:
		return float64(v), Accept
	case float64:
		return v, Accept
	case bool:
		if v {
			return 1, Accept
		}
		return 0, Accept
	case string:
		if u != nil {
			rs := u.ParseAll(v)
			switch {
			case len(rs) == 0:
				return 0, Reject
			case len(rs) > 1:
				return 0, Unspec
			}
			if rs[0].CountOverflow || rs[0].Value.Cmp(new(big.Rat).SetInt64(math.MaxInt64)) > 0 {
				return 0, Unspec // beyond 64 bits: rejection or the value are both tolerated
			}
			f, _ := rs[0].Value.Float64()
			return f, Accept
		}
		f, err := strconv.ParseFloat(v, 64)
		if err != nil {
			return 0, Reject
		}
		return f, Accept
	}
	return 0, Reject
}

func toString(raw any) (string, Verdict) {
	switch v := raw.(type) {
	case string:
		return v, Accept
	case int, int8, int16, int32, int64, uint, uint8, uint16, uint32, uint64:
		return fmt.Sprintf("%d", v), Accept
	case float64:
		return strconv.FormatFloat(v, 'f', 6, 64), Accept
	case float32:
		return strconv.FormatFloat(float64(v), 'f', 6, 64), Accept
	}
	return "", Reject
}

func toBool(raw any) (bool, Verdict) {
	switch v := raw.(type) {
	case bool:
		return v, Accept
	case string:
		b, ok := boolWords[strings.ToLower(v)]
		if !ok {
			return false, Reject
		}
		return b, Accept
	case int, int8, int16, int32, int64, uint, uint8, uint16, uint32, uint64:
		s := fmt.Sprintf("%d", v)
		if s == "1" {
			return true, Accept
		}
		if s == "0" {
			return false, Accept
		}
		return false, Reject
	}
	return false, Reject
}

func worst(a, b Verdict) Verdict {
	if a == Reject || b == Reject {
		return Reject
	}
	if a == Unspec || b == Unspec {
		return Unspec
	}
	return Accept
}

// Denote gives the model value a raw input denotes under Unserialize, with the verdict.
// On Reject the value is nil. A definite Reject anywhere wins over Unspec.
func Denote(s *spec.Spec, env *Env, raw any) (any, Verdict) {
	mv, v := convert(s, env, raw, 0)
	if v != Accept {
		return nil, v
	}
	if !Check(s, env, mv) {
		return nil, Reject
	}
	return mv, Accept
}

func convert(s *spec.Spec, env *Env, raw any, depth int) (any, Verdict) {
	if depth > 4000 {
		return nil, Unspec
	}
	switch s.Kind {
	case spec.KInt:
		i, v := toInt(raw, s.Units)
		return i, v
	case spec.KFloat:
		f, v := toFloat(raw, s.Units)
		return f, v
	case spec.KString:
		str, v := toString(raw)
		return str, v
	case spec.KBool:
		b, v := toBool(raw)
		return b, v
	case spec.KPattern:
		str, v := toString(raw)
		if v != Accept {
			return nil, v
		}
		if _, err := regexp.Compile(str); err != nil {
			return nil, Reject
		}
		return Pat{str}, Accept
	case spec.KEnumS, spec.KTypedEnumS:
		str, v := toString(raw)
		return str, v
	case spec.KEnumI:
		i, v := toInt(raw, s.Units)
		return i, v
	case spec.KList:
		rv := reflect.ValueOf(raw)
		if !rv.IsValid() || rv.Kind() != reflect.Slice {
			return nil, Reject
		}
		out := make([]any, rv.Len())
		verdict := Accept
		for i := 0; i < rv.Len(); i++ {
			e, v := convert(s.Items, env, rv.Index(i).Interface(), depth+1)
			verdict = worst(verdict, v)
			if verdict == Reject {
				return nil, Reject
			}
			out[i] = e
		}
		return out, verdict
	case spec.KMap:
		rv := reflect.ValueOf(raw)
		if !rv.IsValid() || rv.Kind() != reflect.Map {
			return nil, Reject
		}
		// the size bound applies to the entries supplied
		if !sizeOK(s, rv.Len()) {
			return nil, Reject
		}
		out := make(map[any]any, rv.Len())
		verdict := Accept
		for it := rv.MapRange(); it.Next(); { // not MapIndex: a NaN key cannot be looked up
			k := it.Key()
			mk, v := Denote(s.Keys, env, k.Interface())
			verdict = worst(verdict, v)
			if verdict == Reject {
				return nil, Reject
			}
			mvv, v := convert(s.Values, env, it.Value().Interface(), depth+1)
			verdict = worst(verdict, v)
			if verdict == Reject {
				return nil, Reject
			}
			if v == Accept {
				if _, dup := out[mk]; dup {
					verdict = Unspec // two raw keys denote the same key
				}
				out[mk] = mvv
			}
		}
		return out, verdict
	case spec.KAny:
		return convertAny(raw)
	case spec.KObject:
		return convertObject(s, env, raw, depth)
	case spec.KRef, spec.KScope:
		o, oenv := Resolve(s, env)
		if o == nil {
			return nil, Unspec
		}
		return convertObject(o, oenv, raw, depth)
	case spec.KOneOfS, spec.KOneOfI:
		return convertOneOf(s, env, raw, depth)
	}
	return nil, Unspec
}

func convertAny(raw any) (any, Verdict) {
	switch v := raw.(type) {
	case nil:
		return nil, Reject
	case int, int8, int16, int32, int64, uint, uint8, uint16, uint32, uint64:
		i, vd := toInt(v, nil)
		return i, vd
	case float32:
		return float64(v), Accept
	case float64:
		return v, Accept
	case string:
		return v, Accept
	case bool:
		return v, Accept
	}
	rv := reflect.ValueOf(raw)
	switch rv.Kind() {
	case reflect.Slice:
		out := make([]any, rv.Len())
		verdict := Accept
		for i := 0; i < rv.Len(); i++ {
			e, v := convertAny(rv.Index(i).Interface())
			verdict = worst(verdict, v)
			if verdict == Reject {
				return nil, Reject
			}
			out[i] = e
		}
		return out, verdict
	case reflect.Map:
		out := make(map[any]any, rv.Len())
		verdict := Accept
		for _, k := range rv.MapKeys() {
			mk, v := convertAny(k.Interface())
			verdict = worst(verdict, v)
			if verdict == Reject {
				return nil, Reject
			}
			switch mk.(type) {
			case []any, map[any]any:
				return nil, Reject
			}
			if f, ok := mk.(float64); ok && math.IsNaN(f) {
				return nil, Unspec
			}
			e, v := convertAny(rv.MapIndex(k).Interface())
			verdict = worst(verdict, v)
			if verdict == Reject {
				return nil, Reject
			}
			if _, dup := out[mk]; dup {
				verdict = Unspec
			}
			out[mk] = e
		}
		return out, verdict
	}
	// named scalar kinds, structs (time.Time, big.Int, cbor.Tag), pointers, ... : not in the documented whitelist.
	// Named scalar types are judged under C04 (totality), not here.
	switch rv.Kind() {
	case reflect.Int, reflect.Int8, reflect.Int16, reflect.Int32, reflect.Int64, reflect.Uint, reflect.Uint8, reflect.Uint16,
		reflect.Uint32, reflect.Uint64, reflect.Float32, reflect.Float64, reflect.String, reflect.Bool:
		return nil, Unspec
	}
	return nil, Reject
}

func sizeOK(s *spec.Spec, n int) bool {
	if s.Min != nil && int64(n) < *s.Min {
		return false
	}
	if s.Max != nil && int64(n) > *s.Max {
		return false
	}
	return true
}

// DefaultRaw decodes a declared default the documented way: JSON; a non-JSON text on a string-typed property is
// the string itself.
func DefaultRaw(p *spec.Prop) (any, bool) {
	if p.Default == nil {
		return nil, false
	}
	var v any
	if err := json.Unmarshal([]byte(*p.Default), &v); err != nil {
		if p.Type.Kind == spec.KString {
			return *p.Default, true
		}
		return nil, false
	}
	return v, true
}

// isValueObjectMember: the property's type is an object (directly or by reference) that is held by value, i.e.
// its schema's native type is not a pointer.
func isValueObjectMember(p *spec.Prop, env *Env) (*spec.Spec, *Env, bool) {
	if p.Type.Kind != spec.KObject && p.Type.Kind != spec.KRef {
		return nil, nil, false
	}
	o, oenv := Resolve(p.Type, env)
	if o == nil {
		return nil, nil, false
	}
	if strings.HasPrefix(o.Struct, "*") {
		return nil, nil, false
	}
	return o, oenv, true
}

// leadsIntoLoop tells if following the object members that are there whenever the object is (by-value members and
// members with a declared default) leads from the object into a loop of objects.
func leadsIntoLoop(from *spec.Spec, env *Env, onPath map[*spec.Spec]bool, loopFree map[*spec.Spec]bool) bool {
	if onPath[from] {
		return true
	}
	if loopFree[from] {
		return false
	}
	onPath[from] = true
	defer delete(onPath, from)
	for i := range from.Props {
		p := &from.Props[i]
		sub, senv, ok := isValueObjectMember(p, env)
		if !ok && p.Default != nil && (p.Type.Kind == spec.KObject || p.Type.Kind == spec.KRef) {
			sub, senv = Resolve(p.Type, env)
			ok = sub != nil
		}
		if ok && leadsIntoLoop(sub, senv, onPath, loopFree) {
			return true
		}
	}
	loopFree[from] = true
	return false
}

// reachesByValue: a member that is part of, or leads into, a loop of always-present members stays absent.
func reachesByValue(from *spec.Spec, env *Env, _ *spec.Spec, _ map[*spec.Spec]bool) bool {
	return leadsIntoLoop(from, env, map[*spec.Spec]bool{}, map[*spec.Spec]bool{})
}

// SubDefaults computes what an absent by-value object member is materialised from: the defaults of its
// properties, recursively through by-value object members (each object at most once along a path, so that
// self-referential graphs give a finite value). nil when there is nothing to materialise.
func SubDefaults(o *spec.Spec, env *Env, depth int) map[string]any {
	d := MergeSubDefaults(nil, o, env, map[*spec.Spec]bool{})
	if len(d) == 0 {
		return nil
	}
	return d
}

// MergeSubDefaults fills the keys that own (a declared default of the member, or nil) leaves out with the defaults
// of the member's properties; by-value object members are treated the same way recursively.
func MergeSubDefaults(own map[string]any, o *spec.Spec, env *Env, visiting map[*spec.Spec]bool) map[string]any {
	data := map[string]any{}
	for k, v := range own {
		data[k] = v
	}
	if visiting[o] {
		return data
	}
	visiting[o] = true
	defer delete(visiting, o)
	for i := range o.Props {
		p := &o.Props[i]
		if _, has := data[p.Name]; has {
			continue
		}
		if d, ok := DefaultRaw(p); ok {
			data[p.Name] = d
		}
	}
	for i := range o.Props {
		p := &o.Props[i]
		sub, senv, ok := isValueObjectMember(p, env)
		if !ok || visiting[sub] || reachesByValue(sub, senv, o, map[*spec.Spec]bool{}) {
			// a member that leads back to its owner stays absent: completing it would never end
			continue
		}
		existing, has := data[p.Name]
		if has {
			em, isMap := existing.(map[string]any)
			if !isMap {
				continue
			}
			data[p.Name] = MergeSubDefaults(em, sub, senv, visiting)
			continue
		}
		if sd := MergeSubDefaults(nil, sub, senv, visiting); len(sd) > 0 {
			data[p.Name] = sd
		}
	}
	return data
}

func convertObject(o *spec.Spec, env *Env, raw any, depth int) (any, Verdict) {
	rv := reflect.ValueOf(raw)
	if !rv.IsValid() || rv.Kind() != reflect.Map {
		// single-property shorthand
		if len(o.Props) != 1 {
			return nil, Reject
		}
		p := &o.Props[0]
		if p.Disabled {
			return nil, Reject
		}
		mv, v := convert(p.Type, env, raw, depth+1)
		if v != Accept {
			return nil, v
		}
		return map[string]any{p.Name: mv}, Accept
	}
	supplied := map[string]any{}
	for _, k := range rv.MapKeys() {
		ks, ok := k.Interface().(string)
		if !ok {
			return nil, Reject
		}
		if o.PropByName(ks) == nil {
			return nil, Reject
		}
		supplied[ks] = rv.MapIndex(k).Interface()
	}
	// defaults for absent properties
	for i := range o.Props {
		p := &o.Props[i]
		if _, has := supplied[p.Name]; has {
			continue
		}
		d, hasDefault := DefaultRaw(p)
		if hasDefault {
			supplied[p.Name] = d
		}
		// struct-mapped parents: an absent by-value object member is completed / materialised from the defaults
		// of its properties (documented by TestObjectNestedDefaults)
		if o.Struct != "" {
			if sub, senv, ok := isValueObjectMember(p, env); ok && !reachesByValue(sub, senv, o, map[*spec.Spec]bool{}) {
				if hasDefault {
					if dm, isMap := d.(map[string]any); isMap {
						supplied[p.Name] = MergeSubDefaults(dm, sub, senv, map[*spec.Spec]bool{})
					}
				} else if sd := SubDefaults(sub, senv, 0); len(sd) > 0 {
					supplied[p.Name] = sd
				}
			}
		}
	}
	out := map[string]any{}
	verdict := Accept
	for i := range o.Props {
		p := &o.Props[i]
		r, has := supplied[p.Name]
		if !has {
			continue
		}
		if p.Disabled {
			return nil, Reject
		}
		mv, v := convert(p.Type, env, r, depth+1)
		verdict = worst(verdict, v)
		if verdict == Reject {
			return nil, Reject
		}
		out[p.Name] = mv
	}
	return out, verdict
}

func convertOneOf(s *spec.Spec, env *Env, raw any, depth int) (any, Verdict) {
	rv := reflect.ValueOf(raw)
	if !rv.IsValid() || rv.Kind() != reflect.Map {
		return nil, Reject
	}
	if rv.Type().Key().Kind() != reflect.String && rv.Type().Key().Kind() != reflect.Interface {
		return nil, Reject
	}
	var disc any
	found := false
	data := map[string]any{}
	for _, k := range rv.MapKeys() {
		ks, ok := k.Interface().(string)
		if !ok {
			return nil, Reject
		}
		data[ks] = rv.MapIndex(k).Interface()
		if ks == s.Discriminator {
			disc, found = data[ks], true
		}
	}
	if !found {
		return nil, Reject
	}
	var member *spec.Spec
	var typed any
	if s.Kind == spec.KOneOfI {
		i, v := toInt(disc, nil)
		if v != Accept {
			return nil, v
		}
		typed = i
		for j := range s.Members {
			if s.Members[j].KeyI == i {
				member = s.Members[j].Type
			}
		}
	} else {
		str, v := toString(disc)
		if v != Accept {
			return nil, v
		}
		typed = str
		for j := range s.Members {
			if s.Members[j].KeyS == str {
				member = s.Members[j].Type
			}
		}
	}
	if member == nil {
		return nil, Reject
	}
	if !s.Inlined {
		delete(data, s.Discriminator)
	}
	o, oenv := Resolve(member, env)
	if o == nil {
		return nil, Unspec
	}
	mv, v := convertObject(o, oenv, data, depth+1)
	if v != Accept {
		return nil, v
	}
	m := mv.(map[string]any)
	// the model value always carries the (converted) discriminator; for struct-mapped members Match and ToNative
	// know that the Go type stands for it
	m[s.Discriminator] = typed
	return m, Accept
}

// ---------------------------------------------------------------------------------------------------------------
// Check: constraints on a (type-correct) model value

func Check(s *spec.Spec, env *Env, mv any) bool {
	switch s.Kind {
	case spec.KInt:
		i, ok := mv.(int64)
		if !ok {
			return false
		}
		return (s.Min == nil || i >= *s.Min) && (s.Max == nil || i <= *s.Max)
	case spec.KFloat:
		f, ok := mv.(float64)
		if !ok {
			return false
		}
		// IEEE comparisons: NaN satisfies no declared bound
		return (s.FMin == nil || f >= *s.FMin) && (s.FMax == nil || f <= *s.FMax)
	case spec.KString:
		str, ok := mv.(string)
		if !ok {
			return false
		}
		if !sizeOK(s, len(str)) {
			return false
		}
		if s.Pattern != nil && !regexp.MustCompile(*s.Pattern).MatchString(str) {
			return false
		}
		return true
	case spec.KBool:
		_, ok := mv.(bool)
		return ok
	case spec.KPattern:
		_, ok := mv.(Pat)
		return ok
	case spec.KEnumS, spec.KTypedEnumS:
		str, ok := mv.(string)
		if !ok {
			return false
		}
		for _, e := range s.Enum {
			if e.S == str {
				return true
			}
		}
		return false
	case spec.KEnumI:
		i, ok := mv.(int64)
		if !ok {
			return false
		}
		for _, e := range s.Enum {
			if e.I == i {
				return true
			}
		}
		return false
	case spec.KList:
		l, ok := mv.([]any)
		if !ok || !sizeOK(s, len(l)) {
			return false
		}
		for _, e := range l {
			if !Check(s.Items, env, e) {
				return false
			}
		}
		return true
	case spec.KMap:
		m, ok := mv.(map[any]any)
		if !ok || !sizeOK(s, len(m)) {
			return false
		}
		for k, e := range m {
			if !Check(s.Keys, env, k) || !Check(s.Values, env, e) {
				return false
			}
		}
		return true
	case spec.KAny:
		return mv != nil
	case spec.KObject:
		return checkObject(s, env, mv)
	case spec.KRef, spec.KScope:
		o, oenv := Resolve(s, env)
		if o == nil {
			return false
		}
		return checkObject(o, oenv, mv)
	case spec.KOneOfS, spec.KOneOfI:
		m, ok := mv.(map[string]any)
		if !ok {
			return false
		}
		var member *spec.Spec
		d, has := m[s.Discriminator]
		if !has {
			// struct-mapped member: dispatch was by Go type; checked by the caller that built it
			return false
		}
		for j := range s.Members {
			if s.Kind == spec.KOneOfI {
				if i, ok := d.(int64); ok && i == s.Members[j].KeyI {
					member = s.Members[j].Type
				}
			} else if str, ok := d.(string); ok && str == s.Members[j].KeyS {
				member = s.Members[j].Type
			}
		}
		if member == nil {
			return false
		}
		o, oenv := Resolve(member, env)
		if o == nil {
			return false
		}
		if !s.Inlined {
			c := map[string]any{}
			for k, v := range m {
				if k != s.Discriminator {
					c[k] = v
				}
			}
			m = c
		}
		return checkObject(o, oenv, m)
	}
	return false
}

// PresenceOK evaluates required / required_if / required_if_not / conflicts over a set of present properties.
func PresenceOK(o *spec.Spec, present func(string) bool) bool {
	for i := range o.Props {
		p := &o.Props[i]
		if present(p.Name) {
			for _, c := range p.Conflicts {
				if present(c) {
					return false
				}
			}
			continue
		}
		if p.Required {
			return false
		}
		for _, r := range p.RequiredIf {
			if present(r) {
				return false
			}
		}
		if len(p.RequiredIfNot) > 0 {
			any := false
			for _, r := range p.RequiredIfNot {
				if present(r) {
					any = true
				}
			}
			if !any {
				return false
			}
		}
	}
	return true
}

func checkObject(o *spec.Spec, env *Env, mv any) bool {
	m, ok := mv.(map[string]any)
	if !ok {
		return false
	}
	for k, v := range m {
		p := o.PropByName(k)
		if p == nil {
			return false
		}
		if !Check(p.Type, env, v) {
			return false
		}
	}
	return PresenceOK(o, func(n string) bool { _, ok := m[n]; return ok })
}

// ---------------------------------------------------------------------------------------------------------------
// Match: compare an SDK result (unserialized, native form) with the model value, directed by the spec.

func floatEq(a, b float64, tol bool) bool {
	if math.IsNaN(a) || math.IsNaN(b) {
		return math.IsNaN(a) && math.IsNaN(b)
	}
	if a == b {
		return true
	}
	if tol {
		return math.Abs(a-b) <= 1e-9*math.Max(math.Abs(a), math.Abs(b))
	}
	return false
}

// Match returns "" when got (an SDK-unserialized value) equals the model value mv.
func Match(s *spec.Spec, env *Env, mv any, got any) string {
	return match(s, env, mv, reflect.ValueOf(got), "")
}

func deref(v reflect.Value) reflect.Value {
	for v.IsValid() && (v.Kind() == reflect.Interface || v.Kind() == reflect.Pointer) && v.Type() != reflect.TypeOf(&regexp.Regexp{}) {
		if v.IsNil() {
			return reflect.Value{}
		}
		v = v.Elem()
	}
	return v
}

func match(s *spec.Spec, env *Env, mv any, got reflect.Value, path string) string {
	g := deref(got)
	if !g.IsValid() {
		return fmt.Sprintf("%s: got nil, want %#v", path, mv)
	}
	bad := func() string { return fmt.Sprintf("%s: got %#v, want %#v", path, g.Interface(), mv) }
	switch s.Kind {
	case spec.KInt, spec.KEnumI:
		if g.Kind() != reflect.Int64 || g.Int() != mv.(int64) {
			return bad()
		}
	case spec.KFloat:
		if g.Kind() != reflect.Float64 || !floatEq(g.Float(), mv.(float64), s.Units != nil) {
			return bad()
		}
	case spec.KString, spec.KEnumS, spec.KTypedEnumS:
		if g.Kind() != reflect.String || g.String() != mv.(string) {
			return bad()
		}
	case spec.KBool:
		if g.Kind() != reflect.Bool || g.Bool() != mv.(bool) {
			return bad()
		}
	case spec.KPattern:
		re, ok := g.Interface().(*regexp.Regexp)
		if !ok || re == nil || re.String() != mv.(Pat).Src {
			return bad()
		}
	case spec.KList:
		l := mv.([]any)
		if g.Kind() != reflect.Slice || g.Len() != len(l) {
			return bad()
		}
		for i := range l {
			if m := match(s.Items, env, l[i], g.Index(i), fmt.Sprintf("%s[%d]", path, i)); m != "" {
				return m
			}
		}
	case spec.KMap:
		mm := mv.(map[any]any)
		if g.Kind() != reflect.Map || g.Len() != len(mm) {
			return bad()
		}
		for _, k := range g.MapKeys() {
			kk := deref(k)
			var ck any
			switch kk.Kind() {
			case reflect.Int64:
				ck = kk.Int()
			case reflect.String:
				ck = kk.String()
			default:
				return bad()
			}
			want, ok := mm[ck]
			if !ok {
				return fmt.Sprintf("%s: unexpected key %v", path, ck)
			}
			if m := match(s.Values, env, want, g.MapIndex(k), fmt.Sprintf("%s[%v]", path, ck)); m != "" {
				return m
			}
		}
	case spec.KAny:
		if !val.Equal(canonAny(g), mv, val.Opts{}) {
			return bad()
		}
	case spec.KObject, spec.KRef, spec.KScope:
		o, oenv := Resolve(s, env)
		if o == nil {
			return path + ": unresolved"
		}
		return matchObject(o, oenv, mv.(map[string]any), g, path)
	case spec.KOneOfS, spec.KOneOfI:
		m := mv.(map[string]any)
		if g.Kind() == reflect.Map {
			d := m[s.Discriminator]
			var member *spec.Spec
			for j := range s.Members {
				if (s.Kind == spec.KOneOfI && d == any(s.Members[j].KeyI)) || (s.Kind == spec.KOneOfS && d == any(s.Members[j].KeyS)) {
					member = s.Members[j].Type
				}
			}
			if member == nil {
				return bad()
			}
			o, oenv := Resolve(member, env)
			// the discriminator entry itself
			dv := g.MapIndex(reflect.ValueOf(s.Discriminator))
			if !dv.IsValid() || !val.Equal(deref(dv).Interface(), d, val.Opts{}) {
				return fmt.Sprintf("%s: discriminator %q: got %v, want %#v", path, s.Discriminator, dv, d)
			}
			if s.Inlined {
				return matchObject(o, oenv, m, g, path)
			}
			rest := map[string]any{}
			for k, v := range m {
				if k != s.Discriminator {
					rest[k] = v
				}
			}
			return matchObjectIgnoring(o, oenv, rest, g, path, s.Discriminator)
		}
		// struct member: find the member by the Go type
		for j := range s.Members {
			o, oenv := Resolve(s.Members[j].Type, env)
			if o != nil && o.Struct != "" && spec.StructType(strings.TrimPrefix(o.Struct, "*")) == g.Type() {
				rest := map[string]any{}
				for k, v := range m {
					if k != s.Discriminator || s.Inlined {
						rest[k] = v
					}
				}
				return matchObject(o, oenv, rest, g, path)
			}
		}
		return bad()
	}
	return ""
}

func canonAny(g reflect.Value) any {
	g = deref(g)
	if !g.IsValid() {
		return nil
	}
	switch g.Kind() {
	case reflect.Slice:
		out := make([]any, g.Len())
		for i := range out {
			out[i] = canonAny(g.Index(i))
		}
		return out
	case reflect.Map:
		out := map[any]any{}
		for _, k := range g.MapKeys() {
			out[canonAny(k)] = canonAny(g.MapIndex(k))
		}
		return out
	}
	return g.Interface()
}

func matchObject(o *spec.Spec, env *Env, m map[string]any, g reflect.Value, path string) string {
	return matchObjectIgnoring(o, env, m, g, path, "")
}

func matchObjectIgnoring(o *spec.Spec, env *Env, m map[string]any, g reflect.Value, path string, ignoreKey string) string {
	if g.Kind() == reflect.Map {
		n := 0
		for _, k := range g.MapKeys() {
			ks, ok := k.Interface().(string)
			if !ok {
				return fmt.Sprintf("%s: non-string key %v in result", path, k)
			}
			if ks == ignoreKey {
				continue
			}
			n++
			want, has := m[ks]
			if !has {
				return fmt.Sprintf("%s: unexpected property %q in result (value %v)", path, ks, g.MapIndex(k))
			}
			p := o.PropByName(ks)
			if p == nil {
				return fmt.Sprintf("%s: undeclared property %q in result", path, ks)
			}
			if msg := match(p.Type, env, want, g.MapIndex(k), path+"."+ks); msg != "" {
				return msg
			}
		}
		if n != len(m) {
			return fmt.Sprintf("%s: result has %d properties, want %d (%v)", path, n, len(m), m)
		}
		return ""
	}
	if g.Kind() != reflect.Struct {
		return fmt.Sprintf("%s: got %s, want an object", path, g.Type())
	}
	name := spec.CatalogueNameOf(g.Type())
	if name == "" || name != strings.TrimPrefix(o.Struct, "*") {
		return fmt.Sprintf("%s: got struct %s, want %s", path, g.Type(), o.Struct)
	}
	t := g.Type()
	for i := 0; i < t.NumField(); i++ {
		f := t.Field(i)
		pn := f.Tag.Get("json")
		if pn == "" {
			pn = f.Name
		}
		fv := g.Field(i)
		want, has := m[pn]
		p := o.PropByName(pn)
		if !has || p == nil {
			if !isZeroish(fv) {
				return fmt.Sprintf("%s.%s: got %v, want absent/zero", path, pn, fv)
			}
			continue
		}
		if msg := match(p.Type, env, want, fv, path+"."+pn); msg != "" {
			return msg
		}
	}
	return ""
}

func isZeroish(v reflect.Value) bool {
	switch v.Kind() {
	case reflect.Pointer, reflect.Interface:
		return v.IsNil() || isZeroish(v.Elem())
	case reflect.Slice, reflect.Map:
		return v.Len() == 0
	case reflect.Struct:
		for i := 0; i < v.NumField(); i++ {
			if !isZeroish(v.Field(i)) {
				return false
			}
		}
		return true
	}
	return v.IsZero()
}

// ---------------------------------------------------------------------------------------------------------------
// Native values

var anyType = reflect.TypeOf((*any)(nil)).Elem()

// GoType is the native Go type of values of the schema.
func GoType(s *spec.Spec, env *Env) reflect.Type {
	switch s.Kind {
	case spec.KInt, spec.KEnumI:
		return reflect.TypeOf(int64(0))
	case spec.KFloat:
		return reflect.TypeOf(float64(0))
	case spec.KString, spec.KEnumS:
		return reflect.TypeOf("")
	case spec.KTypedEnumS:
		return reflect.TypeOf(val.MyStr(""))
	case spec.KBool:
		return reflect.TypeOf(false)
	case spec.KPattern:
		return reflect.TypeOf(&regexp.Regexp{})
	case spec.KList:
		return reflect.SliceOf(GoType(s.Items, env))
	case spec.KMap:
		return reflect.MapOf(GoType(s.Keys, env), GoType(s.Values, env))
	case spec.KAny, spec.KOneOfI, spec.KOneOfS:
		return anyType
	case spec.KObject, spec.KRef, spec.KScope:
		o, _ := Resolve(s, env)
		if o == nil || o.Struct == "" {
			return reflect.TypeOf(map[string]any{})
		}
		return spec.StructType(o.Struct)
	}
	return anyType
}

// ToNative builds the native Go value for a model value (type-correct by construction; constraints are not checked).
func ToNative(s *spec.Spec, env *Env, mv any) any {
	v := toNative(s, env, mv)
	if !v.IsValid() {
		return nil
	}
	return v.Interface()
}

// nilEmpties makes toNative render empty lists and maps as nil slices / nil maps of their Go type - the other
// native form of "no elements" (and the usual one for an unset struct field). Only set through ToNativeNil.
var nilEmpties bool

// ToNativeNil is ToNative with every empty list and map rendered as a nil slice / nil map.
func ToNativeNil(s *spec.Spec, env *Env, mv any) any {
	nilEmpties = true
	defer func() { nilEmpties = false }()
	return ToNative(s, env, mv)
}

func toNative(s *spec.Spec, env *Env, mv any) reflect.Value {
	switch s.Kind {
	case spec.KInt, spec.KEnumI, spec.KFloat, spec.KString, spec.KEnumS, spec.KBool:
		return reflect.ValueOf(mv)
	case spec.KTypedEnumS:
		return reflect.ValueOf(val.MyStr(mv.(string)))
	case spec.KPattern:
		return reflect.ValueOf(regexp.MustCompile(mv.(Pat).Src))
	case spec.KList:
		l := mv.([]any)
		if nilEmpties && len(l) == 0 {
			return reflect.Zero(GoType(s, env))
		}
		out := reflect.MakeSlice(GoType(s, env), len(l), len(l))
		for i, e := range l {
			setInto(out.Index(i), toNative(s.Items, env, e))
		}
		return out
	case spec.KMap:
		m := mv.(map[any]any)
		if nilEmpties && len(m) == 0 {
			return reflect.Zero(GoType(s, env))
		}
		out := reflect.MakeMapWithSize(GoType(s, env), len(m))
		for k, e := range m {
			kv := toNative(s.Keys, env, k)
			ev := reflect.New(out.Type().Elem()).Elem()
			setInto(ev, toNative(s.Values, env, e))
			out.SetMapIndex(kv, ev)
		}
		return out
	case spec.KAny:
		return reflect.ValueOf(mv)
	case spec.KObject, spec.KRef, spec.KScope:
		o, oenv := Resolve(s, env)
		return objectNative(o, oenv, mv.(map[string]any))
	case spec.KOneOfS, spec.KOneOfI:
		m := mv.(map[string]any)
		d := m[s.Discriminator]
		for j := range s.Members {
			if (s.Kind == spec.KOneOfI && d == any(s.Members[j].KeyI)) || (s.Kind == spec.KOneOfS && d == any(s.Members[j].KeyS)) {
				o, oenv := Resolve(s.Members[j].Type, env)
				if o.Struct == "" {
					out := objectNative(o, oenv, m) // keeps the discriminator entry
					if out.Kind() == reflect.Map && d != nil {
						// the discriminator entry holds the one-of's key type even when the member declares a
						// property of a named type for it
						out.SetMapIndex(reflect.ValueOf(s.Discriminator), reflect.ValueOf(d))
					}
					return out
				}
				rest := map[string]any{}
				for k, v := range m {
					if k != s.Discriminator || s.Inlined {
						rest[k] = v
					}
				}
				return objectNative(o, oenv, rest)
			}
		}
		return reflect.ValueOf(m)
	}
	return reflect.ValueOf(mv)
}

func setInto(dst, src reflect.Value) {
	if !src.IsValid() {
		return
	}
	if dst.Kind() == reflect.Pointer && src.Kind() != reflect.Pointer {
		p := reflect.New(dst.Type().Elem())
		p.Elem().Set(src.Convert(dst.Type().Elem()))
		dst.Set(p)
		return
	}
	if src.Type().AssignableTo(dst.Type()) {
		dst.Set(src)
		return
	}
	dst.Set(src.Convert(dst.Type()))
}

func objectNative(o *spec.Spec, env *Env, m map[string]any) reflect.Value {
	if o.Struct == "" {
		out := map[string]any{}
		for k, v := range m {
			p := o.PropByName(k)
			if p == nil {
				out[k] = v // undeclared key kept as is (used for negative native cases)
				continue
			}
			nv := toNative(p.Type, env, v)
			if nv.IsValid() {
				out[k] = nv.Interface()
			}
		}
		return reflect.ValueOf(out)
	}
	ptr := strings.HasPrefix(o.Struct, "*")
	t := spec.StructType(strings.TrimPrefix(o.Struct, "*"))
	sv := reflect.New(t)
	for i := 0; i < t.NumField(); i++ {
		f := t.Field(i)
		pn := f.Tag.Get("json")
		if pn == "" {
			pn = f.Name
		}
		v, has := m[pn]
		p := o.PropByName(pn)
		if !has || p == nil {
			continue
		}
		setInto(sv.Elem().Field(i), toNative(p.Type, env, v))
	}
	if ptr {
		return sv
	}
	return sv.Elem()
}

// Convert applies only the lenient conversions (and object defaulting / dispatch), without checking any declared
// constraint. Used to obtain type-correct but possibly invalid model values.
func Convert(s *spec.Spec, env *Env, raw any) (any, Verdict) {
	return convert(s, env, raw, 0)
}

// ViolatedRules lists the properties whose own presence rule fails for the given presence set.
func ViolatedRules(o *spec.Spec, present func(string) bool) []string {
	var out []string
	for i := range o.Props {
		p := &o.Props[i]
		single := &spec.Spec{Kind: spec.KObject, Props: []spec.Prop{*p}}
		if !PresenceOK(single, present) {
			out = append(out, p.Name)
		}
	}
	return out
}
