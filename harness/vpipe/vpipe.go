// Package vpipe is a harness-owned byte pipe: unbuffered (io.Pipe semantics) or buffered with a generated
// fragmentation plan, a settle pause that lets writes coalesce, an optional hold-back that makes reads end inside a
// message, split writes, a tap of everything written and detection of overlapping Write calls.
package vpipe

import (
	"io"
	"sync"
	"time"
)

// Plan describes how one direction of the transport behaves.
type Plan struct {
	Buffered   bool  `json:"buffered"`
	Frags      []int `json:"frags,omitempty"`       // max bytes per Read, cycled; 0 = everything available
	SettleMs   int   `json:"settle_ms,omitempty"`   // pause before serving a Read, so that nearby writes coalesce
	HoldBack   int   `json:"hold_back,omitempty"`   // keep the last n buffered bytes back once (a read ends mid-message)
	SplitWrite bool  `json:"split_write,omitempty"` // deliver each Write in two halves with a scheduling point between
}

// Pipe is one direction.
type Pipe struct {
	mu        sync.Mutex
	cond      *sync.Cond
	plan      Plan
	buf       []byte
	closed    bool
	fi        int
	tap       []byte
	bounds    []int // cumulative offsets at the end of every Write call
	readPos   int
	inFlight  int
	Overlaps  int
	MidMsg    int // reads that ended strictly inside a written message
	Coalesced int // reads that delivered bytes of >= 2 written messages
}

// New creates a pipe.
func New(p Plan) *Pipe {
	pp := &Pipe{plan: p}
	pp.cond = sync.NewCond(&pp.mu)
	return pp
}

func (p *Pipe) Write(b []byte) (int, error) {
	p.mu.Lock()
	p.inFlight++
	if p.inFlight > 1 {
		p.Overlaps++
	}
	if p.closed {
		p.inFlight--
		p.mu.Unlock()
		return 0, io.ErrClosedPipe
	}
	half := len(b)
	if p.plan.SplitWrite && len(b) > 1 {
		half = len(b) / 2
	}
	p.buf = append(p.buf, b[:half]...)
	p.tap = append(p.tap, b[:half]...)
	p.cond.Broadcast()
	if half < len(b) {
		p.mu.Unlock()
		time.Sleep(200 * time.Microsecond) // another writer would interleave here if writes were not serialised
		p.mu.Lock()
		p.buf = append(p.buf, b[half:]...)
		p.tap = append(p.tap, b[half:]...)
		p.cond.Broadcast()
	}
	p.bounds = append(p.bounds, len(p.tap))
	if !p.plan.Buffered {
		// unbuffered: return only when everything has been read
		for len(p.buf) > 0 && !p.closed {
			p.cond.Wait()
		}
	}
	p.inFlight--
	closed := p.closed && len(p.buf) > 0
	p.mu.Unlock()
	if closed {
		return len(b), io.ErrClosedPipe
	}
	return len(b), nil
}

func (p *Pipe) Read(b []byte) (int, error) {
	p.mu.Lock()
	defer p.mu.Unlock()
	waited := false
	for len(p.buf) == 0 && !p.closed {
		waited = true
		p.cond.Wait()
	}
	if len(p.buf) == 0 {
		return 0, io.EOF
	}
	// settle only when the reader had to wait for data: that is when writes that follow closely should get the
	// chance to land in the same read (pausing on every fragment of a large message would only slow the run down)
	if p.plan.Buffered && p.plan.SettleMs > 0 && waited {
		p.mu.Unlock()
		time.Sleep(time.Duration(p.plan.SettleMs) * time.Millisecond)
		p.mu.Lock()
	}
	n := len(p.buf)
	if p.plan.Buffered {
		if p.plan.HoldBack > 0 && n > p.plan.HoldBack {
			n -= p.plan.HoldBack
		}
		if len(p.plan.Frags) > 0 {
			f := p.plan.Frags[p.fi%len(p.plan.Frags)]
			p.fi++
			if f > 0 && f < n {
				n = f
			}
		}
	}
	if n > len(b) {
		n = len(b)
	}
	copy(b, p.buf[:n])
	p.buf = p.buf[n:]
	start, end := p.readPos, p.readPos+n
	p.readPos = end
	// classify against the write boundaries
	crossed, endsOnBoundary := 0, false
	for _, bd := range p.bounds {
		if bd > start && bd < end {
			crossed++
		}
		if bd == end {
			endsOnBoundary = true
		}
	}
	if crossed >= 1 {
		p.Coalesced++
	}
	if !endsOnBoundary {
		p.MidMsg++
	}
	p.cond.Broadcast()
	return n, nil
}

// Close ends the pipe: pending data can still be read, then EOF.
func (p *Pipe) Close() error {
	p.mu.Lock()
	p.closed = true
	p.cond.Broadcast()
	p.mu.Unlock()
	return nil
}

// Tap returns everything written so far.
func (p *Pipe) Tap() []byte {
	p.mu.Lock()
	defer p.mu.Unlock()
	return append([]byte(nil), p.tap...)
}

// Stats returns (overlapping writes, reads ending mid-message, coalescing reads).
func (p *Pipe) Stats() (int, int, int) {
	p.mu.Lock()
	defer p.mu.Unlock()
	return p.Overlaps, p.MidMsg, p.Coalesced
}
