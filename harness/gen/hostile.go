package gen

import (
	"math"

	"pgregory.net/rapid"
	"verif/harness/val"
)

var extremeInts = []int64{0, 1, -1, 2, 127, 128, 255, 256, 65535, 1 << 31, 1<<31 - 1, -(1 << 31), 1 << 53, 1<<53 + 1, math.MaxInt64, math.MinInt64, math.MaxInt64 - 1, 42}
var extremeFloats = []float64{0, math.Copysign(0, -1), 0.5, 1, -1, 1.5, 3.4028234663852886e38, 9.223372036854775807e18, -9.223372036854775808e18, 9.223372036854777e18, 1.8446744073709552e19, math.MaxFloat64, math.SmallestNonzeroFloat64, math.Inf(1), math.Inf(-1), math.NaN(), 16777216, 16777217}
var hostileStrings = []string{"", "0", "1", "-1", "+1", " 1", "1 ", "1.0", "1e3", "0x10", "1_000", "9223372036854775807", "9223372036854775808", "-9223372036854775808", "-9223372036854775809", "NaN", "nan", "Inf", "-Inf", "+Inf", "infinity", "1e400", "true", "TRUE", "yes", "Yes", "on", "off", "enable", "disabled", "y", "n", "abc", "5m30s", "1kB", "5 minutes", "1.5s", "100%", "3chars", "(", "[a", "a{2,1}", "\xff\xfe", "é", "日本語", "null", "{}", "[]", "-", "+", ".", "e", " ", " - ", "\t", "-.", "s", "kB", "1e", "--1", "1m-1s"}

// Scalar draws a scalar of the decoder domain (what cbor/json/yaml decoding into `any` can produce) plus every Go
// integer and float width.
func Scalar() *rapid.Generator[val.V] {
	return rapid.Custom(func(t *rapid.T) val.V {
		switch rapid.IntRange(0, 13).Draw(t, "scalarKind") {
		case 0:
			return val.Nil()
		case 1:
			return val.Bool(rapid.Bool().Draw(t, "b"))
		case 2:
			x := rapid.SampledFrom(extremeInts).Draw(t, "i64")
			return val.Int("int64", x)
		case 3:
			x := rapid.SampledFrom(extremeInts).Draw(t, "u64")
			if x < 0 {
				return val.Uint("uint64", uint64(x)) // wraps to a huge value on purpose
			}
			return val.Uint("uint64", uint64(x))
		case 4:
			return val.Float("float64", rapid.SampledFrom(extremeFloats).Draw(t, "f64"))
		case 5:
			return val.Str(rapid.SampledFrom(hostileStrings).Draw(t, "s"))
		case 6:
			tt := rapid.SampledFrom([]string{"int", "int8", "int16", "int32"}).Draw(t, "iw")
			x := rapid.SampledFrom([]int64{0, 1, -1, 100, 127, -128}).Draw(t, "iv")
			return val.Int(tt, x)
		case 7:
			tt := rapid.SampledFrom([]string{"uint", "uint8", "uint16", "uint32"}).Draw(t, "uw")
			x := rapid.SampledFrom([]uint64{0, 1, 2, 100, 255}).Draw(t, "uv")
			return val.Uint(tt, x)
		case 8:
			f := rapid.SampledFrom([]float64{0, 1, -1, 0.5, 16777216, 3.4028234663852886e38, math.Inf(1), math.NaN(), 9.223372036854775807e18}).Draw(t, "f32")
			return val.Float("float32", f)
		case 9:
			return val.V{T: "bytes", S: rapid.SampledFrom([]string{"", "abc", "\x00\x01", "123"}).Draw(t, "bytes")}
		case 10:
			return val.V{T: "time", S: "1700000000"}
		case 11:
			return val.V{T: "bigint", S: rapid.SampledFrom([]string{"18446744073709551616", "-18446744073709551617", "0"}).Draw(t, "big")}
		case 12:
			return val.V{T: "tag", S: "42", L: []val.V{val.Str("tagged")}}
		default:
			return val.V{T: "simple", S: rapid.SampledFrom([]string{"0", "1", "19", "255"}).Draw(t, "simple")}
		}
	})
}

// Hostile draws a decoder-domain tree: scalars, []any, map[any]any with mixed key types, map[string]any, typed
// slices and maps.
func Hostile(depth int) *rapid.Generator[val.V] {
	return rapid.Custom(func(t *rapid.T) val.V {
		return hostile(t, depth)
	})
}

func hostile(t *rapid.T, depth int) val.V {
	k := rapid.IntRange(0, 11).Draw(t, "hostileKind")
	if depth <= 0 && k >= 6 {
		k = k % 6
	}
	switch k {
	case 6:
		n := rapid.IntRange(0, 3).Draw(t, "len")
		l := make([]val.V, n)
		for i := range l {
			l[i] = hostile(t, depth-1)
		}
		return val.V{T: "[]any", L: l}
	case 7:
		n := rapid.IntRange(0, 3).Draw(t, "len")
		var m []val.KV
		for i := 0; i < n; i++ {
			var key val.V
			switch rapid.IntRange(0, 8).Draw(t, "keyKind") {
			case 6:
				// keys a decoder hands over besides the usual ones: null (CBOR f6 / YAML ~), plain int (YAML),
				// timestamps (YAML), tags, simple values and arrays (CBOR)
				key = rapid.SampledFrom([]val.V{val.Nil(), val.Int("int", 1), {T: "time", S: "86400"}, {T: "tag", S: "42", L: []val.V{val.Int("int64", 1)}}, {T: "simple", S: "200"},
					{T: "array", L: []val.V{val.Int("int64", 1), val.Str("a")}}, {T: "mystr", S: "a"}}).Draw(t, "oddKey")
			case 0:
				key = val.Int("int64", int64(rapid.IntRange(-2, 2).Draw(t, "ik")))
			case 1:
				key = val.Uint("uint64", uint64(rapid.IntRange(0, 3).Draw(t, "uk")))
			case 2:
				key = val.Bool(rapid.Bool().Draw(t, "bk"))
			case 3:
				key = val.Float("float64", rapid.SampledFrom([]float64{0.5, 1, math.Inf(1)}).Draw(t, "fk"))
			default:
				key = val.Str(rapid.SampledFrom([]string{"a", "b", "1", "", "p0", "p1", "_type", "k", "ki"}).Draw(t, "sk"))
			}
			m = append(m, val.KV{K: key, V: hostile(t, depth-1)})
		}
		return val.V{T: "map[any]any", M: m}
	case 8:
		n := rapid.IntRange(0, 3).Draw(t, "len")
		var m []val.KV
		for i := 0; i < n; i++ {
			m = append(m, val.KV{K: val.Str(rapid.SampledFrom([]string{"a", "b", "1", "", "p0", "p1", "_type", "k", "ki", "i", "s"}).Draw(t, "sk")), V: hostile(t, depth-1)})
		}
		return val.V{T: "map[string]any", M: m}
	case 9:
		tt := rapid.SampledFrom([]string{"[]int64", "[]string", "[]uint8", "[]float64", "[]bool", "[]int"}).Draw(t, "sliceT")
		n := rapid.IntRange(0, 3).Draw(t, "len")
		l := make([]val.V, n)
		for i := range l {
			switch tt {
			case "[]string":
				l[i] = val.Str(rapid.SampledFrom(hostileStrings).Draw(t, "e"))
			case "[]float64":
				l[i] = val.Float("float64", rapid.SampledFrom(extremeFloats).Draw(t, "e"))
			case "[]bool":
				l[i] = val.Bool(rapid.Bool().Draw(t, "e"))
			case "[]uint8":
				l[i] = val.Uint("uint8", uint64(rapid.IntRange(0, 255).Draw(t, "e")))
			default:
				l[i] = val.Int("int64", int64(rapid.IntRange(-3, 300).Draw(t, "e")))
			}
		}
		return val.V{T: tt, L: l}
	case 10:
		tt := rapid.SampledFrom([]string{"map[int64]any", "map[string]string", "map[string]int64", "map[int64]string", "map[mystr]any", "map[int]any"}).Draw(t, "mapT")
		n := rapid.IntRange(0, 2).Draw(t, "len")
		var m []val.KV
		for i := 0; i < n; i++ {
			var key, v val.V
			switch tt {
			case "map[int64]any", "map[int64]string", "map[int]any":
				key = val.Int("int64", int64(i))
			default:
				key = val.Str(rapid.SampledFrom([]string{"a", "b", "p0", "_type"}).Draw(t, "sk"))
			}
			switch tt {
			case "map[string]string", "map[int64]string":
				v = val.Str(rapid.SampledFrom(hostileStrings).Draw(t, "sv"))
			case "map[string]int64":
				v = val.Int("int64", int64(rapid.IntRange(-3, 300).Draw(t, "iv")))
			default:
				v = hostile(t, depth-1)
			}
			m = append(m, val.KV{K: key, V: v})
		}
		return val.V{T: tt, M: m}
	case 11:
		return rapid.SampledFrom([]val.V{{T: "nil[]any"}, {T: "nilmap[string]any"}, {T: "[]any"}, {T: "map[any]any"}, {T: "map[string]any"}}).Draw(t, "empties")
	}
	return Scalar().Draw(t, "scalar")
}

// Native draws values outside the decoder domain too: named scalar types, pointers, nil *regexp.Regexp, arrays,
// structs, complex numbers, channels, functions (low weight).
func Native(depth int) *rapid.Generator[val.V] {
	return rapid.Custom(func(t *rapid.T) val.V {
		switch rapid.IntRange(0, 14).Draw(t, "nativeKind") {
		case 0:
			return val.V{T: "mystr", S: rapid.SampledFrom([]string{"", "a", "x"}).Draw(t, "ms")}
		case 1:
			return val.V{T: "myint", S: rapid.SampledFrom([]string{"0", "1", "42"}).Draw(t, "mi")}
		case 2:
			return val.V{T: "myfloat", S: "1.5"}
		case 3:
			return val.V{T: "mybool", S: "true"}
		case 4:
			return val.V{T: "nilregexp"}
		case 5:
			return val.V{T: "regexp", S: "^a$"}
		case 6:
			return val.V{T: "ptr"} // typed nil *int64
		case 7:
			return val.V{T: "ptr", L: []val.V{Scalar().Draw(t, "pointee")}}
		case 8:
			return val.V{T: "array", L: []val.V{val.Int("int64", 1), val.Str("x")}}
		case 9:
			return val.V{T: "struct"}
		case 10:
			return rapid.SampledFrom([]val.V{{T: "complex", S: "1"}, {T: "chan"}, {T: "func"}}).Draw(t, "exotic")
		}
		return hostile(t, depth)
	})
}
