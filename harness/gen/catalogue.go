package gen

import (
	"math"

	"verif/harness/spec"
	"verif/harness/units"
	"verif/harness/val"
)

// Catalogue is a fixed, deterministic list of values for grid enumeration (every value x every schema kind x every
// placement x every operation), complementing the random trees of Hostile/Native: it guarantees that each odd
// scalar, each container type with each kind of odd element and each kind of odd map key meets each schema kind.
// decoder-domain values come first; with native=true the values only Go code can construct are appended.
func Catalogue(native bool) []val.V {
	var out []val.V
	add := func(v ...val.V) { out = append(out, v...) }
	// scalars
	add(val.Nil(), val.Bool(true), val.Bool(false))
	for _, x := range []int64{0, 1, -1, 255, 256, 1 << 53, math.MaxInt64, math.MinInt64} {
		add(val.Int("int64", x))
	}
	for _, x := range []uint64{0, 1, 1 << 63, math.MaxUint64} {
		add(val.Uint("uint64", x))
	}
	for _, x := range []float64{0, math.Copysign(0, -1), 0.5, 1, -1, 9.223372036854775807e18, 1.8446744073709552e19, math.MaxFloat64, math.Inf(1), math.Inf(-1), math.NaN()} {
		add(val.Float("float64", x))
	}
	for _, s := range []string{"", "0", "1", "-1", "1.0", "1e3", "9223372036854775808", "NaN", "Inf", "true", "yes", "abc", "5m30s", "1kB", "(", "\xff\xfe", "日本語", "null", "{}",
		// fragments of a number or of a unit sentence: a sign, a point, an exponent marker, blanks, a unit name without a count
		"-", "+", ".", "e", " ", " - ", "\t", "\x00", "-.", "+e", "s", "kB", "1e", "0x", "1_0", "--1", "1m-1s", "5 m", string(make([]byte, 3))} {
		add(val.Str(s))
	}
	add(val.Int("int", 1), val.Int("int8", -128), val.Int("int16", 1), val.Int("int32", 1), val.Uint("uint", 1), val.Uint("uint8", 255), val.Uint("uint16", 1), val.Uint("uint32", 1))
	add(val.Float("float32", 0.5), val.Float("float32", math.Inf(1)), val.Float("float32", math.NaN()))
	add(val.V{T: "bytes", S: ""}, val.V{T: "bytes", S: "abc"}, val.V{T: "time", S: "1700000000"}, val.V{T: "bigint", S: "18446744073709551616"}, val.V{T: "bigint", S: "0"},
		val.V{T: "tag", S: "42", L: []val.V{val.Str("tagged")}}, val.V{T: "tag", S: "1", L: []val.V{val.Nil()}}, val.V{T: "simple", S: "19"}, val.V{T: "simple", S: "255"})
	// atoms that go into containers
	atoms := []val.V{val.Nil(), val.Bool(true), val.Int("int64", 1), val.Uint("uint64", 1), val.Int("int", 1), val.Float("float64", 0.5), val.Float("float64", math.NaN()),
		val.Str("a"), val.Str("1"), val.Str(""), val.Str("_type"), {T: "bytes", S: "ab"}, {T: "time", S: "86400"}, {T: "tag", S: "42", L: []val.V{val.Int("int64", 1)}}, {T: "simple", S: "200"},
		{T: "bigint", S: "1"}, {T: "[]any"}, {T: "map[any]any"}, {T: "map[string]any"}, {T: "nil[]any"}, {T: "nilmap[string]any"},
		{T: "array", L: []val.V{val.Int("int64", 1), val.Str("a")}}}
	hashable := func(v val.V) bool {
		switch v.T {
		case "nil", "bool", "int64", "uint64", "int", "float64", "string", "time", "simple", "array":
			return true
		case "tag":
			return true
		}
		return false
	}
	add(val.V{T: "[]any"}, val.V{T: "map[any]any"}, val.V{T: "map[string]any"}, val.V{T: "nil[]any"}, val.V{T: "nilmap[string]any"})
	for _, a := range atoms {
		if a.T == "array" {
			continue // arrays only as keys (CBOR array keys), not as elements
		}
		add(val.V{T: "[]any", L: []val.V{a}})
		add(val.V{T: "[]any", L: []val.V{val.Int("int64", 1), a}})
		for _, k := range []string{"a", "p0", "_type", "k"} {
			add(val.V{T: "map[string]any", M: []val.KV{{K: val.Str(k), V: a}}})
		}
		add(val.V{T: "map[any]any", M: []val.KV{{K: val.Str("a"), V: a}}})
		add(val.V{T: "map[any]any", M: []val.KV{{K: val.Str("p0"), V: a}, {K: val.Str("p1"), V: val.Int("int64", 1)}}})
	}
	for _, a := range atoms {
		if hashable(a) {
			add(val.V{T: "map[any]any", M: []val.KV{{K: a, V: val.Str("v")}}})
			add(val.V{T: "map[any]any", M: []val.KV{{K: val.Str("a"), V: val.Int("int64", 1)}, {K: a, V: val.Int("int64", 1)}}})
		}
	}
	// two levels
	add(val.V{T: "[]any", L: []val.V{{T: "[]any", L: []val.V{val.Nil()}}}},
		val.V{T: "map[any]any", M: []val.KV{{K: val.Str("a"), V: val.V{T: "map[any]any", M: []val.KV{{K: val.Nil(), V: val.Nil()}}}}}},
		val.V{T: "map[string]any", M: []val.KV{{K: val.Str("a"), V: val.V{T: "map[any]any", M: []val.KV{{K: val.Int("int64", 1), V: val.Str("v")}}}}}})
	// typed containers
	add(val.V{T: "[]int64", L: []val.V{val.Int("int64", 1)}}, val.V{T: "[]string", L: []val.V{val.Str("a")}}, val.V{T: "[]uint8", L: []val.V{val.Uint("uint8", 1)}},
		val.V{T: "[]float64", L: []val.V{val.Float("float64", math.NaN())}}, val.V{T: "[]bool", L: []val.V{val.Bool(true)}}, val.V{T: "[]int", L: []val.V{val.Int("int64", 1)}},
		val.V{T: "[]map[string]any", L: []val.V{{T: "map[string]any", M: []val.KV{{K: val.Str("a"), V: val.Int("int64", 1)}}}}},
		val.V{T: "map[int64]any", M: []val.KV{{K: val.Int("int64", 1), V: val.Str("v")}}}, val.V{T: "map[int]any", M: []val.KV{{K: val.Int("int64", 1), V: val.Str("v")}}},
		val.V{T: "map[string]string", M: []val.KV{{K: val.Str("a"), V: val.Str("v")}}}, val.V{T: "map[string]int64", M: []val.KV{{K: val.Str("a"), V: val.Int("int64", 1)}}},
		val.V{T: "map[int64]string", M: []val.KV{{K: val.Int("int64", 1), V: val.Str("v")}}}, val.V{T: "map[mystr]any", M: []val.KV{{K: val.Str("a"), V: val.Int("int64", 1)}}})
	if !native {
		return out
	}
	nat := []val.V{{T: "mystr", S: "a"}, {T: "mystr", S: ""}, {T: "myint", S: "1"}, {T: "myfloat", S: "1.5"}, {T: "mybool", S: "true"}, {T: "nilregexp"}, {T: "regexp", S: "^a$"},
		{T: "ptr"}, {T: "ptr", L: []val.V{val.Int("int64", 1)}}, {T: "ptr", L: []val.V{val.Str("a")}}, {T: "ptr", L: []val.V{val.Nil()}}, {T: "ptr", L: []val.V{{T: "[]any", L: []val.V{val.Int("int64", 1)}}}},
		{T: "ptr", L: []val.V{{T: "map[string]any", M: []val.KV{{K: val.Str("a"), V: val.Int("int64", 1)}}}}},
		{T: "array", L: []val.V{val.Int("int64", 1), val.Str("x")}}, {T: "struct"}, {T: "complex", S: "1"}, {T: "chan"}, {T: "func"}}
	for _, a := range nat {
		add(a)
		add(val.V{T: "[]any", L: []val.V{a}})
		add(val.V{T: "map[string]any", M: []val.KV{{K: val.Str("a"), V: a}}}, val.V{T: "map[string]any", M: []val.KV{{K: val.Str("p0"), V: a}}})
		add(val.V{T: "map[any]any", M: []val.KV{{K: val.Str("a"), V: a}}})
		switch a.T {
		case "mystr", "myint", "myfloat", "mybool", "struct", "complex", "chan", "nilregexp", "regexp", "ptr", "array":
			add(val.V{T: "map[any]any", M: []val.KV{{K: a, V: val.Str("v")}}})
		}
	}
	return out
}

// GridSpecs is a fixed set of small schemas covering every type kind (and the main variants of each).
func GridSpecs() []*spec.Spec {
	p := func(x int64) *int64 { return &x }
	secs := units.BuiltinDef("seconds")
	bytes := units.BuiltinDef("bytes")
	str := &spec.Spec{Kind: spec.KString}
	integer := &spec.Spec{Kind: spec.KInt}
	anyT := &spec.Spec{Kind: spec.KAny}
	objMap := &spec.Spec{Kind: spec.KObject, ID: "O", Props: []spec.Prop{
		{Name: "a", Type: anyT}, {Name: "p0", Type: integer, Required: true}, {Name: "p1", Type: str, Default: spec.P(`"d"`)}, {Name: "k", Type: &spec.Spec{Kind: spec.KList, Items: anyT}}}}
	leafProps := []spec.Prop{{Name: "a", Type: anyT}, {Name: "i", Type: integer}, {Name: "s", Type: str}, {Name: "pi", Type: integer}, {Name: "li", Type: &spec.Spec{Kind: spec.KList, Items: integer}},
		{Name: "mo", Type: &spec.Spec{Kind: spec.KMap, Keys: str, Values: anyT}}}
	memA := &spec.Spec{Kind: spec.KObject, ID: "A", Props: []spec.Prop{{Name: "a", Type: anyT}, {Name: "p0", Type: integer}}}
	memB := &spec.Spec{Kind: spec.KObject, ID: "B", Props: []spec.Prop{{Name: "a", Type: str}}}
	altA := &spec.Spec{Kind: spec.KObject, ID: "AltA", Struct: "AltA", Props: []spec.Prop{{Name: "a", Type: integer}, {Name: "k", Type: str}}}
	altB := &spec.Spec{Kind: spec.KObject, ID: "AltB", Struct: "*AltB", Props: []spec.Prop{{Name: "b", Type: str}, {Name: "k", Type: str}}}
	node := &spec.Spec{Kind: spec.KObject, ID: "Node", Props: []spec.Prop{{Name: "v", Type: integer}, {Name: "next", Type: &spec.Spec{Kind: spec.KRef, RefID: "Node"}},
		{Name: "kids", Type: &spec.Spec{Kind: spec.KList, Items: &spec.Spec{Kind: spec.KRef, RefID: "Node"}}}, {Name: "a", Type: anyT}}}
	return []*spec.Spec{
		integer,
		{Kind: spec.KInt, Min: p(0), Max: p(100), Units: &secs},
		{Kind: spec.KFloat},
		{Kind: spec.KFloat, FMin: spec.P(0.0), Units: &bytes},
		str,
		{Kind: spec.KString, Min: p(1), Max: p(3), Pattern: spec.P("^[a-z0-9]+$")},
		{Kind: spec.KBool},
		{Kind: spec.KPattern},
		{Kind: spec.KEnumS, Enum: []spec.EnumVal{{S: "a"}, {S: "1"}, {S: ""}}},
		{Kind: spec.KEnumI, Enum: []spec.EnumVal{{I: 0}, {I: 1}, {I: 60}}, Units: &secs},
		{Kind: spec.KTypedEnumS, Enum: []spec.EnumVal{{S: "a"}, {S: "b"}}},
		{Kind: spec.KList, Items: anyT},
		{Kind: spec.KList, Items: integer, Min: p(1), Max: p(2)},
		{Kind: spec.KMap, Keys: str, Values: anyT},
		{Kind: spec.KMap, Keys: integer, Values: str, Min: p(1)},
		{Kind: spec.KMap, Keys: &spec.Spec{Kind: spec.KEnumS, Enum: []spec.EnumVal{{S: "a"}, {S: "p0"}}}, Values: &spec.Spec{Kind: spec.KList, Items: anyT}},
		anyT,
		objMap,
		{Kind: spec.KObject, ID: "L", Struct: "*Leaf", Props: leafProps},
		{Kind: spec.KObject, ID: "L", Struct: "Leaf", Props: leafProps},
		{Kind: spec.KOneOfS, Discriminator: "_type", Members: []spec.Member{{KeyS: "a", Type: memA}, {KeyS: "1", Type: memB}}},
		{Kind: spec.KOneOfS, Discriminator: "k", Inlined: true, Members: []spec.Member{{KeyS: "a", Type: altA}, {KeyS: "b", Type: altB}}},
		{Kind: spec.KOneOfI, Discriminator: "_type", Members: []spec.Member{{KeyI: 1, Type: memA}, {KeyI: 2, Type: memB}}},
		{Kind: spec.KScope, Root: "Node", Objects: []*spec.Spec{node}},
	}
}

