package gen

import (
	"math"
	"strings"

	"pgregory.net/rapid"
	"verif/harness/model"
	"verif/harness/spec"
)

// Perturb changes one place of a (valid) model value so that a declared constraint is likely violated: a number
// one step outside a bound, a string one byte too short/long or missing its pattern, a non-member enum value, a
// container one element too small/large. The result stays type-correct. The model decides what the change means.
func Perturb(t *rapid.T, s *spec.Spec, env *model.Env, mv any) (any, string) {
	switch s.Kind {
	case spec.KInt:
		x := mv.(int64)
		var c []int64
		if s.Min != nil && *s.Min > math.MinInt64 {
			c = append(c, *s.Min-1)
		}
		if s.Max != nil && *s.Max < math.MaxInt64 {
			c = append(c, *s.Max+1)
		}
		if len(c) == 0 {
			return x, ""
		}
		return rapid.SampledFrom(c).Draw(t, "intOut"), "int_out_of_bounds"
	case spec.KFloat:
		var c []float64
		if s.FMin != nil {
			c = append(c, math.Nextafter(*s.FMin, math.Inf(-1)), math.NaN())
		}
		if s.FMax != nil {
			c = append(c, math.Nextafter(*s.FMax, math.Inf(1)), math.NaN())
		}
		if len(c) == 0 {
			return mv, ""
		}
		return rapid.SampledFrom(c).Draw(t, "floatOut"), "float_out_of_bounds"
	case spec.KString:
		str := mv.(string)
		var c []string
		if s.Min != nil && *s.Min > 0 && int64(len(str)) >= *s.Min {
			c = append(c, str[:*s.Min-1])
		}
		if s.Max != nil && *s.Max < 64 {
			p := str
			for int64(len(p)) <= *s.Max {
				p += "a"
			}
			c = append(c, p)
		}
		if s.Pattern != nil {
			c = append(c, str+"\n#", "")
		} else {
			// lengths are counted in bytes: strings of multi-byte runes whose rune count is within the maximum while
			// their byte count is beyond it
			if s.Max != nil && *s.Max >= 1 && *s.Max < 64 {
				c = append(c, strings.Repeat("é", int(*s.Max)), strings.Repeat("日", int(*s.Max)/3+1))
			}
		}
		if len(c) == 0 {
			return mv, ""
		}
		return rapid.SampledFrom(c).Draw(t, "strOut"), "string_constraint"
	case spec.KEnumS, spec.KTypedEnumS:
		return mv.(string) + "_nope", "enum_non_member"
	case spec.KEnumI:
		for _, cand := range []int64{mv.(int64) + 1, mv.(int64) - 1, 77, -77} {
			member := false
			for _, e := range s.Enum {
				if e.I == cand {
					member = true
				}
			}
			if !member {
				return cand, "enum_non_member"
			}
		}
		return mv, ""
	case spec.KList:
		l := append([]any(nil), mv.([]any)...)
		choice := rapid.IntRange(0, 2).Draw(t, "listPerturb")
		if choice == 0 && len(l) > 0 {
			i := rapid.IntRange(0, len(l)-1).Draw(t, "listIdx")
			n, what := Perturb(t, s.Items, env, l[i])
			if what != "" {
				l[i] = n
				return l, "list_item:" + what
			}
		}
		if choice == 1 && s.Min != nil && *s.Min > 0 && int64(len(l)) >= *s.Min {
			return l[:*s.Min-1], "list_too_short"
		}
		if s.Max != nil && *s.Max < 16 {
			for int64(len(l)) <= *s.Max {
				e, ok := ValueFor(t, s.Items, env, 1)
				if !ok {
					return mv, ""
				}
				l = append(l, e)
			}
			return l, "list_too_long"
		}
		if len(l) > 0 {
			n, what := Perturb(t, s.Items, env, l[0])
			if what != "" {
				l[0] = n
				return l, "list_item:" + what
			}
		}
		return mv, ""
	case spec.KMap:
		m := map[any]any{}
		for k, v := range mv.(map[any]any) {
			m[k] = v
		}
		keys := sortedKeys(m)
		choice := rapid.IntRange(0, 3).Draw(t, "mapPerturb")
		if choice == 0 && len(keys) > 0 {
			k := rapid.SampledFrom(keys).Draw(t, "mapKeyPick")
			n, what := Perturb(t, s.Values, env, m[k])
			if what != "" {
				m[k] = n
				return m, "map_value:" + what
			}
		}
		if choice == 1 && len(keys) > 0 {
			k := rapid.SampledFrom(keys).Draw(t, "mapKeyPick")
			n, what := Perturb(t, s.Keys, env, k)
			if what != "" {
				if _, dup := m[n]; !dup {
					v := m[k]
					delete(m, k)
					m[n] = v
					return m, "map_key:" + what
				}
			}
		}
		if choice == 2 && s.Min != nil && *s.Min > 0 && int64(len(m)) >= *s.Min {
			for _, k := range keys {
				if int64(len(m)) < *s.Min {
					break
				}
				delete(m, k)
			}
			return m, "map_too_small"
		}
		if s.Max != nil && *s.Max < 8 {
			for tries := 0; int64(len(m)) <= *s.Max && tries < 40; tries++ {
				k, ok := ValueFor(t, s.Keys, env, 1)
				if !ok {
					break
				}
				if _, dup := m[k]; dup {
					continue
				}
				v, ok := ValueFor(t, s.Values, env, 1)
				if !ok {
					break
				}
				m[k] = v
			}
			if int64(len(m)) > *s.Max {
				return m, "map_too_large"
			}
		}
		return mv, ""
	}
	return mv, ""
}
