// Package gen holds the rapid generators: schema descriptions (Spec), valid-by-construction model values, their
// rendering into arbitrary raw representations, hostile decoder-domain values and mutations.
package gen

import (
	"encoding/json"
	"fmt"
	"math"
	"reflect"
	"regexp"
	"strings"

	"pgregory.net/rapid"
	"verif/harness/ev"
	"verif/harness/model"
	"verif/harness/spec"
	"verif/harness/units"
	"verif/harness/val"
)

// Opts steer the Spec generator.
type Opts struct {
	MaxDepth   int
	Objects    bool // map-based objects
	Structs    bool // struct-mapped objects from the catalogue
	OneOf      bool
	Refs       bool // hoist objects into scopes and reference them (incl. recursive)
	Units      bool
	Defaults   bool
	Presence   bool // required_if / required_if_not / conflicts
	Disabled   bool
	EmptyIsDef bool
	Display    bool
	WildIDs    bool // IDs outside the meta-schema's idType (C04 only)
	Unsat      bool // allow unsatisfiable bound combinations (min > max)
	// Describable keeps to what the meta-schema can express (no TypedStringEnumSchema[T], which has no type ID of
	// its own in the value-type table).
	Describable bool
	// ScopeRoot forces the root to be a scope.
	ScopeRoot bool
	// TypedContainers builds some lists / maps of scalars with the typed constructors (their unserialized form is a
	// typed slice / map, so only checks that do not compare against the model's native forms switch it on).
	TypedContainers bool
}

// Full enables every feature.
func Full(depth int) Opts {
	return Opts{MaxDepth: depth, Objects: true, Structs: true, OneOf: true, Refs: true, Units: true, Defaults: true, Presence: true, Disabled: true, EmptyIsDef: true, Display: true}
}

var (
	typeInt64   = reflect.TypeOf(int64(0))
	typeFloat64 = reflect.TypeOf(float64(0))
	typeString  = reflect.TypeOf("")
	typeMyStr   = reflect.TypeOf(val.MyStr(""))
	typeBool    = reflect.TypeOf(false)
	typeRegexp  = reflect.TypeOf(&regexp.Regexp{})
	typeAny     = reflect.TypeOf((*any)(nil)).Elem()
)

type ctx struct {
	t     *rapid.T
	o     Opts
	nextID int
	// objects hoisted into the scope being generated
	hoisted []*spec.Spec
	inScope bool
	// struct-mapped objects being generated on the current path inside the current scope (for back references)
	path []*spec.Spec
	// objects of the current scope that a back reference points at: they must be in the scope's table
	refTargets map[string]bool
}

var patterns = []string{`^[a-z]+$`, `^[0-9]{2,4}$`, `abc`, `^(foo|bar|baz)$`, `^[A-Za-z0-9_-]*$`, `^\p{L}+$`, `^.{0,5}$`, `[xyz]`, `^a.c$`}

var idAlphabet = []rune("abcdefgXYZ019-_$@")

func (c *ctx) id(prefix string) string {
	c.nextID++
	if c.o.WildIDs && rapid.IntRange(0, 3).Draw(c.t, "wildID") == 0 {
		return rapid.SampledFrom([]string{"", " ", "a b", "é", "a.b", "x/y", "\x00", "日本", strings.Repeat("z", 300)}).Draw(c.t, "wild") + fmt.Sprint(c.nextID)
	}
	var sb strings.Builder
	sb.WriteString(prefix)
	n := rapid.IntRange(0, 3).Draw(c.t, "idLen")
	for i := 0; i < n; i++ {
		sb.WriteRune(rapid.SampledFrom(idAlphabet).Draw(c.t, "idCh"))
	}
	sb.WriteString(fmt.Sprint(c.nextID))
	return sb.String()
}

func (c *ctx) display(label string) *spec.DisplaySpec {
	if !c.o.Display || rapid.IntRange(0, 2).Draw(c.t, "hasDisplay"+label) != 0 {
		if c.o.Describable && label == "enum" {
			// the meta-schema stores a Display object per enum value: a nil *DisplayValue has no description
			// (all of the SDK's own uses pass a non-nil value); an empty one does
			return &spec.DisplaySpec{}
		}
		return nil
	}
	d := &spec.DisplaySpec{}
	if rapid.Bool().Draw(c.t, "dName") {
		d.Name = spec.P(rapid.SampledFrom([]string{"Name", "A name", "名前", "x"}).Draw(c.t, "dNameV"))
	}
	if rapid.Bool().Draw(c.t, "dDesc") {
		d.Desc = spec.P(rapid.SampledFrom([]string{"Some description.", "multi\nline", "d"}).Draw(c.t, "dDescV"))
	}
	if rapid.IntRange(0, 3).Draw(c.t, "dIcon") == 0 {
		d.Icon = spec.P("<svg></svg>")
	}
	return d
}

func (c *ctx) intBounds(lo, hi int64) (*int64, *int64) {
	var mn, mx *int64
	edge := []int64{lo, hi, 0, 1, -1, 2, 5, 10, 100, -100, 1 << 31, 1<<53 + 1, math.MaxInt64, math.MinInt64, math.MaxInt64 - 1}
	pick := func(l string) int64 {
		if rapid.Bool().Draw(c.t, l+"Edge") {
			v := rapid.SampledFrom(edge).Draw(c.t, l+"E")
			if v < lo {
				v = lo
			}
			if v > hi {
				v = hi
			}
			return v
		}
		return rapid.Int64Range(lo, hi).Draw(c.t, l+"R")
	}
	switch rapid.IntRange(0, 3).Draw(c.t, "boundShape") {
	case 0:
	case 1:
		mn = spec.P(pick("min"))
	case 2:
		mx = spec.P(pick("max"))
	case 3:
		a, b := pick("min"), pick("max")
		if a > b && !(c.o.Unsat && rapid.IntRange(0, 4).Draw(c.t, "unsat") == 0) {
			a, b = b, a
		}
		mn, mx = spec.P(a), spec.P(b)
	}
	return mn, mx
}

func (c *ctx) unitsDef() *units.Def {
	if !c.o.Units || rapid.IntRange(0, 2).Draw(c.t, "hasUnits") != 0 {
		return nil
	}
	if rapid.IntRange(0, 3).Draw(c.t, "genUnits") == 0 {
		// a fresh, unambiguous definition
		d := units.Def{Base: units.Names{"u", "us", "unit", "units"}, Mults: []units.Mult{{M: 10, N: units.Names{"da", "das", "deca", "decas"}}, {M: 1000, N: units.Names{"k", "ks", "kilo", "kilos"}}}}
		return &d
	}
	d := units.BuiltinDef(rapid.SampledFrom(units.BuiltinNames).Draw(c.t, "unitSet"))
	return &d
}

// Spec generates a schema description of any kind allowed by the options.
func Spec(o Opts) *rapid.Generator[*spec.Spec] {
	return rapid.Custom(func(t *rapid.T) *spec.Spec {
		c := &ctx{t: t, o: o}
		s := c.top()
		if o.TypedContainers && !o.Describable {
			spec.Walk(s, func(n *spec.Spec) {
				if spec.TypedContainer(n) && rapid.IntRange(0, 2).Draw(t, "typedContainer") == 0 {
					n.Typed = true
					ev.Class("typed_container:"+n.Kind, 1)
				}
			})
		}
		return s
	})
}

// top generates the root: a scope when references/objects are on (most of the time), else any node.
func (c *ctx) top() *spec.Spec {
	if c.o.ScopeRoot || (c.o.Objects || c.o.Structs) && rapid.IntRange(0, 3).Draw(c.t, "topScope") != 0 {
		return c.scope(0)
	}
	return c.node(0, nil)
}

func (c *ctx) leafKinds() []string {
	return []string{spec.KInt, spec.KFloat, spec.KString, spec.KBool, spec.KPattern, spec.KEnumS, spec.KEnumI, spec.KAny, spec.KInt, spec.KString}
}

// node generates a schema whose native type is compatible with goType (nil = unconstrained).
func (c *ctx) node(depth int, goType reflect.Type) *spec.Spec {
	if goType != nil {
		return c.nodeFor(depth, goType)
	}
	kinds := c.leafKinds()
	if depth < c.o.MaxDepth {
		kinds = append(kinds, spec.KList, spec.KMap, spec.KList, spec.KMap)
		if c.o.Objects || c.o.Structs {
			kinds = append(kinds, spec.KObject, spec.KObject)
			if c.o.OneOf {
				kinds = append(kinds, spec.KOneOfS, spec.KOneOfI)
			}
			if c.o.Refs && depth+1 < c.o.MaxDepth {
				kinds = append(kinds, spec.KScope)
			}
		}
	}
	return c.kind(rapid.SampledFrom(kinds).Draw(c.t, "kind"), depth)
}

func (c *ctx) kind(k string, depth int) *spec.Spec {
	switch k {
	case spec.KInt:
		s := &spec.Spec{Kind: k, Units: c.unitsDef()}
		s.Min, s.Max = c.intBounds(math.MinInt64, math.MaxInt64)
		return s
	case spec.KFloat:
		s := &spec.Spec{Kind: k, Units: c.unitsDef()}
		edge := []float64{0, 1, -1, 0.5, 100, -100, 1e300, -1e300, math.MaxFloat64, math.SmallestNonzeroFloat64, math.Inf(1), math.Inf(-1)}
		pick := func(l string) float64 {
			if rapid.Bool().Draw(c.t, l+"Edge") {
				return rapid.SampledFrom(edge).Draw(c.t, l+"E")
			}
			return rapid.Float64Range(-1e6, 1e6).Draw(c.t, l+"R")
		}
		switch rapid.IntRange(0, 3).Draw(c.t, "fboundShape") {
		case 1:
			s.FMin = spec.P(pick("fmin"))
		case 2:
			s.FMax = spec.P(pick("fmax"))
		case 3:
			a, b := pick("fmin"), pick("fmax")
			if a > b && !(c.o.Unsat && rapid.IntRange(0, 4).Draw(c.t, "unsat") == 0) {
				a, b = b, a
			}
			s.FMin, s.FMax = spec.P(a), spec.P(b)
		}
		return s
	case spec.KString:
		s := &spec.Spec{Kind: k}
		if rapid.IntRange(0, 2).Draw(c.t, "hasPattern") == 0 {
			s.Pattern = spec.P(rapid.SampledFrom(patterns).Draw(c.t, "pattern"))
		}
		s.Min, s.Max = c.intBounds(0, 12)
		return s
	case spec.KBool, spec.KPattern, spec.KAny:
		return &spec.Spec{Kind: k}
	case spec.KEnumS, spec.KTypedEnumS:
		s := &spec.Spec{Kind: k}
		n := rapid.IntRange(1, 4).Draw(c.t, "enumN")
		seen := map[string]bool{}
		for i := 0; i < n; i++ {
			v := rapid.SampledFrom([]string{"a", "b", "yes", "no", "123", "1", "0", "", "A", "x y", "ü", "true", "7"}).Draw(c.t, "enumV")
			if seen[v] {
				continue
			}
			seen[v] = true
			s.Enum = append(s.Enum, spec.EnumVal{S: v, Display: c.display("enum")})
		}
		return s
	case spec.KEnumI:
		s := &spec.Spec{Kind: k, Units: c.unitsDef()}
		n := rapid.IntRange(1, 4).Draw(c.t, "enumN")
		seen := map[int64]bool{}
		for i := 0; i < n; i++ {
			v := rapid.SampledFrom([]int64{0, 1, 2, -1, 60, 1024, 100, 1 << 40, math.MaxInt64, math.MinInt64, 3600}).Draw(c.t, "enumV")
			if seen[v] {
				continue
			}
			seen[v] = true
			s.Enum = append(s.Enum, spec.EnumVal{I: v, Display: c.display("enum")})
		}
		return s
	case spec.KList:
		s := &spec.Spec{Kind: k, Items: c.node(depth+1, nil)}
		s.Min, s.Max = c.intBounds(0, 4)
		return s
	case spec.KMap:
		s := &spec.Spec{Kind: k, Keys: c.keySpec(), Values: c.node(depth+1, nil)}
		s.Min, s.Max = c.intBounds(0, 3)
		c.fixMapMin(s)
		return s
	case spec.KObject:
		return c.object(depth, "")
	case spec.KScope:
		return c.scope(depth)
	case spec.KOneOfS, spec.KOneOfI:
		return c.oneOf(k, depth)
	}
	panic("gen: kind " + k)
}

func (c *ctx) keySpec() *spec.Spec {
	k := rapid.IntRange(0, 4).Draw(c.t, "keyKind")
	if c.o.Describable && (k == 1 || k == 2) {
		// the meta-schema's key-type table only has integer and string
		ev.Class("pruned_enum_map_key_not_describable", 1)
		k = 3
	}
	switch k {
	case 0:
		s := &spec.Spec{Kind: spec.KInt}
		s.Min, s.Max = c.intBounds(-1000, 1000)
		return s
	case 1:
		return c.kind(spec.KEnumS, 99)
	case 2:
		s := c.kind(spec.KEnumI, 99)
		s.Units = nil
		return s
	}
	s := &spec.Spec{Kind: spec.KString}
	if rapid.IntRange(0, 3).Draw(c.t, "keyPattern") == 0 {
		s.Pattern = spec.P(`^[a-z]+$`)
	}
	return s
}

// fixMapMin keeps the map's minimum size reachable with distinct keys.
func (c *ctx) fixMapMin(s *spec.Spec) {
	avail := int64(1000)
	switch s.Keys.Kind {
	case spec.KEnumS, spec.KEnumI, spec.KTypedEnumS:
		avail = int64(len(s.Keys.Enum))
	case spec.KInt:
		if s.Keys.Min != nil && s.Keys.Max != nil {
			if *s.Keys.Max < *s.Keys.Min {
				avail = 0
			} else if *s.Keys.Max-*s.Keys.Min < 1000 {
				avail = *s.Keys.Max - *s.Keys.Min + 1
			}
		}
	}
	if s.Min != nil && *s.Min > avail && !c.o.Unsat {
		s.Min = spec.P(avail)
		if s.Max != nil && *s.Max < *s.Min {
			s.Max = spec.P(*s.Min)
		}
	}
}

// nodeFor generates a schema for a Go field type of the struct catalogue.
func (c *ctx) nodeFor(depth int, gt reflect.Type) *spec.Spec {
	isPtr := false
	for gt.Kind() == reflect.Pointer && gt != typeRegexp {
		gt = gt.Elem()
		isPtr = true
	}
	switch {
	case gt == typeInt64:
		if rapid.IntRange(0, 3).Draw(c.t, "intAsEnum") == 0 {
			return c.kind(spec.KEnumI, depth)
		}
		return c.kind(spec.KInt, depth)
	case gt == typeFloat64:
		return c.kind(spec.KFloat, depth)
	case gt == typeString:
		if rapid.IntRange(0, 3).Draw(c.t, "strAsEnum") == 0 {
			return c.kind(spec.KEnumS, depth)
		}
		return c.kind(spec.KString, depth)
	case gt == typeMyStr:
		if c.o.Describable || rapid.Bool().Draw(c.t, "myStrAsString") {
			return c.kind(spec.KString, depth)
		}
		return c.kind(spec.KTypedEnumS, depth)
	case gt == typeBool:
		return c.kind(spec.KBool, depth)
	case gt == typeRegexp:
		return c.kind(spec.KPattern, depth)
	case gt == typeAny:
		if depth >= c.o.MaxDepth {
			return c.kind(rapid.SampledFrom(c.leafKinds()).Draw(c.t, "anyLeaf"), depth)
		}
		return c.node(depth, nil)
	case gt.Kind() == reflect.Slice && gt.Elem() == typeAny:
		// []any can only hold a list whose items' native type is `any` itself: any or one-of
		items := &spec.Spec{Kind: spec.KAny}
		if c.o.OneOf && depth+1 < c.o.MaxDepth && rapid.Bool().Draw(c.t, "loOneOf") {
			items = c.oneOf(rapid.SampledFrom([]string{spec.KOneOfS, spec.KOneOfI}).Draw(c.t, "loOneOfKind"), depth+1)
		}
		s := &spec.Spec{Kind: spec.KList, Items: items}
		s.Min, s.Max = c.intBounds(0, 4)
		return s
	case gt.Kind() == reflect.Slice:
		s := &spec.Spec{Kind: spec.KList, Items: c.nodeFor(depth+1, gt.Elem())}
		s.Min, s.Max = c.intBounds(0, 4)
		return s
	case gt.Kind() == reflect.Map && gt.Elem() == typeAny && gt.Key() == typeString:
		// map[string]any: a map-based object or a map[string, any]
		if rapid.Bool().Draw(c.t, "moAsObject") {
			return c.object(depth, "-") // map-based only
		}
		s := &spec.Spec{Kind: spec.KMap, Keys: &spec.Spec{Kind: spec.KString}, Values: &spec.Spec{Kind: spec.KAny}}
		s.Min, s.Max = c.intBounds(0, 3)
		return s
	case gt.Kind() == reflect.Map:
		var keys *spec.Spec
		if gt.Key() == typeInt64 {
			keys = &spec.Spec{Kind: spec.KInt}
			keys.Min, keys.Max = c.intBounds(-1000, 1000)
		} else {
			keys = &spec.Spec{Kind: spec.KString}
		}
		s := &spec.Spec{Kind: spec.KMap, Keys: keys, Values: c.nodeFor(depth+1, gt.Elem())}
		s.Min, s.Max = c.intBounds(0, 3)
		c.fixMapMin(s)
		return s
	case gt.Kind() == reflect.Struct:
		// pointer fields pair with the pointer form of the struct-mapped schema, value fields with the value form
		// (the pairing used throughout the SDK's own tests)
		// (the pairing used throughout the SDK's own tests); a pointer field also takes the value form, which the
		// SDK stores through a fresh pointer
		name := spec.CatalogueNameOf(gt)
		if isPtr && rapid.IntRange(0, 3).Draw(c.t, "ptrFieldValueForm") != 0 {
			name = "*" + name
		}
		return c.object(depth, name)
	}
	panic(fmt.Sprintf("gen: no schema for Go type %s", gt))
}

// ancestor finds the struct-mapped object of the given catalogue struct on the current generation path (o itself
// included), or nil.
func (c *ctx) ancestor(name string, o *spec.Spec) *spec.Spec {
	if name == "" {
		return nil
	}
	if strings.TrimPrefix(o.Struct, "*") == name {
		return o
	}
	for i := len(c.path) - 1; i >= 0; i-- {
		if strings.TrimPrefix(c.path[i].Struct, "*") == name {
			return c.path[i]
		}
	}
	return nil
}

func (c *ctx) object(depth int, structName string) *spec.Spec {
	if structName == "-" {
		structName = ""
	} else if structName == "" && c.o.Structs && (!c.o.Objects || rapid.IntRange(0, 2).Draw(c.t, "useStruct") == 0) {
		structName = rapid.SampledFrom([]string{"Leaf", "Leaf", "Mid", "Top", "Node", "AltA", "AltB", "PairA", "PairB"}).Draw(c.t, "structName")
		if rapid.IntRange(0, 3).Draw(c.t, "ptrStruct") == 0 {
			structName = "*" + structName
		}
	}
	o := &spec.Spec{Kind: spec.KObject, ID: c.id("O"), Struct: structName}
	var selfRefs []string
	if structName == "" {
		o.IDUnenforced = rapid.IntRange(0, 5).Draw(c.t, "idUnenforced") == 0
		n := rapid.IntRange(0, 4).Draw(c.t, "nProps")
		for i := 0; i < n; i++ {
			name := c.propName(i)
			var pt *spec.Spec
			if depth+1 <= c.o.MaxDepth {
				pt = c.node(depth+1, nil)
			} else {
				pt = c.kind(rapid.SampledFrom(c.leafKinds()).Draw(c.t, "propLeaf"), depth+1)
			}
			o.Props = append(o.Props, spec.Prop{Name: name, Type: pt})
		}
	} else {
		fields := spec.Fields(structName)
		for _, f := range fields {
			if f.Prop == "k" || f.Prop == "ki" {
				continue // discriminator slots are added by oneOf when needed
			}
			if rapid.IntRange(0, 3).Draw(c.t, "useField") != 0 {
				continue
			}
			ft := f.Type
			isStruct := false
			et := ft
			for et.Kind() == reflect.Pointer || et.Kind() == reflect.Slice || (et.Kind() == reflect.Map && et.Elem() != typeAny) {
				if et == typeRegexp {
					break
				}
				et = et.Elem()
			}
			if et.Kind() == reflect.Struct && et != typeRegexp.Elem() {
				isStruct = true
			}
			var back *spec.Spec
			if isStruct {
				back = c.ancestor(spec.CatalogueNameOf(et), o)
			}
			if isStruct && back == nil && depth+1 > c.o.MaxDepth {
				continue
			}
			var pt *spec.Spec
			if back != nil {
				// the field's struct type is being generated further up: a cycle of the object graph
				if ft.Kind() != reflect.Pointer || !c.inScope || !c.o.Refs {
					continue
				}
				pt = &spec.Spec{Kind: spec.KRef, RefID: back.ID}
				selfRefs = append(selfRefs, f.Prop)
				if back == o {
					ev.Class("object_cycle:length_1", 1)
				} else {
					ev.Class("object_cycle:longer", 1)
					c.refTargets[back.ID] = true
				}
				if !strings.HasPrefix(back.Struct, "*") {
					ev.Class("object_cycle:value_form_target", 1)
				}
			} else {
				c.path = append(c.path, o)
				pt = c.nodeFor(depth+1, ft)
				c.path = c.path[:len(c.path)-1]
			}
			o.Props = append(o.Props, spec.Prop{Name: f.Prop, Type: pt})
		}
	}
	c.decorate(o)
	if structName != "" {
		c.fixStruct(o)
	}
	// KNOWN FINDING (C04, shorthand-selfref): an object whose *only* property refers back to the object makes
	// the single-property shorthand recurse forever on any non-map input. Such objects are excluded here by
	// construction (counted) and exercised by C04's dedicated case.
	if len(selfRefs) > 0 && len(o.Props) == 1 {
		// a second property: the first scalar field of the struct
		for _, f := range spec.Fields(structName) {
			if f.Prop == "k" || f.Prop == "ki" {
				continue
			}
			if f.Type == typeInt64 {
				o.Props = append(o.Props, spec.Prop{Name: f.Prop, Type: &spec.Spec{Kind: spec.KInt}})
				break
			}
			if f.Type == typeString {
				o.Props = append(o.Props, spec.Prop{Name: f.Prop, Type: &spec.Spec{Kind: spec.KString}})
				break
			}
		}
		c.fixStruct(o)
		ev.Class("excluded_known:shorthand-selfref", 1)
	}
	// a self-referential member must be optional, otherwise the object has no finite value
	for _, n := range selfRefs {
		if p := o.PropByName(n); p != nil {
			p.Required = false
			stripRules(o, n)
		}
	}
	return o
}

// ZeroMV is the model value of the Go zero value of a value-typed field, if it has one.
func ZeroMV(s *spec.Spec) (any, bool) {
	switch s.Kind {
	case spec.KInt, spec.KEnumI:
		return int64(0), true
	case spec.KFloat:
		return float64(0), true
	case spec.KString, spec.KEnumS, spec.KTypedEnumS:
		return "", true
	case spec.KBool:
		return false, true
	case spec.KList:
		return []any{}, true
	case spec.KMap:
		return map[any]any{}, true
	}
	return nil, false
}

func stripRules(o *spec.Spec, name string) {
	for i := range o.Props {
		p := &o.Props[i]
		if p.Name == name {
			p.RequiredIf, p.RequiredIfNot, p.Conflicts = nil, nil, nil
			continue
		}
		p.RequiredIf, p.RequiredIfNot, p.Conflicts = dropName(p.RequiredIf, name), dropName(p.RequiredIfNot, name), dropName(p.Conflicts, name)
	}
}

// fixStruct enforces the documented precondition of struct-mapped objects (TreatEmptyAsDefaultValue doc comment,
// TestObjectNestedDefaults): a property mapped to a field that cannot express absence (not a pointer / interface)
// must be always present (required), or be marked treat-empty-as-default, or have a zero value that is valid for
// its own type and take part in no presence rule. Each choice is counted.
func (c *ctx) fixStruct(o *spec.Spec) {
	for i := range o.Props {
		p := &o.Props[i]
		ft, ok := spec.FieldType(o.Struct, p.Name)
		if !ok {
			continue
		}
		if ft.Kind() == reflect.Pointer || ft.Kind() == reflect.Interface {
			continue
		}
		if p.Disabled {
			// a disabled property on a field that cannot express absence would be "in use" in every serialized
			// value; only the treat-empty-as-default form keeps it out of the serialized data
			if c.o.EmptyIsDef {
				if _, z := ZeroMV(p.Type); z {
					p.EmptyIsDefault = true
					p.Required = false
					stripRules(o, p.Name)
					ev.Class("struct_value_field:disabled_empty_is_default", 1)
					continue
				}
			}
			p.Disabled = false
		}
		zero, hasZero := ZeroMV(p.Type)
		if !hasZero {
			// by-value object members (struct or map[string]any): always present
			p.Required = true
			p.Disabled = false
			stripRules(o, p.Name)
			ev.Class("struct_value_field:required", 1)
			continue
		}
		choice := rapid.IntRange(0, 2).Draw(c.t, "valueFieldRule")
		if choice == 1 && !c.o.EmptyIsDef {
			choice = 2
		}
		switch choice {
		case 0:
			p.Required = true
			p.Disabled = false
			stripRules(o, p.Name)
			ev.Class("struct_value_field:required", 1)
		case 1:
			p.EmptyIsDefault = true
			p.Required = false
			stripRules(o, p.Name)
			ev.Class("struct_value_field:empty_is_default", 1)
		default:
			p.Required = false
			stripRules(o, p.Name)
			if !model.Check(p.Type, nil, zero) {
				relax(p.Type)
			}
			if !model.Check(p.Type, nil, zero) {
				p.Required = true
				p.Disabled = false
			}
			ev.Class("struct_value_field:zero_valid", 1)
		}
	}
}

// relax removes the constraints that reject the zero value.
func relax(s *spec.Spec) {
	switch s.Kind {
	case spec.KInt, spec.KString, spec.KList, spec.KMap:
		s.Min, s.Max, s.Pattern = nil, nil, nil
		if s.Kind == spec.KString || s.Kind == spec.KList || s.Kind == spec.KMap {
			s.Min = nil
		}
	case spec.KFloat:
		s.FMin, s.FMax = nil, nil
	case spec.KEnumS, spec.KTypedEnumS:
		s.Enum = append(s.Enum, spec.EnumVal{S: "", Display: &spec.DisplaySpec{}})
	case spec.KEnumI:
		s.Enum = append(s.Enum, spec.EnumVal{I: 0, Display: &spec.DisplaySpec{}})
	}
}

func (c *ctx) propName(i int) string {
	if rapid.IntRange(0, 4).Draw(c.t, "fancyProp") == 0 {
		return rapid.SampledFrom([]string{"a-b", "$x", "@id", "UPPER", "_t", "type", "0", "日"}).Draw(c.t, "propNameF") + fmt.Sprint(i)
	}
	return fmt.Sprintf("p%d", i)
}

// decorate adds flags, presence rules, defaults, display data to the properties of an object.
func (c *ctx) decorate(o *spec.Spec) {
	names := make([]string, len(o.Props))
	for i := range o.Props {
		names[i] = o.Props[i].Name
	}
	for i := range o.Props {
		p := &o.Props[i]
		p.Display = c.display("prop")
		if c.o.Display && rapid.IntRange(0, 4).Draw(c.t, "examples") == 0 {
			p.Examples = []string{`"example"`, `1`}
		}
		p.Required = rapid.IntRange(0, 3).Draw(c.t, "required") == 0
		others := func(label string) []string {
			var out []string
			for j, n := range names {
				if j != i && rapid.IntRange(0, 2).Draw(c.t, label) == 0 {
					out = append(out, n)
				}
			}
			return out
		}
		if c.o.Presence && len(names) > 1 {
			// the three kinds of rule are independent: a property may carry any combination of them (and be
			// required as well, which makes the required-if rules redundant but still legal)
			if rapid.IntRange(0, 4).Draw(c.t, "hasRequiredIf") == 0 {
				p.RequiredIf = others("requiredIf")
			}
			if rapid.IntRange(0, 4).Draw(c.t, "hasRequiredIfNot") == 0 {
				p.RequiredIfNot = others("requiredIfNot")
			}
			if rapid.IntRange(0, 4).Draw(c.t, "hasConflicts") == 0 {
				p.Conflicts = others("conflicts")
			}
		}
		if c.o.Disabled && rapid.IntRange(0, 9).Draw(c.t, "disabled") == 0 {
			p.Disabled = true
			p.DisabledReason = rapid.SampledFrom([]string{"", "not available here"}).Draw(c.t, "disabledReason")
		}
	}
}

// AddDefaults gives some properties a declared default (a JSON text their type accepts). It needs the environment
// to draw valid values, so it runs after the tree (and its scopes) are complete.
func AddDefaults(t *rapid.T, root *spec.Spec, o Opts) {
	var walk func(s *spec.Spec, env *model.Env, parentStruct bool)
	walk = func(s *spec.Spec, env *model.Env, _ bool) {
		if s == nil {
			return
		}
		switch s.Kind {
		case spec.KScope:
			env = env.ScopeEnv(s)
			for _, ob := range s.Objects {
				walk(ob, env, false)
			}
			return
		case spec.KObject:
			for i := range s.Props {
				walk(s.Props[i].Type, env, s.Struct != "")
			}
			for i := range s.Props {
				p := &s.Props[i]
				fieldIsValue := false
				if s.Struct != "" {
					if ft, ok := spec.FieldType(s.Struct, p.Name); ok && ft.Kind() != reflect.Pointer && ft.Kind() != reflect.Interface && ft.Kind() != reflect.Slice && ft.Kind() != reflect.Map {
						fieldIsValue = true
					}
				}
				if p.EmptyIsDefault {
					continue
				}
				if !o.Defaults || p.Disabled || rapid.IntRange(0, 3).Draw(t, "hasDefault") != 0 {
					continue
				}
				if reachesObject(p.Type, env, s, map[*spec.Spec]bool{}) {
					// a default on a member that closes a cycle of the object graph describes an infinite value as soon
					// as it contains an instance of the owner (every such instance takes the default again): only an
					// empty container / an empty inline object can be a default here
					var empty any
					switch p.Type.Kind {
					case spec.KList:
						empty = []any{}
					case spec.KMap, spec.KObject:
						empty = map[string]any{}
					}
					if empty != nil {
						if _, v := model.Denote(p.Type, env, empty); v == model.Accept {
							d := "{}"
							if p.Type.Kind == spec.KList {
								d = "[]"
							}
							p.Default = &d
							ev.Class("empty_default_on_cycle_member", 1)
							continue
						}
					}
					ev.Class("pruned_default_on_recursive_member", 1)
					continue
				}
				_ = fieldIsValue
				// single-property shorthand as the declared default of an object-typed property
				if sub, senv, ok := valueObjectMember(p, env); ok && len(sub.Props) == 1 && !sub.Props[0].Disabled && rapid.IntRange(0, 2).Draw(t, "shorthandDefault") == 0 {
					switch sub.Props[0].Type.Kind {
					case spec.KInt, spec.KFloat, spec.KString, spec.KBool, spec.KEnumI, spec.KEnumS:
						if d, ok := defaultText(t, sub.Props[0].Type, senv); ok {
							if json.Unmarshal([]byte(d), new(any)) != nil {
								// the bare-string form is only retried with quotes for string-typed properties
								q, _ := json.Marshal(d)
								d = string(q)
							}
							p.Default = &d
							ev.Class("default_is_shorthand", 1)
							continue
						}
					}
				}
				if d, ok := defaultText(t, p.Type, env); ok {
					p.Default = &d
				}
			}
			return
		}
		walk(s.Items, env, false)
		walk(s.Keys, env, false)
		walk(s.Values, env, false)
		for i := range s.Members {
			walk(s.Members[i].Type, env, false)
		}
	}
	walk(root, nil, false)
}

// reachesObject tells if the target object occurs anywhere below the node (through references too).
func reachesObject(s *spec.Spec, env *model.Env, target *spec.Spec, seen map[*spec.Spec]bool) bool {
	if s == nil {
		return false
	}
	switch s.Kind {
	case spec.KRef, spec.KScope:
		o, oenv := model.Resolve(s, env)
		if o == nil {
			return false
		}
		return reachesObject(o, oenv, target, seen)
	case spec.KObject:
		if s == target {
			return true
		}
		if seen[s] {
			return false
		}
		seen[s] = true
		for i := range s.Props {
			if reachesObject(s.Props[i].Type, env, target, seen) {
				return true
			}
		}
		return false
	}
	if reachesObject(s.Items, env, target, seen) || reachesObject(s.Values, env, target, seen) {
		return true
	}
	for i := range s.Members {
		if reachesObject(s.Members[i].Type, env, target, seen) {
			return true
		}
	}
	return false
}

// IsRecursive tells if some scope in the spec has an object that refers back to itself, directly or through other
// objects of the scope.
func IsRecursive(s *spec.Spec) bool {
	rec := false
	spec.Walk(s, func(sc *spec.Spec) {
		if sc.Kind != spec.KScope {
			return
		}
		// reference graph between the objects of this scope
		edges := map[string][]string{}
		for _, o := range sc.Objects {
			var collect func(n *spec.Spec)
			collect = func(n *spec.Spec) {
				if n == nil || n.Kind == spec.KScope {
					return
				}
				if n.Kind == spec.KRef && n.Namespace == "" {
					edges[o.ID] = append(edges[o.ID], n.RefID)
				}
				collect(n.Items)
				collect(n.Keys)
				collect(n.Values)
				for i := range n.Props {
					collect(n.Props[i].Type)
				}
				for i := range n.Members {
					collect(n.Members[i].Type)
				}
			}
			for i := range o.Props {
				collect(o.Props[i].Type)
			}
		}
		for _, o := range sc.Objects {
			seen := map[string]bool{}
			stack := append([]string(nil), edges[o.ID]...)
			for len(stack) > 0 {
				x := stack[len(stack)-1]
				stack = stack[:len(stack)-1]
				if x == o.ID {
					rec = true
				}
				if seen[x] {
					continue
				}
				seen[x] = true
				stack = append(stack, edges[x]...)
			}
		}
	})
	return rec
}

func valueObjectMember(p *spec.Prop, env *model.Env) (*spec.Spec, *model.Env, bool) {
	if p.Type.Kind != spec.KObject && p.Type.Kind != spec.KRef {
		return nil, nil, false
	}
	o, oenv := model.Resolve(p.Type, env)
	if o == nil || strings.HasPrefix(o.Struct, "*") {
		return nil, nil, false
	}
	return o, oenv, true
}

// defaultText draws a value the type accepts and writes it as JSON.
func defaultText(t *rapid.T, s *spec.Spec, env *model.Env) (string, bool) {
	for try := 0; try < 4; try++ {
		mv, ok := ValueFor(t, s, env, 2)
		if !ok {
			return "", false
		}
		j, ok := toJSONable(s, env, mv)
		if !ok {
			return "", false
		}
		b, err := json.Marshal(j)
		if err != nil {
			return "", false
		}
		// the text must denote the same value after JSON decoding (numbers become float64)
		var back any
		if json.Unmarshal(b, &back) != nil {
			continue
		}
		if got, v := model.Denote(s, env, back); v == model.Accept && val.Equal(normalise(got), normalise(mv), val.Opts{}) {
			if s.Kind == spec.KString {
				if str, isStr := mv.(string); isStr && rapid.IntRange(0, 3).Draw(t, "bareStringDefault") == 0 && json.Unmarshal([]byte(str), new(any)) != nil && !strings.ContainsAny(str, "\"\\") && isPrintable(str) {
					return str, true // documented retry with quotes
				}
			}
			return string(b), true
		}
	}
	return "", false
}

func isPrintable(s string) bool {
	for _, r := range s {
		if r < 0x20 {
			return false
		}
	}
	return true
}

// normalise turns model values into a form comparable by val.Equal (Pat -> string).
func normalise(mv any) any {
	switch t := mv.(type) {
	case model.Pat:
		return "pat:" + t.Src
	case []any:
		out := make([]any, len(t))
		for i := range t {
			out[i] = normalise(t[i])
		}
		return out
	case map[any]any:
		out := map[any]any{}
		for k, v := range t {
			out[k] = normalise(v)
		}
		return out
	case map[string]any:
		out := map[string]any{}
		for k, v := range t {
			out[k] = normalise(v)
		}
		return out
	}
	return mv
}

// toJSONable converts a model value into something encoding/json can write so that decoding denotes it again.
func toJSONable(s *spec.Spec, env *model.Env, mv any) (any, bool) {
	switch t := mv.(type) {
	case int64:
		if t > 1<<53 || t < -(1<<53) {
			return nil, false
		}
		return t, true
	case float64:
		if math.IsNaN(t) || math.IsInf(t, 0) {
			return nil, false
		}
		return t, true
	case string, bool:
		return t, true
	case model.Pat:
		return t.Src, true
	case []any:
		out := make([]any, len(t))
		for i := range t {
			var items *spec.Spec
			if s != nil && s.Kind == spec.KList {
				items = s.Items
			}
			j, ok := toJSONable(items, env, t[i])
			if !ok {
				return nil, false
			}
			out[i] = j
		}
		return out, true
	case map[any]any:
		out := map[string]any{}
		for k, v := range t {
			var ks string
			switch kk := k.(type) {
			case string:
				ks = kk
			case int64:
				ks = fmt.Sprint(kk)
			default:
				return nil, false
			}
			var vs *spec.Spec
			if s != nil && s.Kind == spec.KMap {
				vs = s.Values
			}
			j, ok := toJSONable(vs, env, v)
			if !ok {
				return nil, false
			}
			out[ks] = j
		}
		return out, true
	case map[string]any:
		out := map[string]any{}
		for k, v := range t {
			j, ok := toJSONable(nil, env, v)
			if !ok {
				return nil, false
			}
			out[k] = j
		}
		return out, true
	}
	return nil, false
}

func (c *ctx) oneOf(k string, depth int) *spec.Spec {
	s := &spec.Spec{Kind: k, Inlined: rapid.Bool().Draw(c.t, "inlined")}
	s.Discriminator = rapid.SampledFrom([]string{"_type", "kind", "t", "type-id"}).Draw(c.t, "discField")
	n := rapid.IntRange(1, 3).Draw(c.t, "nMembers")
	structs := []string{"AltA", "AltB", "Leaf", "Mid"}
	useStructs := c.o.Structs && (!c.o.Objects || rapid.Bool().Draw(c.t, "structMembers"))
	if useStructs {
		// struct members carry the discriminator in their "k"/"ki" field when inlined
		if k == spec.KOneOfS {
			s.Discriminator = "k"
		} else {
			s.Discriminator = "ki"
		}
	}
	keysS := rapid.Permutation([]string{"a", "b", "first", "2", "10", ""}).Draw(c.t, "keysS")
	keysI := rapid.Permutation([]int64{0, 1, 2, -1, 10, 1 << 40}).Draw(c.t, "keysI")
	for i := 0; i < n; i++ {
		var obj *spec.Spec
		if useStructs {
			obj = c.object(depth+1, structs[i]) // pairwise distinct Go types
		} else {
			saved := c.o.Structs
			c.o.Structs = false
			obj = c.object(depth+1, "")
			c.o.Structs = saved
			// drop a property that collides with the discriminator
			var keep []spec.Prop
			for _, p := range obj.Props {
				if p.Name != s.Discriminator {
					keep = append(keep, p)
				}
			}
			obj.Props = keep
			for j := range obj.Props {
				p := &obj.Props[j]
				p.RequiredIf, p.RequiredIfNot, p.Conflicts = dropName(p.RequiredIf, s.Discriminator), dropName(p.RequiredIfNot, s.Discriminator), dropName(p.Conflicts, s.Discriminator)
			}
		}
		m := spec.Member{Type: obj}
		if k == spec.KOneOfS {
			m.KeyS = keysS[i]
		} else {
			m.KeyI = keysI[i]
		}
		if s.Inlined {
			var dt *spec.Spec
			if k == spec.KOneOfS {
				dt = &spec.Spec{Kind: spec.KString}
				if rapid.Bool().Draw(c.t, "discEnum") {
					dt = &spec.Spec{Kind: spec.KEnumS, Enum: []spec.EnumVal{{S: m.KeyS, Display: &spec.DisplaySpec{}}}}
					// the member's own discriminator property may be an enum over a named string type
					if !useStructs && !c.o.Describable && rapid.Bool().Draw(c.t, "discTypedEnum") {
						dt = &spec.Spec{Kind: spec.KTypedEnumS, Enum: []spec.EnumVal{{S: m.KeyS}}}
					}
				}
			} else {
				dt = &spec.Spec{Kind: spec.KInt}
				if rapid.Bool().Draw(c.t, "discEnum") {
					dt = &spec.Spec{Kind: spec.KEnumI, Enum: []spec.EnumVal{{I: m.KeyI, Display: &spec.DisplaySpec{}}}}
				}
			}
			obj.Props = append(obj.Props, spec.Prop{Name: s.Discriminator, Type: dt, Required: rapid.Bool().Draw(c.t, "discRequired")})
		}
		// a member may be wrapped in its own scope
		if c.o.Refs && depth+1 < c.o.MaxDepth && rapid.IntRange(0, 3).Draw(c.t, "memberScope") == 0 {
			m.Type = &spec.Spec{Kind: spec.KScope, Root: obj.ID, Objects: []*spec.Spec{obj}}
		}
		s.Members = append(s.Members, m)
	}
	return s
}

func dropName(l []string, n string) []string {
	var out []string
	for _, x := range l {
		if x != n {
			out = append(out, x)
		}
	}
	return out
}

// scope generates a scope: a root object plus hoisted objects referenced from inside.
func (c *ctx) scope(depth int) *spec.Spec {
	savedHoisted, savedIn, savedPath, savedTargets := c.hoisted, c.inScope, c.path, c.refTargets
	c.hoisted, c.inScope, c.path, c.refTargets = nil, true, nil, map[string]bool{}
	root := c.object(depth, "")
	sc := &spec.Spec{Kind: spec.KScope, Root: root.ID, Objects: []*spec.Spec{root}}
	if c.o.Refs {
		c.hoist(root, sc, true)
	}
	c.hoisted, c.inScope, c.path, c.refTargets = savedHoisted, savedIn, savedPath, savedTargets
	return sc
}

// hoist moves some inline objects (not those inside nested scopes) into the scope's table and replaces them by refs.
func (c *ctx) hoist(s *spec.Spec, sc *spec.Spec, isRoot bool) {
	var visit func(ps **spec.Spec)
	visit = func(ps **spec.Spec) {
		s := *ps
		if s == nil || s.Kind == spec.KScope {
			return
		}
		if s.Kind == spec.KObject {
			for i := range s.Props {
				visit(&s.Props[i].Type)
			}
			selfRef := false
			for i := range s.Props {
				if s.Props[i].Type.Kind == spec.KRef && s.Props[i].Type.RefID == s.ID {
					selfRef = true // a self-referential object must be in the scope's table
				}
			}
			if selfRef || c.refTargets[s.ID] || rapid.IntRange(0, 2).Draw(c.t, "hoist") == 0 {
				sc.Objects = append(sc.Objects, s)
				*ps = &spec.Spec{Kind: spec.KRef, RefID: s.ID, Display: c.display("ref")}
			}
			return
		}
		visit(&s.Items)
		visit(&s.Values)
		for i := range s.Members {
			visit(&s.Members[i].Type)
		}
	}
	for i := range s.Props {
		visit(&s.Props[i].Type)
	}
}
