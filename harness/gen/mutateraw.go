package gen

import (
	"pgregory.net/rapid"
	"verif/harness/val"
)

// MutateRaw applies one structural mutation to a random map node of the raw tree.
func MutateRaw(t *rapid.T, v val.V) (val.V, string) {
	// collect paths to map nodes
	type ref struct{ path []int }
	var maps [][]int
	var walk func(x val.V, path []int)
	walk = func(x val.V, path []int) {
		if len(x.T) >= 3 && x.T[:3] == "map" {
			maps = append(maps, append([]int(nil), path...))
			for i, e := range x.M {
				walk(e.V, append(path, i))
			}
		}
		for i, e := range x.L {
			walk(e, append(path, -1-i))
		}
	}
	walk(v, nil)
	if len(maps) == 0 {
		return v, ""
	}
	target := rapid.SampledFrom(maps).Draw(t, "mutTarget")
	what := rapid.SampledFrom([]string{"drop_key", "undeclared_key", "int_key", "named_string_key", "nil_value", "dup_as_other_type", "retype_map", "disc_unknown", "disc_numeric_string", "disc_wrong_type", "bool_key"}).Draw(t, "mutation")
	var apply func(x val.V, path []int) val.V
	apply = func(x val.V, path []int) val.V {
		if len(path) > 0 {
			c := x
			if path[0] >= 0 {
				c.M = append([]val.KV(nil), x.M...)
				c.M[path[0]].V = apply(x.M[path[0]].V, path[1:])
			} else {
				c.L = append([]val.V(nil), x.L...)
				c.L[-1-path[0]] = apply(x.L[-1-path[0]], path[1:])
			}
			return c
		}
		c := x
		c.M = append([]val.KV(nil), x.M...)
		if c.T != "map[string]any" && c.T != "map[any]any" {
			c.T = "map[any]any" // typed maps cannot carry the foreign keys / values added below
		}
		switch what {
		case "drop_key":
			if len(c.M) > 0 {
				i := rapid.IntRange(0, len(c.M)-1).Draw(t, "dropIdx")
				c.M = append(c.M[:i], c.M[i+1:]...)
			}
		case "undeclared_key":
			c.M = append(c.M, val.KV{K: val.Str("zz_undeclared"), V: val.Int("int64", 1)})
		case "int_key":
			c.T = "map[any]any"
			c.M = append(c.M, val.KV{K: val.Int("int64", 3), V: val.Int("int64", 1)})
		case "bool_key":
			c.T = "map[any]any"
			c.M = append(c.M, val.KV{K: val.Bool(true), V: val.Int("int64", 1)})
		case "named_string_key":
			if c.T == "map[string]any" || c.T == "map[any]any" {
				allStr := true
				for _, e := range c.M {
					if e.K.T != "string" {
						allStr = false
					}
				}
				if allStr {
					c.T = "map[mystr]any"
				}
			}
		case "nil_value":
			if len(c.M) > 0 {
				i := rapid.IntRange(0, len(c.M)-1).Draw(t, "nilIdx")
				c.M[i].V = val.Nil()
			}
		case "dup_as_other_type":
			if len(c.M) > 0 {
				i := rapid.IntRange(0, len(c.M)-1).Draw(t, "retypeIdx")
				c.M[i].V = rapid.SampledFrom([]val.V{val.Str("x"), val.Int("int64", -1), val.V{T: "[]any"}, val.V{T: "map[string]any"}, val.Bool(true), val.Float("float64", 0.5)}).Draw(t, "retypeTo")
			}
		case "retype_map":
			if c.T == "map[string]any" {
				c.T = "map[any]any"
			}
		case "disc_unknown", "disc_numeric_string", "disc_wrong_type":
			for i := range c.M {
				k := c.M[i].K.S
				if k == "_type" || k == "kind" || k == "t" || k == "type-id" || k == "k" || k == "ki" {
					switch what {
					case "disc_unknown":
						if c.M[i].V.T == "string" {
							c.M[i].V = val.Str("no-such-member")
						} else {
							c.M[i].V = val.Int("int64", 987654)
						}
					case "disc_numeric_string":
						c.M[i].V = val.Str(c.M[i].V.S)
					default:
						c.M[i].V = rapid.SampledFrom([]val.V{val.Bool(true), val.Float("float64", 1.5), val.V{T: "[]any"}, val.Nil()}).Draw(t, "discWrong")
					}
				}
			}
		}
		return c
	}
	return apply(v, target), what
}


// MutateLeaf replaces one scalar leaf (a number, a string or a bool) of the raw tree by a hostile string: number
// shapes at the edge of the integer / float / unit grammars, near-miss unit sentences, words. Whatever the schema
// makes of it, two builds of the same schema must make the same of it.
func MutateLeaf(t *rapid.T, v val.V) (val.V, string) {
	var leaves [][]int
	var walk func(x val.V, path []int)
	walk = func(x val.V, path []int) {
		if len(x.T) >= 3 && x.T[:3] == "map" {
			for i, e := range x.M {
				walk(e.V, append(path, i))
			}
			return
		}
		if len(x.L) > 0 || x.T == "[]any" {
			for i, e := range x.L {
				walk(e, append(path, -1-i))
			}
			return
		}
		switch x.T {
		case "int64", "int", "uint64", "float64", "float32", "string", "bool", "int32", "uint8":
			leaves = append(leaves, append([]int(nil), path...))
		}
	}
	walk(v, nil)
	if len(leaves) == 0 {
		return v, ""
	}
	target := rapid.SampledFrom(leaves).Draw(t, "leafTarget")
	str := rapid.SampledFrom(append([]string{"+5", "-0", "5.", ".5", "-1.5%", "1.5e3", "+5%", "5 %", "-5", "0x5", "5chars", "1.5char", "+1s", "1.s"}, hostileStrings...)).Draw(t, "leafString")
	var apply func(x val.V, path []int) val.V
	apply = func(x val.V, path []int) val.V {
		if len(path) == 0 {
			return val.Str(str)
		}
		c := x
		if path[0] >= 0 {
			c.M = append([]val.KV(nil), x.M...)
			c.M[path[0]].V = apply(x.M[path[0]].V, path[1:])
		} else {
			c.L = append([]val.V(nil), x.L...)
			c.L[-1-path[0]] = apply(x.L[-1-path[0]], path[1:])
		}
		return c
	}
	return apply(v, target), "leaf<-" + str
}
