package gen

import (
	"fmt"
	"math"
	"regexp"
	"strconv"
	"strings"

	"pgregory.net/rapid"
	"verif/harness/model"
	"verif/harness/spec"
	"verif/harness/units"
	"verif/harness/val"
)

// ValueFor draws a model value the schema should accept (valid by construction, biased to the boundaries).
// For objects the value is the set of *supplied* properties. ok=false when no valid value could be constructed
// (unsatisfiable constraints).
func ValueFor(t *rapid.T, s *spec.Spec, env *model.Env, budget int) (any, bool) {
	if budget < -24 {
		return nil, false
	}
	switch s.Kind {
	case spec.KInt:
		return intFor(t, s.Min, s.Max)
	case spec.KFloat:
		return floatFor(t, s)
	case spec.KString:
		return stringFor(t, s)
	case spec.KBool:
		return rapid.Bool().Draw(t, "bool"), true
	case spec.KPattern:
		return model.Pat{Src: rapid.SampledFrom([]string{"^a+$", "", "[0-9]{3}", "^(x|y)$", `\d+`, ".*"}).Draw(t, "pat")}, true
	case spec.KEnumS, spec.KTypedEnumS:
		if len(s.Enum) == 0 {
			return nil, false
		}
		return rapid.SampledFrom(s.Enum).Draw(t, "enumPick").S, true
	case spec.KEnumI:
		if len(s.Enum) == 0 {
			return nil, false
		}
		return rapid.SampledFrom(s.Enum).Draw(t, "enumPick").I, true
	case spec.KList:
		n, ok := sizeFor(t, s, 4)
		if !ok {
			return nil, false
		}
		if budget <= 0 && (s.Min == nil || *s.Min == 0) {
			n = 0
		}
		out := make([]any, 0, n)
		for i := 0; i < n; i++ {
			e, ok := ValueFor(t, s.Items, env, budget-1)
			if !ok {
				if s.Min == nil || int64(len(out)) >= *s.Min {
					break
				}
				return nil, false
			}
			out = append(out, e)
		}
		return out, true
	case spec.KMap:
		n, ok := sizeFor(t, s, 3)
		if !ok {
			return nil, false
		}
		if budget <= 0 && (s.Min == nil || *s.Min == 0) {
			n = 0
		}
		out := map[any]any{}
		for tries := 0; len(out) < n && tries < n*4+4; tries++ {
			k, ok := ValueFor(t, s.Keys, env, budget-1)
			if !ok {
				break
			}
			if _, dup := out[k]; dup {
				continue
			}
			v, ok := ValueFor(t, s.Values, env, budget-1)
			if !ok {
				break
			}
			out[k] = v
		}
		if s.Min != nil && int64(len(out)) < *s.Min {
			return nil, false
		}
		return out, true
	case spec.KAny:
		return anyValue(t, 2), true
	case spec.KObject, spec.KRef, spec.KScope:
		o, oenv := model.Resolve(s, env)
		if o == nil {
			return nil, false
		}
		return objectFor(t, o, oenv, budget)
	case spec.KOneOfS, spec.KOneOfI:
		if len(s.Members) == 0 {
			return nil, false
		}
		m := rapid.SampledFrom(s.Members).Draw(t, "member")
		o, oenv := model.Resolve(m.Type, env)
		if o == nil {
			return nil, false
		}
		mv, ok := objectFor(t, o, oenv, budget)
		if !ok {
			return nil, false
		}
		mm := mv.(map[string]any)
		if s.Kind == spec.KOneOfI {
			mm[s.Discriminator] = m.KeyI
		} else {
			mm[s.Discriminator] = m.KeyS
		}
		return mm, true
	}
	return nil, false
}

func sizeFor(t *rapid.T, s *spec.Spec, soft int) (int, bool) {
	lo, hi := int64(0), int64(soft)
	if s.Min != nil {
		lo = *s.Min
		if hi < lo {
			hi = lo
		}
	}
	if s.Max != nil && *s.Max < hi {
		hi = *s.Max
	}
	if hi < lo || lo > 64 || hi < 0 {
		return 0, false
	}
	if rapid.IntRange(0, 2).Draw(t, "sizeEdge") == 0 {
		return int(rapid.SampledFrom([]int64{lo, hi}).Draw(t, "sizeE")), true
	}
	return int(rapid.Int64Range(lo, hi).Draw(t, "size")), true
}

func intFor(t *rapid.T, mn, mx *int64) (any, bool) {
	lo, hi := int64(math.MinInt64), int64(math.MaxInt64)
	if mn != nil {
		lo = *mn
	}
	if mx != nil {
		hi = *mx
	}
	if lo > hi {
		return nil, false
	}
	cands := []int64{lo, hi, 0, 1, -1, 2, 10, 60, 100, 255, 256, 1024, 65535, 1 << 31, 1<<31 - 1, -(1 << 31), 1 << 53, 1<<53 + 1, -(1<<53 + 1), math.MaxInt64, math.MinInt64}
	if lo < math.MaxInt64 {
		cands = append(cands, lo+1)
	}
	if hi > math.MinInt64 {
		cands = append(cands, hi-1)
	}
	if rapid.IntRange(0, 2).Draw(t, "intEdge") != 0 {
		var in []int64
		for _, c := range cands {
			if c >= lo && c <= hi {
				in = append(in, c)
			}
		}
		return rapid.SampledFrom(in).Draw(t, "intE"), true
	}
	return rapid.Int64Range(lo, hi).Draw(t, "int"), true
}

func floatFor(t *rapid.T, s *spec.Spec) (any, bool) {
	lo, hi := math.Inf(-1), math.Inf(1)
	if s.FMin != nil {
		lo = *s.FMin
	}
	if s.FMax != nil {
		hi = *s.FMax
	}
	if lo > hi || math.IsNaN(lo) || math.IsNaN(hi) {
		return nil, false
	}
	cands := []float64{lo, hi, 0, math.Copysign(0, -1), 1, -1, 0.5, 0.1, 1.5, 100, 1e10, 1 << 53, 1<<53 + 2, 3.4028234663852886e38, math.MaxFloat64, math.SmallestNonzeroFloat64, math.Nextafter(lo, math.Inf(1)), math.Nextafter(hi, math.Inf(-1)), math.Inf(1), math.Inf(-1)}
	if s.FMin == nil && s.FMax == nil {
		cands = append(cands, math.NaN())
	}
	if rapid.IntRange(0, 2).Draw(t, "floatEdge") != 0 {
		var in []float64
		for _, c := range cands {
			if math.IsNaN(c) || (c >= lo && c <= hi) {
				in = append(in, c)
			}
		}
		return rapid.SampledFrom(in).Draw(t, "floatE"), true
	}
	a, b := lo, hi
	if math.IsInf(a, -1) {
		a = -1e9
	}
	if math.IsInf(b, 1) {
		b = 1e9
	}
	if a > b {
		return lo, true
	}
	return rapid.Float64Range(a, b).Draw(t, "float"), true
}

func stringFor(t *rapid.T, s *spec.Spec) (any, bool) {
	for try := 0; try < 6; try++ {
		var str string
		if s.Pattern != nil {
			str = rapid.StringMatching(*s.Pattern).Draw(t, "strPat")
		} else {
			switch rapid.IntRange(0, 6).Draw(t, "strKind") {
			case 6:
				// multi-byte runes filling a byte length within the bounds: the rune count is smaller than the byte
				// count, possibly below the minimum (lengths are bytes)
				lo, hi := int64(0), int64(12)
				if s.Min != nil && *s.Min > lo {
					lo = *s.Min
				}
				if s.Max != nil && *s.Max < hi {
					hi = *s.Max
				}
				if hi < lo {
					hi = lo
				}
				n := int(rapid.Int64Range(lo, hi).Draw(t, "strBytes"))
				for len(str) < n {
					r := rapid.SampledFrom([]string{"é", "日", "ß", "a", "𝄞"}).Draw(t, "mbRune")
					if len(str)+len(r) > n {
						r = "a"
					}
					str += r
				}
			case 0:
				str = ""
			case 1:
				str = fmt.Sprint(rapid.Int64Range(-100, 100000).Draw(t, "numStr"))
			case 2:
				str = rapid.SampledFrom([]string{"héllo", "日本語", "a b", "tab\there", "yes", "NaN", "5m", "1.500000"}).Draw(t, "fixedStr")
			default:
				n := 0
				lo, hi := int64(0), int64(12)
				if s.Min != nil && *s.Min > lo {
					lo = *s.Min
				}
				if s.Max != nil && *s.Max < hi {
					hi = *s.Max
				}
				if hi >= lo {
					n = int(rapid.Int64Range(lo, hi).Draw(t, "strLen"))
				}
				str = rapid.StringOfN(rapid.RuneFrom([]rune("abcxyzABC019 _-")), n, n, -1).Draw(t, "str")
			}
		}
		if model.Check(s, nil, str) {
			return str, true
		}
		// try to pad / cut to the bounds when there is no pattern
		if s.Pattern == nil {
			if s.Min != nil && int64(len(str)) < *s.Min && *s.Min < 64 {
				str += strings.Repeat("p", int(*s.Min)-len(str))
			}
			if s.Max != nil && int64(len(str)) > *s.Max && *s.Max >= 0 {
				str = strings.ToValidUTF8(str[:*s.Max], "")
				if s.Min != nil && int64(len(str)) < *s.Min {
					str += strings.Repeat("p", int(*s.Min)-len(str))
				}
			}
			if model.Check(s, nil, str) {
				return str, true
			}
		}
	}
	return nil, false
}

func anyValue(t *rapid.T, depth int) any {
	k := rapid.IntRange(0, 7).Draw(t, "anyKind")
	if depth <= 0 && k >= 5 {
		k = k % 5
	}
	switch k {
	case 0:
		v, _ := intFor(t, nil, nil)
		return v
	case 1:
		return rapid.SampledFrom([]float64{0, 1.5, -2.25, 1e100, math.Inf(1), 3}).Draw(t, "anyF")
	case 2:
		return rapid.SampledFrom([]string{"", "s", "42", "héllo"}).Draw(t, "anyS")
	case 3:
		return rapid.Bool().Draw(t, "anyB")
	case 4:
		return int64(rapid.IntRange(-3, 300).Draw(t, "anySmall"))
	case 5:
		n := rapid.IntRange(0, 3).Draw(t, "anyLen")
		out := make([]any, n)
		for i := range out {
			out[i] = anyValue(t, depth-1)
		}
		return out
	default:
		n := rapid.IntRange(0, 3).Draw(t, "anyMapLen")
		out := map[any]any{}
		intKeys := rapid.IntRange(0, 3).Draw(t, "anyIntKeys") == 0
		for i := 0; i < n; i++ {
			var key any
			if intKeys {
				key = int64(rapid.IntRange(-5, 5).Draw(t, "anyKeyI"))
			} else {
				key = rapid.SampledFrom([]string{"a", "b", "c", "1", ""}).Draw(t, "anyKeyS")
			}
			out[key] = anyValue(t, depth-1)
		}
		return out
	}
}

// objectFor draws the supplied properties of an object so that the presence rules hold after defaulting.
func objectFor(t *rapid.T, o *spec.Spec, env *model.Env, budget int) (any, bool) {
	n := len(o.Props)
	hasDefault := make([]bool, n)
	for i := range o.Props {
		_, hasDefault[i] = model.DefaultRaw(&o.Props[i])
	}
	for try := 0; try < 8; try++ {
		supplied := map[string]bool{}
		for i := range o.Props {
			p := &o.Props[i]
			if p.Disabled {
				continue
			}
			want := p.Required && !hasDefault[i]
			if !want && budget <= -2 {
				switch p.Type.Kind {
				case spec.KObject, spec.KRef, spec.KScope, spec.KList, spec.KMap, spec.KOneOfS, spec.KOneOfI, spec.KAny:
					// far below the size budget only what the rules demand is generated: optional members that can
					// hold objects would keep cyclic object graphs growing (the draw below favours "supply")
					continue
				}
			}
			if !want {
				prob := 2
				if budget <= 0 {
					prob = 5
				}
				want = rapid.IntRange(0, prob).Draw(t, "supply") == 0
			}
			if want {
				supplied[p.Name] = true
			}
		}
		present := func(name string) bool {
			if supplied[name] {
				return true
			}
			for i := range o.Props {
				if o.Props[i].Name == name && hasDefault[i] {
					return true
				}
			}
			return false
		}
		if !model.PresenceOK(o, present) {
			// repair pass: add what is required, drop conflicts
			for i := range o.Props {
				p := &o.Props[i]
				if p.Disabled {
					continue
				}
				if !present(p.Name) {
					need := p.Required
					for _, r := range p.RequiredIf {
						if present(r) {
							need = true
						}
					}
					if len(p.RequiredIfNot) > 0 {
						anySet := false
						for _, r := range p.RequiredIfNot {
							if present(r) {
								anySet = true
							}
						}
						if !anySet {
							need = true
						}
					}
					if need {
						supplied[p.Name] = true
					}
				}
			}
			if !model.PresenceOK(o, present) {
				continue
			}
		}
		out := map[string]any{}
		ok := true
		for i := range o.Props {
			p := &o.Props[i]
			if !supplied[p.Name] {
				continue
			}
			v, vok := ValueFor(t, p.Type, env, budget-1)
			if !vok {
				ok = false
				break
			}
			out[p.Name] = v
		}
		if ok {
			return out, true
		}
	}
	return nil, false
}

// ---------------------------------------------------------------------------------------------------------------
// Rendering: a model value in an arbitrary raw representation that denotes it.

// Rendered is a raw value description with bookkeeping for the non-triviality rules.
type Rendered struct {
	V            val.V
	NonCanonical bool // some leaf/container used a representation other than int64/float64/string/bool/[]any/map[string]any
}

type renderer struct {
	t        *rapid.T
	nonCanon bool
	// Canonical forces the canonical representation everywhere (int64/float64/string/bool/[]any/map[string]any|map[any]any)
	canonical bool
}

// Render draws a representation of mv for schema s.
func Render(t *rapid.T, s *spec.Spec, env *model.Env, mv any) Rendered {
	r := &renderer{t: t}
	v := r.render(s, env, mv)
	return Rendered{V: v, NonCanonical: r.nonCanon}
}

// RenderCanonical renders without representation games.
func RenderCanonical(t *rapid.T, s *spec.Spec, env *model.Env, mv any) val.V {
	r := &renderer{t: t, canonical: true}
	return r.render(s, env, mv)
}

func (r *renderer) pick(label string, n int) int {
	if r.canonical {
		return 0
	}
	k := rapid.IntRange(0, n-1).Draw(r.t, label)
	return k
}

// UnitString renders a non-negative integer as a unit sentence of the definition.
func UnitString(t *rapid.T, d *units.Def, x int64) (string, bool) {
	if x < 0 {
		return "", false
	}
	var sb strings.Builder
	rem := x
	nameIdx := rapid.IntRange(0, 3).Draw(t, "unitName")
	sep := rapid.SampledFrom([]string{"", "", " "}).Draw(t, "unitSep")
	for _, m := range d.Sorted() {
		c := rem / m.M
		rem -= c * m.M
		if c != 0 {
			fmt.Fprintf(&sb, "%d%s%s%s", c, sep, m.N[nameIdx], sep)
		}
	}
	if rem != 0 || sb.Len() == 0 {
		fmt.Fprintf(&sb, "%d%s%s", rem, sep, d.Base[nameIdx])
	}
	str := sb.String()
	// only keep it if the reference parser reads it back uniquely as x
	rs := d.ParseAll(str)
	if len(rs) != 1 || rs[0].Decimal || !rs[0].Value.IsInt() || !rs[0].Value.Num().IsInt64() || rs[0].Value.Num().Int64() != x {
		return "", false
	}
	return str, true
}

func (r *renderer) renderInt(x int64, u *units.Def) val.V {
	for {
		switch r.pick("intRep", 14) {
		case 0:
			return val.Int("int64", x)
		case 1:
			if x >= math.MinInt32 && x <= math.MaxInt32 {
				r.nonCanon = true
				return val.Int("int32", x)
			}
		case 2:
			r.nonCanon = true
			return val.Int("int", x)
		case 3:
			if x >= 0 {
				r.nonCanon = true
				return val.Uint("uint64", uint64(x))
			}
		case 4:
			if x >= 0 && x <= 255 {
				r.nonCanon = true
				return val.Uint("uint8", uint64(x))
			}
		case 5:
			if x >= math.MinInt16 && x <= math.MaxInt16 {
				r.nonCanon = true
				return val.Int("int16", x)
			}
		case 6:
			if x >= -(1<<53) && x <= 1<<53 {
				r.nonCanon = true
				return val.Float("float64", float64(x))
			}
		case 7:
			if float64(float32(x)) == float64(x) && x > -(1<<24) && x < 1<<24 {
				r.nonCanon = true
				return val.Float("float32", float64(x))
			}
		case 8:
			r.nonCanon = true
			if u != nil {
				// with units a bare number means base units
				if x < 0 {
					continue
				}
			}
			return val.Str(strconv.FormatInt(x, 10))
		case 9:
			if u != nil {
				if s, ok := UnitString(r.t, u, x); ok {
					r.nonCanon = true
					return val.Str(s)
				}
			} else if x >= 0 {
				r.nonCanon = true
				return val.Str("+" + strconv.FormatInt(x, 10))
			}
		case 10:
			if x >= 0 && x <= math.MaxUint32 {
				r.nonCanon = true
				return val.Uint("uint32", uint64(x))
			}
		case 11:
			if x >= 0 {
				r.nonCanon = true
				return val.Uint("uint", uint64(x))
			}
		case 12:
			if x >= math.MinInt8 && x <= math.MaxInt8 {
				r.nonCanon = true
				return val.Int("int8", x)
			}
		case 13:
			if x >= 0 && x <= math.MaxUint16 {
				r.nonCanon = true
				return val.Uint("uint16", uint64(x))
			}
		}
	}
}

func (r *renderer) renderFloat(f float64, u *units.Def) val.V {
	for {
		switch r.pick("floatRep", 8) {
		case 0:
			return val.Float("float64", f)
		case 1:
			if float64(float32(f)) == f || math.IsNaN(f) {
				r.nonCanon = true
				return val.Float("float32", f)
			}
		case 2:
			if f == math.Trunc(f) && math.Abs(f) < 1<<62 && !(f == 0 && math.Signbit(f)) {
				r.nonCanon = true
				return val.Int("int64", int64(f))
			}
		case 3:
			if f == math.Trunc(f) && f >= 0 && f < 1<<62 {
				r.nonCanon = true
				return val.Uint("uint64", uint64(f))
			}
		case 4:
			if u == nil {
				r.nonCanon = true
				return val.Str(strconv.FormatFloat(f, 'g', -1, 64))
			}
			// with units: a bare decimal number means base units; only plain non-negative decimals are sentences
			if f >= 0 && f < 1e15 && !math.IsInf(f, 0) && !(f == 0 && math.Signbit(f)) {
				s := strconv.FormatFloat(f, 'f', -1, 64)
				if rs := u.ParseAll(s); len(rs) == 1 {
					if g, _ := rs[0].Value.Float64(); g == f {
						r.nonCanon = true
						return val.Str(s)
					}
				}
			}
		case 5:
			if f == math.Trunc(f) && math.Abs(f) < 1<<31 && !(f == 0 && math.Signbit(f)) {
				r.nonCanon = true
				return val.Int("int", int64(f))
			}
		case 6:
			if u != nil && f == math.Trunc(f) && f >= 0 && f < 1<<53 {
				if s, ok := UnitString(r.t, u, int64(f)); ok {
					r.nonCanon = true
					return val.Str(s)
				}
			}
		case 7:
			if u == nil && f == math.Trunc(f) && math.Abs(f) < 1e15 {
				r.nonCanon = true
				return val.Str(strconv.FormatFloat(f, 'e', -1, 64))
			}
		}
	}
}

var decimalRe = regexp.MustCompile(`^(0|-?[1-9][0-9]{0,17})$`)

func (r *renderer) renderString(s string) val.V {
	if !r.canonical && decimalRe.MatchString(s) && rapid.IntRange(0, 2).Draw(r.t, "strAsInt") == 0 {
		i, _ := strconv.ParseInt(s, 10, 64)
		r.nonCanon = true
		if i >= 0 && rapid.Bool().Draw(r.t, "strAsUint") {
			return val.Uint("uint64", uint64(i))
		}
		return val.Int(rapid.SampledFrom([]string{"int64", "int"}).Draw(r.t, "strIntT"), i)
	}
	return val.Str(s)
}

var trueWords = []string{"true", "yes", "y", "on", "1", "enable", "enabled", "TRUE", "Yes", "On", "Enabled"}
var falseWords = []string{"false", "no", "n", "off", "0", "disable", "disabled", "FALSE", "No", "OFF", "Disabled"}

func (r *renderer) renderBool(b bool) val.V {
	switch r.pick("boolRep", 4) {
	case 1:
		r.nonCanon = true
		if b {
			return val.Str(rapid.SampledFrom(trueWords).Draw(r.t, "trueWord"))
		}
		return val.Str(rapid.SampledFrom(falseWords).Draw(r.t, "falseWord"))
	case 2:
		r.nonCanon = true
		x := int64(0)
		if b {
			x = 1
		}
		return val.Int(rapid.SampledFrom([]string{"int64", "int", "int8", "int32"}).Draw(r.t, "boolIntT"), x)
	case 3:
		r.nonCanon = true
		x := uint64(0)
		if b {
			x = 1
		}
		return val.Uint(rapid.SampledFrom([]string{"uint64", "uint8", "uint"}).Draw(r.t, "boolUintT"), x)
	}
	return val.Bool(b)
}

func allT(l []val.V, t string) bool {
	for _, e := range l {
		if e.T != t {
			return false
		}
	}
	return true
}

func (r *renderer) listOf(l []val.V) val.V {
	if !r.canonical && len(l) > 0 {
		for _, tt := range []string{"int64", "int", "string", "float64", "bool", "uint8"} {
			if allT(l, tt) && rapid.IntRange(0, 1).Draw(r.t, "typedSlice") == 0 {
				r.nonCanon = true
				return val.V{T: "[]" + tt, L: l}
			}
		}
		if allT(l, "map[string]any") && rapid.IntRange(0, 2).Draw(r.t, "typedSliceOfMaps") == 0 {
			r.nonCanon = true
			return val.V{T: "[]map[string]any", L: l}
		}
	}
	return val.V{T: "[]any", L: l}
}

func (r *renderer) mapOf(m []val.KV) val.V {
	allStr, allInt64 := true, true
	for _, e := range m {
		if e.K.T != "string" {
			allStr = false
		}
		if e.K.T != "int64" {
			allInt64 = false
		}
	}
	if r.canonical {
		if allStr {
			return val.V{T: "map[string]any", M: m}
		}
		return val.V{T: "map[any]any", M: m}
	}
	k := rapid.IntRange(0, 3).Draw(r.t, "mapRep")
	switch {
	case k == 0 && allStr:
		return val.V{T: "map[string]any", M: m}
	case k == 1 && allInt64 && len(m) > 0:
		r.nonCanon = true
		return val.V{T: "map[int64]any", M: m}
	case k == 2 && allStr && len(m) > 0:
		vs := make([]val.V, len(m))
		for i := range m {
			vs[i] = m[i].V
		}
		if allT(vs, "string") {
			r.nonCanon = true
			return val.V{T: "map[string]string", M: m}
		}
		if allT(vs, "int64") {
			r.nonCanon = true
			return val.V{T: "map[string]int64", M: m}
		}
	}
	r.nonCanon = true
	return val.V{T: "map[any]any", M: m}
}

func (r *renderer) render(s *spec.Spec, env *model.Env, mv any) val.V {
	switch s.Kind {
	case spec.KInt, spec.KEnumI:
		return r.renderInt(mv.(int64), s.Units)
	case spec.KFloat:
		return r.renderFloat(mv.(float64), s.Units)
	case spec.KString, spec.KEnumS, spec.KTypedEnumS:
		return r.renderString(mv.(string))
	case spec.KBool:
		return r.renderBool(mv.(bool))
	case spec.KPattern:
		return val.Str(mv.(model.Pat).Src)
	case spec.KList:
		l := mv.([]any)
		out := make([]val.V, len(l))
		for i := range l {
			out[i] = r.render(s.Items, env, l[i])
		}
		return r.listOf(out)
	case spec.KMap:
		m := mv.(map[any]any)
		var kvs []val.KV
		for _, k := range sortedKeys(m) {
			kv := r.render(s.Keys, env, k)
			// keep map keys in a representation that cannot collide with another key
			if kv.T != "string" && kv.T != "int64" {
				kv = r.canonKey(k)
			}
			kvs = append(kvs, val.KV{K: kv, V: r.render(s.Values, env, m[k])})
		}
		return r.mapOf(kvs)
	case spec.KAny:
		return r.renderAny(mv)
	case spec.KObject, spec.KRef, spec.KScope:
		o, oenv := model.Resolve(s, env)
		return r.renderObject(o, oenv, mv.(map[string]any), "")
	case spec.KOneOfS, spec.KOneOfI:
		m := mv.(map[string]any)
		d := m[s.Discriminator]
		for j := range s.Members {
			if (s.Kind == spec.KOneOfI && d == any(s.Members[j].KeyI)) || (s.Kind == spec.KOneOfS && d == any(s.Members[j].KeyS)) {
				o, oenv := model.Resolve(s.Members[j].Type, env)
				v := r.renderObject(o, oenv, m, s.Discriminator)
				var dv val.V
				if s.Kind == spec.KOneOfI {
					dv = r.renderInt(d.(int64), nil)
				} else {
					dv = r.renderString(d.(string))
				}
				v.M = append(v.M, val.KV{K: val.Str(s.Discriminator), V: dv})
				if v.T != "map[string]any" && v.T != "map[any]any" {
					v.T = "map[any]any"
				}
				return v
			}
		}
	}
	return val.Describe(mv)
}

func (r *renderer) canonKey(k any) val.V {
	switch t := k.(type) {
	case int64:
		return val.Int("int64", t)
	case string:
		return val.Str(t)
	}
	return val.Describe(k)
}

func sortedKeys(m map[any]any) []any {
	var ks []any
	for k := range m {
		ks = append(ks, k)
	}
	sortAny(ks)
	return ks
}

func sortAny(ks []any) {
	for i := 1; i < len(ks); i++ {
		for j := i; j > 0 && fmt.Sprintf("%T%v", ks[j], ks[j]) < fmt.Sprintf("%T%v", ks[j-1], ks[j-1]); j-- {
			ks[j], ks[j-1] = ks[j-1], ks[j]
		}
	}
}

func (r *renderer) renderObject(o *spec.Spec, env *model.Env, m map[string]any, skipKey string) val.V {
	var names []string
	for k := range m {
		if k != skipKey {
			names = append(names, k)
		}
	}
	for i := 1; i < len(names); i++ {
		for j := i; j > 0 && names[j] < names[j-1]; j-- {
			names[j], names[j-1] = names[j-1], names[j]
		}
	}
	// single-property shorthand
	if skipKey == "" && len(o.Props) == 1 && len(names) == 1 && !r.canonical && rapid.IntRange(0, 3).Draw(r.t, "shorthand") == 0 {
		p := o.PropByName(names[0])
		if p != nil {
			v := r.render(p.Type, env, m[names[0]])
			if !strings.HasPrefix(v.T, "map") {
				r.nonCanon = true
				return v
			}
		}
	}
	var kvs []val.KV
	for _, n := range names {
		p := o.PropByName(n)
		if p == nil {
			kvs = append(kvs, val.KV{K: val.Str(n), V: val.Describe(m[n])})
			continue
		}
		kvs = append(kvs, val.KV{K: val.Str(n), V: r.render(p.Type, env, m[n])})
	}
	if r.canonical || rapid.Bool().Draw(r.t, "objAsStringMap") {
		return val.V{T: "map[string]any", M: kvs}
	}
	r.nonCanon = true
	return val.V{T: "map[any]any", M: kvs}
}

func (r *renderer) renderAny(mv any) val.V {
	switch t := mv.(type) {
	case int64:
		if r.canonical {
			return val.Int("int64", t)
		}
		switch rapid.IntRange(0, 4).Draw(r.t, "anyIntRep") {
		case 0:
			if t >= 0 {
				r.nonCanon = true
				return val.Uint("uint64", uint64(t))
			}
		case 1:
			r.nonCanon = true
			return val.Int("int", t)
		case 2:
			if t >= 0 && t < 256 {
				r.nonCanon = true
				return val.Uint("uint8", uint64(t))
			}
		}
		return val.Int("int64", t)
	case float64:
		if !r.canonical && float64(float32(t)) == t && rapid.IntRange(0, 2).Draw(r.t, "anyF32") == 0 {
			r.nonCanon = true
			return val.Float("float32", t)
		}
		return val.Float("float64", t)
	case string:
		return val.Str(t)
	case bool:
		return val.Bool(t)
	case []any:
		out := make([]val.V, len(t))
		for i := range t {
			out[i] = r.renderAny(t[i])
		}
		return r.listOf(out)
	case map[any]any:
		var kvs []val.KV
		for _, k := range sortedKeys(t) {
			kvs = append(kvs, val.KV{K: r.canonKey(k), V: r.renderAny(t[k])})
		}
		return r.mapOf(kvs)
	}
	return val.Describe(mv)
}
