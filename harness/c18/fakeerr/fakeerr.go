// Package fakeerr declares a non-interface type whose name is "error".
package fakeerr

type error struct{ S string }

// Value is a value of the struct type named "error".
var Value = error{S: "not an error interface"}
