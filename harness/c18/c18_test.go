package c18

import (
	"encoding/json"
	"errors"
	"fmt"
	"reflect"
	"regexp"
	"strings"
	"testing"

	"go.flow.arcalot.io/pluginsdk/schema"
	"pgregory.net/rapid"
	"verif/harness/c18/fakeerr"
	"verif/harness/c18/fakeerr2"
	"verif/harness/ev"
)

func TestMain(m *testing.M) {
	ev.Note("rule", "C18: handler values of arbitrary signature are created at run time (reflect.FuncOf+MakeFunc): 0-3 parameters from the native types of all scalar/list/map/any schemas plus near-miss types, optional variadic last parameter, 14 result shapes (none, value, error, value+error, extra results, error first, a struct type named 'error', a different interface named 'error', a concrete type implementing error). Declarations (inputs, output, outputsError) are drawn independently and also derived from the signature and then changed in one position. Oracle: acceptance predicate from the doc comment (NumIn==len(inputs), In(i)==inputs[i].ReflectedType(), results == [output.ReflectedType()]? ++ [predeclared error]?); accepted functions are called with every argument count 0..4 and scripted results. The <=1-parameter matrix over the full pools and the 2-parameter matrix over a 6-type pool are enumerated; 3 parameters are sampled. Non-trivial: the pair differs from an accepted pair in at most one position (so it is accepted or a near-miss), or it is an accepted function called with a wrong arity; distinct by (signature, declaration, call).")
	ev.RegisterReplay("pair", func(t *testing.T, raw json.RawMessage) {
		var c pairCase
		if err := json.Unmarshal(raw, &c); err != nil {
			t.Fatal(err)
		}
		if msg := runPair(c); msg != "" {
			t.Fatal(msg)
		}
	})
	ev.Main(m, "C18")
}

func TestReplay(t *testing.T) { ev.RunReplay(t) }

type myStr string
type myErr struct{}

func (*myErr) Error() string { return "myErr" }

var errorIface = reflect.TypeOf((*error)(nil)).Elem()
var anyIface = reflect.TypeOf((*any)(nil)).Elem()

// goTypes: name -> reflect.Type (parameter / value result types)
var goTypes = map[string]reflect.Type{
	"int64":            reflect.TypeOf(int64(0)),
	"float64":          reflect.TypeOf(float64(0)),
	"string":           reflect.TypeOf(""),
	"bool":             reflect.TypeOf(false),
	"*regexp.Regexp":   reflect.TypeOf(&regexp.Regexp{}),
	"[]int64":          reflect.TypeOf([]int64{}),
	"[]string":         reflect.TypeOf([]string{}),
	"map[string]int64": reflect.TypeOf(map[string]int64{}),
	"map[int64]string": reflect.TypeOf(map[int64]string{}),
	"any":              anyIface,
	// near misses: not the native type of any schema in the pool
	"int":            reflect.TypeOf(int(0)),
	"int32":          reflect.TypeOf(int32(0)),
	"[]any":          reflect.TypeOf([]any{}),
	"myStr":          reflect.TypeOf(myStr("")),
	"map[string]any": reflect.TypeOf(map[string]any{}),
}
var goTypeNames = []string{"int64", "float64", "string", "bool", "*regexp.Regexp", "[]int64", "[]string", "map[string]int64", "map[int64]string", "any", "int", "int32", "[]any", "myStr", "map[string]any"}
var smallTypeNames = []string{"int64", "string", "[]int64", "any", "int", "myStr"}

// result-only types
var resultTypes = map[string]reflect.Type{
	"error":       errorIface,
	"fakeerr":     reflect.TypeOf(fakeerr.Value),
	"fakeerr2":    reflect.TypeOf(fakeerr2.Ptr).Elem(),
	"*myErr":      reflect.TypeOf(&myErr{}),
	"fmt.Stringer": reflect.TypeOf((*fmt.Stringer)(nil)).Elem(),
}

func typeByName(n string) reflect.Type {
	if t, ok := goTypes[n]; ok {
		return t
	}
	return resultTypes[n]
}

var intEnum = func() schema.Type {
	return schema.NewIntEnumSchema(map[int64]*schema.DisplayValue{1: nil, 2: nil}, nil)
}
var schemaPool = map[string]func() schema.Type{
	"integer":     func() schema.Type { return schema.NewIntSchema(nil, nil, nil) },
	"float":       func() schema.Type { return schema.NewFloatSchema(nil, nil, nil) },
	"string":      func() schema.Type { return schema.NewStringSchema(nil, nil, nil) },
	"bool":        func() schema.Type { return schema.NewBoolSchema() },
	"pattern":     func() schema.Type { return schema.NewPatternSchema() },
	"enum_string": func() schema.Type { return schema.NewStringEnumSchema(map[string]*schema.DisplayValue{"a": nil}) },
	"enum_integer": intEnum,
	"list[integer]": func() schema.Type { return schema.NewListSchema(schema.NewIntSchema(nil, nil, nil), nil, nil) },
	"list[string]":  func() schema.Type { return schema.NewListSchema(schema.NewStringSchema(nil, nil, nil), nil, nil) },
	"map[string,integer]": func() schema.Type {
		return schema.NewMapSchema(schema.NewStringSchema(nil, nil, nil), schema.NewIntSchema(nil, nil, nil), nil, nil)
	},
	"map[integer,string]": func() schema.Type {
		return schema.NewMapSchema(schema.NewIntSchema(nil, nil, nil), schema.NewStringSchema(nil, nil, nil), nil, nil)
	},
	"any": func() schema.Type { return schema.NewAnySchema() },
}
var schemaNames = []string{"integer", "float", "string", "bool", "pattern", "enum_string", "enum_integer", "list[integer]", "list[string]", "map[string,integer]", "map[integer,string]", "any"}
var smallSchemaNames = []string{"integer", "string", "list[integer]", "any", "enum_string"}

// schemaFor gives the schema name whose native type is the Go type (for deriving a matching declaration).
var schemaFor = map[string][]string{
	"int64": {"integer", "enum_integer"}, "float64": {"float"}, "string": {"string", "enum_string"}, "bool": {"bool"},
	"*regexp.Regexp": {"pattern"}, "[]int64": {"list[integer]"}, "[]string": {"list[string]"},
	"map[string]int64": {"map[string,integer]"}, "map[int64]string": {"map[integer,string]"}, "any": {"any"},
}

type pairCase struct {
	Params   []string `json:"params"`
	Variadic bool     `json:"variadic"`
	Results  []string `json:"results"`
	Inputs   []string `json:"inputs"`
	Output   string   `json:"output"` // "" = nil
	OutErr   bool     `json:"outputs_error"`
	Dynamic  bool     `json:"dynamic"`
	// scripted behaviour of a call
	ReturnErr bool `json:"return_err"`
	// ErrKind: which error the handler returns when ReturnErr is set: 0/1 a plain error, 2 an error that IS a
	// *schema.FunctionCallError marked "not function-reported" (what a handler gets back from calling another
	// function with the wrong number of arguments and passes on), 3 such an error wrapped with context
	ErrKind int `json:"err_kind,omitempty"`
}

func handlerError(kind int) error {
	switch kind {
	case 2:
		return innerCallErr
	case 3:
		return wrappedCallErr
	}
	return scriptedErr
}

var resultShapes = [][]string{
	{}, {"V"}, {"error"}, {"V", "error"}, {"V", "V"}, {"error", "V"}, {"fakeerr"}, {"V", "fakeerr"}, {"fakeerr2"},
	{"V", "fakeerr2"}, {"*myErr"}, {"V", "*myErr"}, {"V", "V", "error"}, {"error", "error"}, {"any", "error"}, {"fmt.Stringer", "error"},
}

var scriptedErr = errors.New("scripted handler error")
var innerCallErr error = schema.NewFunctionCallError(errors.New("inner function called with 1 argument, 2 declared"), false)
var wrappedCallErr = fmt.Errorf("while computing the result: %w", innerCallErr)

func sampleValue(tn string, k int) reflect.Value {
	switch tn {
	case "int64":
		return reflect.ValueOf(int64(40 + k))
	case "float64":
		return reflect.ValueOf(1.5 + float64(k))
	case "string":
		return reflect.ValueOf(fmt.Sprintf("s%d", k))
	case "bool":
		return reflect.ValueOf(k%2 == 0)
	case "*regexp.Regexp":
		return reflect.ValueOf(regexp.MustCompile(fmt.Sprintf("^a{%d}$", k+1)))
	case "[]int64":
		return reflect.ValueOf([]int64{int64(k), 2, 3})
	case "[]string":
		return reflect.ValueOf([]string{"x", fmt.Sprint(k)})
	case "map[string]int64":
		return reflect.ValueOf(map[string]int64{"k": int64(k)})
	case "map[int64]string":
		return reflect.ValueOf(map[int64]string{int64(k): "v"})
	case "any":
		v := reflect.New(anyIface).Elem()
		v.Set(reflect.ValueOf(map[string]any{"n": int64(k)}))
		return v
	case "int":
		return reflect.ValueOf(k)
	case "int32":
		return reflect.ValueOf(int32(k))
	case "[]any":
		return reflect.ValueOf([]any{int64(k)})
	case "myStr":
		return reflect.ValueOf(myStr("m"))
	case "map[string]any":
		return reflect.ValueOf(map[string]any{"a": int64(k)})
	case "fmt.Stringer":
		v := reflect.New(typeByName(tn)).Elem()
		v.Set(reflect.ValueOf(reflect.ValueOf(0)))
		return v
	}
	panic("no sample for " + tn)
}

// valueOfKind varies the representation of a value of the named type: 0 the sample, 1 the zero value of the static
// type (nil slice / map / pointer / interface, 0, ""), 2 an allocated but empty container (the sample for types that
// have none).
func valueOfKind(tn string, k int, kind int) reflect.Value {
	t := typeByName(tn)
	switch kind {
	case 1:
		return reflect.Zero(t)
	case 2:
		switch t.Kind() {
		case reflect.Slice:
			return reflect.MakeSlice(t, 0, 0)
		case reflect.Map:
			return reflect.MakeMap(t)
		}
	}
	return sampleValue(tn, k)
}

func safely(f func()) (p any) {
	defer func() {
		if e := recover(); e != nil {
			p = e
		}
	}()
	f()
	return nil
}

func runPair(c pairCase) string {
	// ---- build the handler
	in := make([]reflect.Type, len(c.Params))
	for i, p := range c.Params {
		in[i] = typeByName(p)
	}
	variadic := c.Variadic && len(in) > 0 && in[len(in)-1].Kind() == reflect.Slice
	out := make([]reflect.Type, len(c.Results))
	for i, r := range c.Results {
		out[i] = typeByName(r)
	}
	ft := reflect.FuncOf(in, out, variadic)
	calls := 0
	var seenArgs []reflect.Value
	returnErr := c.ReturnErr
	valKind := 0
	handler := reflect.MakeFunc(ft, func(args []reflect.Value) []reflect.Value {
		calls++
		seenArgs = args
		res := make([]reflect.Value, len(out))
		for i, rn := range c.Results {
			switch rn {
			case "error":
				v := reflect.New(errorIface).Elem()
				if returnErr {
					v.Set(reflect.ValueOf(handlerError(c.ErrKind)))
				}
				res[i] = v
			case "fakeerr":
				res[i] = reflect.ValueOf(fakeerr.Value)
			case "fakeerr2":
				v := reflect.New(out[i]).Elem()
				if returnErr {
					v.Set(reflect.ValueOf(fakeerr2.Value))
				}
				res[i] = v
			case "*myErr":
				if returnErr {
					res[i] = reflect.ValueOf(&myErr{})
				} else {
					res[i] = reflect.Zero(out[i])
				}
			default:
				res[i] = valueOfKind(rn, 7+i, valKind)
			}
		}
		return res
	})

	// ---- declaration
	inputs := make([]schema.Type, len(c.Inputs))
	for i, n := range c.Inputs {
		inputs[i] = schemaPool[n]()
	}
	var output schema.Type
	if c.Output != "" {
		output = schemaPool[c.Output]()
	}

	// ---- oracle: acceptance
	var expected, unspecified bool
	paramsOK := len(in) == len(inputs)
	if paramsOK {
		for i := range in {
			if in[i] != inputs[i].ReflectedType() {
				paramsOK = false
			}
		}
	}
	if c.Dynamic {
		expected = paramsOK && len(out) == 2 && out[1] == errorIface && out[0] == anyIface
		// a first result of another interface type: the doc says "any"; the code checks Kind()==Interface. Not judged.
		if paramsOK && len(out) == 2 && out[1] == errorIface && out[0] != anyIface && out[0].Kind() == reflect.Interface {
			unspecified = true
		}
	} else {
		var want []reflect.Type
		if output != nil {
			want = append(want, output.ReflectedType())
		}
		if c.OutErr {
			want = append(want, errorIface)
		}
		expected = paramsOK && len(want) == len(out)
		if expected {
			for i := range want {
				if want[i] != out[i] {
					expected = false
				}
			}
		}
	}

	var fn schema.CallableFunction
	var err error
	if p := safely(func() {
		if c.Dynamic {
			fn, err = schema.NewDynamicCallableFunction("f", inputs, nil, handler.Interface(), func(_ []schema.Type) (schema.Type, error) {
				return schema.NewAnySchema(), nil
			})
		} else {
			fn, err = schema.NewCallableFunction("f", inputs, output, c.OutErr, nil, handler.Interface())
		}
	}); p != nil {
		return fmt.Sprintf("constructor panicked for handler %s vs declaration %s: %v", ft, declString(c), p)
	}
	if unspecified {
		ev.Class("unspecified_dynamic_nonempty_interface", 1)
		return ""
	}
	if expected && err != nil {
		return fmt.Sprintf("handler %s agrees with declaration %s but was rejected: %v", ft, declString(c), err)
	}
	if !expected && err == nil {
		return fmt.Sprintf("handler %s does not agree with declaration %s but was accepted", ft, declString(c))
	}
	if err != nil {
		return ""
	}

	// ---- calls with every argument count
	for kk := 0; kk <= 6; kk++ {
		// every argument count; the declared count three times, with sample values, zero values (nil containers and
		// pointers) and empty containers as arguments and as the handler's result
		k := kk
		valKind = 0
		if kk > 4 {
			k, valKind = len(in), kk-4
		}
		args := make([]any, k)
		for i := 0; i < k; i++ {
			tn := "int64"
			if i < len(c.Params) {
				tn = c.Params[i]
			}
			av := valueOfKind(tn, i, valKind)
			if k := av.Kind(); (k == reflect.Interface || k == reflect.Pointer) && av.IsNil() {
				// nil is no value of the any and pattern schemas: outside "arguments of the declared types"
				av = sampleValue(tn, i)
			}
			args[i] = av.Interface()
		}
		calls = 0
		seenArgs = nil
		var res any
		var cerr error
		if p := safely(func() { res, cerr = fn.Call(args) }); p != nil {
			return fmt.Sprintf("Call with %d argument(s) on accepted handler %s panicked: %v", k, ft, p)
		}
		if k != len(in) {
			var fce *schema.FunctionCallError
			if cerr == nil || !errors.As(cerr, &fce) || fce.IsFunctionReportedError {
				return fmt.Sprintf("Call with %d argument(s) on %s (declared %d): want a call-shape error (not function-reported), got (%v, %v)", k, ft, len(in), res, cerr)
			}
			if calls != 0 {
				return fmt.Sprintf("Call with %d argument(s) on %s invoked the handler", k, ft)
			}
			continue
		}
		if calls != 1 {
			return fmt.Sprintf("Call on %s invoked the handler %d times", ft, calls)
		}
		for i := range args {
			if !reflect.DeepEqual(seenArgs[i].Interface(), args[i]) {
				return fmt.Sprintf("Call on %s: handler saw argument %d = %#v, want %#v", ft, i, seenArgs[i].Interface(), args[i])
			}
		}
		hasErr := c.Dynamic || c.OutErr
		hasVal := c.Dynamic || output != nil
		if hasErr && returnErr {
			var fce *schema.FunctionCallError
			if cerr == nil || !errors.As(cerr, &fce) || !fce.IsFunctionReportedError || fce.SourceError != handlerError(c.ErrKind) {
				return fmt.Sprintf("Call on %s: handler returned the error %#v; want a function-reported FunctionCallError whose source is exactly that error, got (%v, %#v)", ft, handlerError(c.ErrKind), res, cerr)
			}
			continue
		}
		if cerr != nil {
			return fmt.Sprintf("Call on %s with the declared arguments failed: %v", ft, cerr)
		}
		if hasVal {
			want := valueOfKind(c.Results[0], 7, valKind).Interface()
			ev.Class(fmt.Sprintf("result_representation:%d", valKind), 1)
			if !reflect.DeepEqual(res, want) && !(c.Results[0] == "*regexp.Regexp" && res != nil && res.(*regexp.Regexp).String() == want.(*regexp.Regexp).String()) {
				return fmt.Sprintf("Call on %s returned %#v, handler returned %#v", ft, res, want)
			}
		} else if res != nil {
			return fmt.Sprintf("Call on void %s returned %#v", ft, res)
		}
	}
	return ""
}

func declString(c pairCase) string {
	if c.Dynamic {
		return fmt.Sprintf("dynamic(%s)", strings.Join(c.Inputs, ", "))
	}
	o := c.Output
	if o == "" {
		o = "void"
	}
	return fmt.Sprintf("(%s) -> %s, outputsError=%v", strings.Join(c.Inputs, ", "), o, c.OutErr)
}

// distance counts in how many positions the pair differs from an accepted pair (approximation used only for the
// non-triviality rule): parameter count difference + mismatching parameter types + result-shape mismatch.
func distance(c pairCase) int {
	d := 0
	n := len(c.Params)
	if len(c.Inputs) != n {
		d += abs(len(c.Inputs) - n)
		if len(c.Inputs) < n {
			n = len(c.Inputs)
		}
	}
	for i := 0; i < n; i++ {
		if typeByName(c.Params[i]) != schemaPool[c.Inputs[i]]().ReflectedType() {
			d++
		}
	}
	var want []reflect.Type
	if c.Dynamic {
		want = []reflect.Type{anyIface, errorIface}
	} else {
		if c.Output != "" {
			want = append(want, schemaPool[c.Output]().ReflectedType())
		}
		if c.OutErr {
			want = append(want, errorIface)
		}
	}
	if len(want) != len(c.Results) {
		d += abs(len(want) - len(c.Results))
	}
	for i := 0; i < len(want) && i < len(c.Results); i++ {
		if want[i] != typeByName(c.Results[i]) {
			d++
		}
	}
	return d
}

func abs(a int) int {
	if a < 0 {
		return -a
	}
	return a
}

func concretise(shape []string, v string) []string {
	out := make([]string, len(shape))
	for i, s := range shape {
		if s == "V" {
			out[i] = v
		} else {
			out[i] = s
		}
	}
	return out
}

func judge(t ev.TB, c pairCase) {
	d := distance(c)
	cls := "far"
	if d == 0 {
		cls = "matching"
	} else if d == 1 {
		cls = "near_miss"
	}
	ev.Case(ev.FP(fmt.Sprint(c)), d <= 1, cls, fmt.Sprintf("params=%d", len(c.Params)))
	if d <= 1 && ev.WantSample(cls) {
		ev.Sample(cls, c)
	}
	if msg := runPair(c); msg != "" {
		ev.Fail(t, "pair", c, "%s", msg)
	}
}

func lists(names []string, maxLen int) [][]string {
	res := [][]string{{}}
	prev := [][]string{{}}
	for l := 1; l <= maxLen; l++ {
		var next [][]string
		for _, p := range prev {
			for _, n := range names {
				next = append(next, append(append([]string{}, p...), n))
			}
		}
		res = append(res, next...)
		prev = next
	}
	return res
}

func enumerate(t *testing.T, typeNames, schNames []string, maxParams int, valTypes []string, label string) {
	idx := 0
	sigParams := lists(typeNames, maxParams)
	declInputs := lists(schNames, maxParams)
	outs := append([]string{""}, schNames...)
	for _, params := range sigParams {
		for _, variadic := range []bool{false, true} {
			if variadic && (len(params) == 0 || !strings.HasPrefix(params[len(params)-1], "[]")) {
				continue
			}
			for _, shape := range resultShapes {
				vts := []string{"int64"}
				if strings.Contains(strings.Join(shape, ","), "V") {
					vts = valTypes
				}
				for _, vt := range vts {
					results := concretise(shape, vt)
					for _, inputs := range declInputs {
						for _, output := range outs {
							for _, outErr := range []bool{false, true} {
								idx++
								if !ev.Mine(idx) {
									continue
								}
								judge(t, pairCase{Params: params, Variadic: variadic, Results: results, Inputs: inputs, Output: output, OutErr: outErr, ReturnErr: idx%3 == 0, ErrKind: 1 + (idx/3)%3})
							}
						}
						idx++
						if ev.Mine(idx) {
							judge(t, pairCase{Params: params, Variadic: variadic, Results: results, Inputs: inputs, Dynamic: true, ReturnErr: idx%3 == 0, ErrKind: 1 + (idx/3)%3})
						}
					}
				}
			}
		}
	}
	ev.Exhaustive(label)
	if sh, _ := ev.Shard(); sh == 0 {
		ev.Class("enumerated_pairs: "+label, int64(idx))
	}
}

func TestEnumMatrix1(t *testing.T) {
	if ev.Replaying() {
		t.Skip()
	}
	enumerate(t, goTypeNames, schemaNames, 1, []string{"int64", "string", "[]int64", "any", "myStr", "*regexp.Regexp"}, "signatures with <=1 parameter over the full type pools x all declarations with <=1 input")
}

func TestEnumMatrix2(t *testing.T) {
	if ev.Replaying() {
		t.Skip()
	}
	enumerate(t, smallTypeNames, smallSchemaNames, 2, []string{"int64", "any"}, "signatures with <=2 parameters over a 6-type pool x all declarations with <=2 inputs over a 5-schema pool")
}

func TestSampled(t *testing.T) {
	ev.Check(t, "sampled", 4000, 120000, func(rt *rapid.T) {
		n := rapid.IntRange(0, 3).Draw(rt, "nParams")
		c := pairCase{}
		for i := 0; i < n; i++ {
			c.Params = append(c.Params, rapid.SampledFrom(goTypeNames).Draw(rt, "ptype"))
		}
		c.Variadic = rapid.IntRange(0, 3).Draw(rt, "variadic") == 0
		shape := rapid.SampledFrom(resultShapes).Draw(rt, "shape")
		c.Results = concretise(shape, rapid.SampledFrom(goTypeNames).Draw(rt, "vtype"))
		c.ReturnErr = rapid.Bool().Draw(rt, "returnErr")
		c.ErrKind = rapid.IntRange(1, 3).Draw(rt, "errKind")
		c.Dynamic = rapid.IntRange(0, 4).Draw(rt, "dynamic") == 0
		if rapid.IntRange(0, 3).Draw(rt, "independent") == 0 {
			k := rapid.IntRange(0, 3).Draw(rt, "nInputs")
			for i := 0; i < k; i++ {
				c.Inputs = append(c.Inputs, rapid.SampledFrom(schemaNames).Draw(rt, "itype"))
			}
			c.Output = rapid.SampledFrom(append([]string{""}, schemaNames...)).Draw(rt, "otype")
			c.OutErr = rapid.Bool().Draw(rt, "outErr")
		} else {
			// derive a matching declaration, then change at most one position
			for _, p := range c.Params {
				if alts, ok := schemaFor[p]; ok {
					c.Inputs = append(c.Inputs, rapid.SampledFrom(alts).Draw(rt, "derived"))
				} else {
					c.Inputs = append(c.Inputs, rapid.SampledFrom(schemaNames).Draw(rt, "itype"))
				}
			}
			c.OutErr = len(c.Results) > 0 && c.Results[len(c.Results)-1] == "error"
			valPart := c.Results
			if c.OutErr {
				valPart = valPart[:len(valPart)-1]
			}
			if len(valPart) > 0 {
				if alts, ok := schemaFor[valPart[0]]; ok {
					c.Output = rapid.SampledFrom(alts).Draw(rt, "derivedOut")
				}
			}
			switch rapid.IntRange(0, 5).Draw(rt, "mutation") {
			case 0:
				if len(c.Inputs) > 0 {
					c.Inputs = c.Inputs[:len(c.Inputs)-1]
				}
			case 1:
				c.Inputs = append(c.Inputs, rapid.SampledFrom(schemaNames).Draw(rt, "extra"))
			case 2:
				if len(c.Inputs) > 0 {
					c.Inputs[rapid.IntRange(0, len(c.Inputs)-1).Draw(rt, "pos")] = rapid.SampledFrom(schemaNames).Draw(rt, "repl")
				}
			case 3:
				c.OutErr = !c.OutErr
			case 4:
				c.Output = rapid.SampledFrom(append([]string{""}, schemaNames...)).Draw(rt, "otype")
			}
		}
		judge(rt, c)
	})
}
