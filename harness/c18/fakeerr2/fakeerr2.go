// Package fakeerr2 declares an interface type named "error" that is not the predeclared error type.
package fakeerr2

type error interface {
	Error() string
	Extra()
}

type impl struct{}

func (impl) Error() string { return "impl" }
func (impl) Extra()        {}

// Value holds a non-nil value of the interface type named "error".
var Value error = impl{}

// Ptr is used to obtain the interface type via reflection.
var Ptr = (*error)(nil)
