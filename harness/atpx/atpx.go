// Package atpx holds what the ATP checks share: frame builders, an independent parser of the server's output
// stream, a scripted input reader with gates, a capturing/faulting writer and the behaviour-driven test plugin.
package atpx

import (
	"bytes"
	"context"
	"errors"
	"fmt"
	"io"
	"sync"
	"time"

	"github.com/fxamacker/cbor/v2"
	"go.flow.arcalot.io/pluginsdk/atp"
	"go.flow.arcalot.io/pluginsdk/schema"
)

// ---------------------------------------------------------------------------------------------------------------
// frames (client -> server)

// Dec decodes CBOR the way the harness reads protocol data: well-formedness is judged without a nesting limit of the
// harness's own (the library default of 32 levels is a property of a configuration, not of the data).
var Dec = func() cbor.DecMode {
	m, err := cbor.DecOptions{MaxNestedLevels: 65535}.DecMode()
	if err != nil {
		panic(err)
	}
	return m
}()

func mustCBOR(v any) []byte {
	b, err := cbor.Marshal(v)
	if err != nil {
		panic(err)
	}
	return b
}

// StartOutput is the first client message (any CBOR value; nil in the real client).
func StartOutput(v any) []byte { return mustCBOR(v) }

// Runtime builds an arbitrary runtime message.
func Runtime(msgID uint32, runID string, data any) []byte {
	return mustCBOR(atp.RuntimeMessage{MessageID: msgID, RunID: runID, MessageData: data})
}

// WorkStart builds a work-start frame.
func WorkStart(runID, stepID string, config any) []byte {
	return Runtime(atp.MessageTypeWorkStart, runID, atp.WorkStartMessage{StepID: stepID, Config: config})
}

// Signal builds a signal frame.
func Signal(runID, signalID string, data any) []byte {
	return Runtime(atp.MessageTypeSignal, runID, atp.SignalMessage{SignalID: signalID, Data: data})
}

// ClientDone builds the client-done frame.
func ClientDone() []byte {
	return Runtime(atp.MessageTypeClientDone, "", map[string]any{})
}

// ---------------------------------------------------------------------------------------------------------------
// independent reading of the server's output

// OutMessage is one decoded server -> client runtime message.
type OutMessage struct {
	ID    uint32
	RunID string
	// WorkDone
	StepID, OutputID string
	OutputData       any
	// Error
	Error                  string
	StepFatal, ServerFatal bool
	// Signal
	SignalID string
	Data     any
	Offset   int // byte offset of the frame in the stream
	Len      int
}

// Terminal reports whether the message ends a run: a work-done, or an error with step_fatal set.
func (m OutMessage) Terminal() bool {
	return m.ID == atp.MessageTypeWorkDone || (m.ID == atp.MessageTypeError && m.StepFatal)
}

// ParseOutput reads hello + runtime messages until the first undecodable frame or the end of the bytes.
func ParseOutput(b []byte) (hello *atp.HelloMessage, helloLen int, msgs []OutMessage, trailing error) {
	return parseOutput(b, false)
}

// ParseOutputLenient is ParseOutput for streams that may contain garbage: a well-formed frame whose payload does not
// decode as the message its ID announces is skipped instead of ending the reading (the frames behind it are still
// frames a reader may act on).
func ParseOutputLenient(b []byte) (hello *atp.HelloMessage, helloLen int, msgs []OutMessage, trailing error) {
	return parseOutput(b, true)
}

func parseOutput(b []byte, lenient bool) (hello *atp.HelloMessage, helloLen int, msgs []OutMessage, trailing error) {
	dec := Dec.NewDecoder(bytes.NewReader(b))
	var h atp.HelloMessage
	if err := dec.Decode(&h); err != nil {
		if errors.Is(err, io.EOF) {
			return nil, 0, nil, nil
		}
		return nil, 0, nil, err
	}
	hello = &h
	helloLen = dec.NumBytesRead()
	for {
		start := dec.NumBytesRead()
		var m atp.DecodedRuntimeMessage
		if err := dec.Decode(&m); err != nil {
			if errors.Is(err, io.EOF) {
				return hello, helloLen, msgs, nil
			}
			return hello, helloLen, msgs, err
		}
		om := OutMessage{ID: m.MessageID, RunID: m.RunID, Offset: start, Len: dec.NumBytesRead() - start}
		switch m.MessageID {
		case atp.MessageTypeWorkDone:
			var wd atp.WorkDoneMessage
			if err := Dec.Unmarshal(m.RawMessageData, &wd); err != nil {
				if lenient {
					continue
				}
				return hello, helloLen, msgs, fmt.Errorf("work-done payload: %w", err)
			}
			om.StepID, om.OutputID, om.OutputData = wd.StepID, wd.OutputID, wd.OutputData
		case atp.MessageTypeError:
			var em atp.ErrorMessage
			if err := Dec.Unmarshal(m.RawMessageData, &em); err != nil {
				if lenient {
					continue
				}
				return hello, helloLen, msgs, fmt.Errorf("error payload: %w", err)
			}
			om.Error, om.StepFatal, om.ServerFatal = em.Error, em.StepFatal, em.ServerFatal
		case atp.MessageTypeSignal:
			var sm atp.SignalMessage
			if err := Dec.Unmarshal(m.RawMessageData, &sm); err != nil {
				if lenient {
					continue
				}
				return hello, helloLen, msgs, fmt.Errorf("signal payload: %w", err)
			}
			om.SignalID, om.Data = sm.SignalID, sm.Data
		}
		msgs = append(msgs, om)
	}
}

// ---------------------------------------------------------------------------------------------------------------
// gates

// Gates lets step handlers block until the script releases them.
type Gates struct {
	mu      sync.Mutex
	ch      map[string]chan struct{}
	allOpen bool
}

func NewGates() *Gates { return &Gates{ch: map[string]chan struct{}{}} }

func (g *Gates) get(name string) chan struct{} {
	g.mu.Lock()
	defer g.mu.Unlock()
	c, ok := g.ch[name]
	if !ok {
		c = make(chan struct{})
		if g.allOpen {
			close(c)
		}
		g.ch[name] = c
	}
	return c
}

// Open releases everybody waiting on the gate, now and in the future.
func (g *Gates) Open(name string) {
	c := g.get(name)
	g.mu.Lock()
	defer g.mu.Unlock()
	select {
	case <-c:
	default:
		close(c)
	}
}

// OpenAll opens every gate that was ever asked for and makes later ones open too.
func (g *Gates) OpenAll() {
	g.mu.Lock()
	g.allOpen = true
	names := make([]string, 0, len(g.ch))
	for n := range g.ch {
		names = append(names, n)
	}
	g.mu.Unlock()
	for _, n := range names {
		g.Open(n)
	}
}

// Wait blocks until the gate is open (or the timeout, a safety net for the harness, passes).
func (g *Gates) Wait(name string, max time.Duration) bool {
	select {
	case <-g.get(name):
		return true
	case <-time.After(max):
		return false
	}
}

// ---------------------------------------------------------------------------------------------------------------
// scripted reader (server stdin)

// Item is one element of an input script.
type Item struct {
	Bytes []byte
	Gate  string        // open this gate when the reader gets here
	Pause time.Duration // wait before continuing (lets the server act on what it has read)
	Err   bool          // end the input with a read error instead of EOF
}

// ScriptReader serves the items in order; after the last one it reports EOF (or an error) forever.
type ScriptReader struct {
	mu      sync.Mutex
	items   []Item
	pos     int
	off     int
	gates   *Gates
	closed  bool
	Ended   chan struct{} // closed when the reader has reported end of input (or was closed)
	endOnce sync.Once
	Frag    int // max bytes per Read (0 = everything available in the item)
	// Coalesce lets one Read deliver the bytes of several consecutive plain items (a client that writes without
	// waiting, over a transport that buffers): e.g. the start message together with the first frames.
	Coalesce bool
}

func NewScriptReader(items []Item, gates *Gates) *ScriptReader {
	return &ScriptReader{items: items, gates: gates, Ended: make(chan struct{})}
}

func (r *ScriptReader) end() { r.endOnce.Do(func() { close(r.Ended) }) }

func (r *ScriptReader) Read(p []byte) (int, error) {
	for {
		r.mu.Lock()
		if r.closed {
			r.mu.Unlock()
			r.end()
			return 0, io.ErrClosedPipe
		}
		if r.pos >= len(r.items) {
			r.mu.Unlock()
			r.end()
			return 0, io.EOF
		}
		it := r.items[r.pos]
		if r.off == 0 {
			if it.Gate != "" {
				r.gates.Open(it.Gate)
			}
			if it.Pause > 0 {
				r.mu.Unlock()
				time.Sleep(it.Pause)
				r.mu.Lock()
			}
			if it.Err {
				r.pos = len(r.items)
				r.mu.Unlock()
				r.end()
				return 0, errors.New("injected read error")
			}
		}
		if r.off >= len(it.Bytes) {
			r.pos++
			r.off = 0
			r.mu.Unlock()
			continue
		}
		n := len(it.Bytes) - r.off
		if n > len(p) {
			n = len(p)
		}
		if r.Frag > 0 && n > r.Frag {
			n = r.Frag
		}
		copy(p, it.Bytes[r.off:r.off+n])
		r.off += n
		if r.Coalesce && r.Frag == 0 {
			for n < len(p) && r.off >= len(r.items[r.pos].Bytes) && r.pos+1 < len(r.items) {
				next := r.items[r.pos+1]
				if next.Gate != "" || next.Pause > 0 || next.Err || len(next.Bytes) == 0 {
					break
				}
				r.pos++
				m := copy(p[n:], next.Bytes)
				r.off = m
				n += m
			}
		}
		r.mu.Unlock()
		return n, nil
	}
}

func (r *ScriptReader) Close() error {
	r.mu.Lock()
	r.closed = true
	r.mu.Unlock()
	r.end()
	return nil
}

// ---------------------------------------------------------------------------------------------------------------
// capture writer (server stdout)

// CaptureWriter records everything written; optionally fails once FailAt bytes have been accepted.
type CaptureWriter struct {
	mu     sync.Mutex
	buf    bytes.Buffer
	FailAt int // <0: never fail
	failed bool
	inFlight int
	Overlaps int
}

func NewCaptureWriter(failAt int) *CaptureWriter { return &CaptureWriter{FailAt: failAt} }

func (w *CaptureWriter) Write(p []byte) (int, error) {
	w.mu.Lock()
	defer w.mu.Unlock()
	if w.failed {
		return 0, io.ErrClosedPipe
	}
	if w.FailAt >= 0 && w.buf.Len()+len(p) > w.FailAt {
		n := w.FailAt - w.buf.Len()
		if n < 0 {
			n = 0
		}
		w.buf.Write(p[:n])
		w.failed = true
		return n, errors.New("injected write error")
	}
	w.buf.Write(p)
	return len(p), nil
}

func (w *CaptureWriter) Close() error { return nil }

func (w *CaptureWriter) Bytes() []byte {
	w.mu.Lock()
	defer w.mu.Unlock()
	return append([]byte(nil), w.buf.Bytes()...)
}

func (w *CaptureWriter) Failed() bool {
	w.mu.Lock()
	defer w.mu.Unlock()
	return w.failed
}

// ---------------------------------------------------------------------------------------------------------------
// the behaviour-driven test plugin

// StepInput is the input of the test plugin's step "do".
type StepInput struct {
	Behaviour string  `json:"behaviour"` // success, error_output, undeclared, invalid_data, panic
	Gate      *string `json:"gate"`      // wait for this gate before finishing
	Tag       string  `json:"tag"`
}

type stepOutput struct {
	Tag string `json:"tag"`
	N   int64  `json:"n"`
}

type errOutput struct {
	Error string `json:"error"`
	Tag   string `json:"tag"`
}

type signalData struct {
	X int64 `json:"x"`
}

// PluginStats counts handler invocations.
type PluginStats struct {
	mu      sync.Mutex
	Steps   map[string]int // tag -> count
	Signals int
}

func prop(t schema.Type, required bool) *schema.PropertySchema {
	return schema.NewPropertySchema(t, nil, required, nil, nil, nil, nil, nil)
}

// TestPlugin builds the plugin: step "do" (with signal handler "poke" and emitter-free), step "plain" (no signals).
func TestPlugin(gates *Gates, stats *PluginStats) *schema.CallableSchema {
	input := func() *schema.ScopeSchema {
		return schema.NewScopeSchema(schema.NewStructMappedObjectSchema[StepInput]("Input", map[string]*schema.PropertySchema{
			"behaviour": prop(schema.NewStringEnumSchema(map[string]*schema.DisplayValue{
				"success": {}, "error_output": {}, "undeclared": {}, "invalid_data": {}, "panic": {},
			}), true),
			"gate": prop(schema.NewStringSchema(nil, nil, nil), false),
			"tag":  prop(schema.NewStringSchema(nil, nil, nil), true),
		}))
	}
	outputs := func() map[string]*schema.StepOutputSchema {
		return map[string]*schema.StepOutputSchema{
			"success": schema.NewStepOutputSchema(schema.NewScopeSchema(schema.NewStructMappedObjectSchema[stepOutput]("Output", map[string]*schema.PropertySchema{
				"tag": prop(schema.NewStringSchema(nil, nil, nil), true),
				"n":   prop(schema.NewIntSchema(schema.PointerTo(int64(0)), nil, nil), true),
			})), nil, false),
			"error": schema.NewStepOutputSchema(schema.NewScopeSchema(schema.NewStructMappedObjectSchema[errOutput]("ErrorOutput", map[string]*schema.PropertySchema{
				"error": prop(schema.NewStringSchema(nil, nil, nil), true),
				"tag":   prop(schema.NewStringSchema(nil, nil, nil), true),
			})), nil, true),
		}
	}
	handler := func(_ context.Context, _ any, in StepInput) (string, any) {
		if stats != nil {
			stats.mu.Lock()
			if stats.Steps == nil {
				stats.Steps = map[string]int{}
			}
			stats.Steps[in.Tag]++
			stats.mu.Unlock()
		}
		gates.Open("started:" + in.Tag) // lets a harness wait until the step is really running
		if in.Gate != nil && *in.Gate != "" {
			gates.Wait(*in.Gate, 20*time.Second)
		}
		switch in.Behaviour {
		case "error_output":
			return "error", errOutput{Error: "declared failure", Tag: in.Tag}
		case "undeclared":
			return "no-such-output", stepOutput{Tag: in.Tag}
		case "invalid_data":
			return "success", stepOutput{Tag: in.Tag, N: -5} // violates n >= 0
		case "panic":
			panic("step handler panics on purpose")
		}
		return "success", stepOutput{Tag: in.Tag, N: int64(len(in.Tag))}
	}
	sigScope := schema.NewScopeSchema(schema.NewStructMappedObjectSchema[signalData]("SignalData", map[string]*schema.PropertySchema{
		"x": prop(schema.NewIntSchema(nil, nil, nil), true),
	}))
	poke := schema.NewCallableSignal[any, signalData]("poke", sigScope, nil, func(_ context.Context, _ any, _ signalData) {
		if stats != nil {
			stats.mu.Lock()
			stats.Signals++
			stats.mu.Unlock()
		}
	})
	return schema.NewCallableSchema(
		schema.NewCallableStepWithSignals[any, StepInput]("do", input(), outputs(), map[string]schema.CallableSignal{"poke": poke}, nil, nil, nil, handler),
		schema.NewCallableStep[StepInput]("plain", input(), outputs(), nil, func(ctx context.Context, in StepInput) (string, any) { return handler(ctx, nil, in) }),
	)
}

// StepConfig builds the raw input of the test plugin's steps.
func StepConfig(behaviour, gate, tag string) map[string]any {
	m := map[string]any{"behaviour": behaviour, "tag": tag}
	if gate != "" {
		m["gate"] = gate
	}
	return m
}
