package c13

import (
	"context"
	"encoding/json"
	"fmt"
	"strings"
	"sync"
	"sync/atomic"
	"testing"
	"time"

	"go.flow.arcalot.io/pluginsdk/schema"
	"pgregory.net/rapid"
	"verif/harness/ev"
	"verif/harness/gen"
	"verif/harness/model"
	"verif/harness/oracle"
	"verif/harness/spec"
	"verif/harness/sup"
	"verif/harness/val"
)

func TestMain(m *testing.M) {
	sup.Register("c13", workerFn)
	if sup.IsWorker() {
		sup.RunWorker()
	}
	ev.Note("rule", "C13: rapid-generated schemas with lazily initialised features (unit strings on the five package-level unit sets and on fresh NewUnits definitions, defaults, struct-mapped by-value members, references, one-of), built fresh for every trial and in half of the trials rebuilt from their own description (UnserializeScope), used by 2-16 goroutines released together by a barrier, each running a generated mix of Unserialize / Validate / Serialize / data-mode ValidateCompatibility / CallStep; the trial runs in a worker process built with -race (GORACE=halt_on_error), and first use of the package-level unit definitions and meta-schemas is raced in a brand-new process per trial. Oracle: no race report, no 'concurrent map writes', no panic, and every concurrent result equals the result of the same call made alone on a separate fresh instance. Non-trivial: >= 2 goroutines made their first call on the instance in the same barrier release and the schema has a lazily initialised feature (unit string input, default on a rebuilt object, struct by-value member with defaults); distinct by (schema, op mix).")
	ev.RegisterReplay("trial", func(t *testing.T, raw json.RawMessage) {
		var c Case
		if err := json.Unmarshal(raw, &c); err != nil {
			t.Fatal(err)
		}
		// races are probabilistic: repeat the trial in fresh workers
		for i := 0; i < 200; i++ {
			w := sup.NewWorker("c13")
			msg, _ := judge(w, c)
			w.Close()
			if msg != "" {
				t.Fatalf("repetition %d: %s", i+1, msg)
			}
		}
	})
	ev.Main(m, "C13")
}

func TestReplay(t *testing.T) { ev.RunReplay(t) }

type Op struct {
	Op  string `json:"op"` // unserialize, roundtrip (unserialize+validate+serialize), compat, callstep
	Arg val.V  `json:"arg"`
}

type Case struct {
	Spec       *spec.Spec `json:"spec"`
	Rebuilt    bool       `json:"rebuilt"`
	Goroutines int        `json:"goroutines"`
	Ops        [][]Op     `json:"ops"` // per goroutine
	Globals    bool       `json:"globals"`
	// Plugin: the instance is the data scope of a signal HANDLER of a whole plugin schema rebuilt by UnserializeSchema
	// (as the engine gets it from the hello message), in a step that also EMITS a signal under the same ID
	Plugin bool `json:"plugin,omitempty"`
}

type result struct {
	Outcome string `json:"outcome"` // ok, mismatch, panic, skip
	Text    string `json:"text,omitempty"`
}

func buildInstance(c Case) (schema.Type, error) {
	b, err := spec.Build(c.Spec)
	if err != nil {
		return nil, err
	}
	if c.Plugin {
		sc, ok := b.(*schema.ScopeSchema)
		if !ok {
			return b, nil
		}
		mk := func() *schema.ScopeSchema {
			x, _ := spec.Build(c.Spec)
			return x.(*schema.ScopeSchema)
		}
		step := schema.NewStepSchema("s", sc, map[string]*schema.StepOutputSchema{"success": schema.NewStepOutputSchema(mk(), nil, false)},
			map[string]*schema.SignalSchema{"sig": schema.NewSignalSchema("sig", mk(), nil)},
			map[string]*schema.SignalSchema{"sig": schema.NewSignalSchema("sig", mk(), nil)}, nil)
		d, err := schema.NewSchema(map[string]*schema.StepSchema{"s": step}).SelfSerialize()
		if err != nil {
			return nil, err
		}
		r, err := schema.UnserializeSchema(d)
		if err != nil {
			return nil, err
		}
		return r.StepsValue["s"].SignalHandlersValue["sig"].DataSchemaValue, nil
	}
	if !c.Rebuilt {
		return b, nil
	}
	sc, ok := b.(*schema.ScopeSchema)
	if !ok {
		return b, nil
	}
	d, err := sc.SelfSerialize()
	if err != nil {
		return nil, err
	}
	r, err := schema.UnserializeScope(d)
	if err != nil {
		return nil, err
	}
	return r, nil
}

type opOutcome struct {
	val any
	err bool
	pan any
}

func execOp(inst schema.Type, callable *schema.CallableSchema, op Op) opOutcome {
	var o opOutcome
	o.pan = oracle.Safely(func() {
		switch op.Op {
		case "unserialize":
			v, err := inst.Unserialize(op.Arg.Go())
			o.val, o.err = v, err != nil
		case "roundtrip":
			v, err := inst.Unserialize(op.Arg.Go())
			if err != nil {
				o.err = true
				return
			}
			if verr := inst.Validate(v); verr != nil {
				o.val, o.err = "validate failed", true
				return
			}
			s, serr := inst.Serialize(v)
			o.val, o.err = s, serr != nil
		case "compat":
			o.err = inst.ValidateCompatibility(op.Arg.Go()) != nil
		case "compat_schema", "compat_schema_mutant":
			// schema mode: against an identically built twin, or against a twin with one leaf of another kind (which
			// an isolated call refuses) - whoever else is inside the same comparison at the moment
			o.err = inst.ValidateCompatibility(otherSchema(op.Op == "compat_schema_mutant")) != nil
		case "describe":
			// self-description walks the package-level meta-schema (and its one-of tables) with this schema as data
			if sc, ok := inst.(*schema.ScopeSchema); ok {
				d, err := sc.SelfSerialize()
				o.val, o.err = d, err != nil
			}
		case "rebuild":
			// loading a description uses the package-level meta-schema as the schema: two loads at once share it
			if sc, ok := inst.(*schema.ScopeSchema); ok {
				d, err := sc.SelfSerialize()
				if err != nil {
					o.err = true
					return
				}
				r, err := schema.UnserializeScope(d)
				if err != nil {
					o.val, o.err = "rebuild failed", true
					return
				}
				d2, err := r.SelfSerialize()
				o.val, o.err = d2, err != nil
			}
		case "callstep":
			id, data, err := callable.CallStep(context.Background(), "run-"+op.Arg.String(), "step", op.Arg.Go())
			o.val, o.err = []any{id, data}, err != nil
		case "callsignal":
			// same run-ID space as callstep: a signal and its step may be first users of the run together
			o.err = callable.CallSignal(context.Background(), "run-"+op.Arg.String(), "step", "sig", map[string]any{}) != nil
		}
	})
	return o
}

// currentSpec is the description of the trial that runs in this worker (one trial at a time).
var currentSpec *spec.Spec

// otherSchema builds the schema the instance is compared with in schema mode.
func otherSchema(mutant bool) schema.Type {
	s := currentSpec
	if mutant {
		b, _ := json.Marshal(currentSpec)
		var c spec.Spec
		_ = json.Unmarshal(b, &c)
		done := false
		spec.Walk(&c, func(n *spec.Spec) {
			if done {
				return
			}
			switch n.Kind {
			case spec.KInt, spec.KFloat, spec.KBool:
				*n = spec.Spec{Kind: spec.KString}
				done = true
			case spec.KString, spec.KPattern:
				*n = spec.Spec{Kind: spec.KBool}
				done = true
			}
		})
		s = &c
	}
	t, err := spec.Build(s)
	if err != nil {
		panic("harness: other schema does not build: " + err.Error())
	}
	return t
}

func makeCallable(inst schema.Type) *schema.CallableSchema {
	sc, ok := inst.(*schema.ScopeSchema)
	if !ok {
		return nil
	}
	out := schema.NewScopeSchema(schema.NewObjectSchema("out", map[string]*schema.PropertySchema{}))
	// The step has a signal handler and an initializer: its per-run data must be created exactly once per run ID even
	// when the step call and a signal for the same run arrive together (that needs no data race to go wrong).
	counter := &runCounter{inits: map[string]int{}}
	var nextRun int64
	sigData := schema.NewScopeSchema(schema.NewObjectSchema("sigdata", map[string]*schema.PropertySchema{}))
	sig := schema.NewCallableSignal[*runData, any]("sig", sigData, nil, func(_ context.Context, d *runData, _ any) {
		if d != nil {
			atomic.AddInt64(&d.signals, 1)
		}
	})
	step := schema.NewCallableStepWithSignals[*runData, any]("step", sc, map[string]*schema.StepOutputSchema{"success": schema.NewStepOutputSchema(out, nil, false)},
		map[string]schema.CallableSignal{"sig": sig}, nil, nil,
		func() *runData {
			// the initializer cannot know its run ID; the harness counts per callable and compares with the number of
			// distinct run IDs used afterwards
			atomic.AddInt64(&nextRun, 1)
			time.Sleep(300 * time.Microsecond) // a plugin's initializer does real work; first users of a run overlap in here
			counter.mu.Lock()
			counter.total++
			counter.mu.Unlock()
			return &runData{}
		},
		func(_ context.Context, _ *runData, _ any) (string, any) { return "success", map[string]any{} })
	cs := schema.NewCallableSchema(step)
	initCounters.Store(cs, counter)
	return cs
}

type runData struct{ signals int64 }

type runCounter struct {
	mu    sync.Mutex
	total int
	inits map[string]int
}

var initCounters sync.Map // *schema.CallableSchema -> *runCounter

func workerFn(raw json.RawMessage) json.RawMessage {
	var c Case
	res := result{Outcome: "ok"}
	if err := json.Unmarshal(raw, &c); err != nil {
		res.Outcome, res.Text = "skip", err.Error()
		b, _ := json.Marshal(res)
		return b
	}
	func() {
		defer func() {
			if e := recover(); e != nil {
				res.Outcome, res.Text = "skip", fmt.Sprintf("setup panicked: %v", e)
			}
		}()
		currentSpec = c.Spec
		var inst schema.Type
		var callable *schema.CallableSchema
		if !c.Globals {
			var err error
			inst, err = buildInstance(c)
			if err != nil {
				res.Outcome, res.Text = "skip", err.Error()
				return
			}
			callable = makeCallable(inst)
		}
		// the reference results come from *other* instances, after the concurrent phase (so that first use really
		// happens under concurrency)
		outcomes := make([][]opOutcome, len(c.Ops))
		var wg sync.WaitGroup
		start := make(chan struct{})
		for g := range c.Ops {
			outcomes[g] = make([]opOutcome, len(c.Ops[g]))
			wg.Add(1)
			go func(g int) {
				defer wg.Done()
				<-start
				myInst, myCallable := inst, callable
				if c.Globals {
					// every goroutine describes and rebuilds the schema itself: first use of the package-level
					// meta-schema scopes and unit definitions happens concurrently
					var berr error
					if p := oracle.Safely(func() { myInst, berr = buildInstance(c) }); p != nil || berr != nil {
						return
					}
					myCallable = makeCallable(myInst)
				}
				for i, op := range c.Ops[g] {
					if (op.Op == "callstep" || op.Op == "callsignal") && myCallable == nil {
						continue
					}
					outcomes[g][i] = execOp(myInst, myCallable, op)
				}
			}(g)
		}
		close(start)
		wg.Wait()
		// step data: the shared callable's initializer ran at most once per distinct run ID that reached it
		if callable != nil && !c.Globals {
			runs := map[string]bool{}
			for g := range c.Ops {
				for _, op := range c.Ops[g] {
					if op.Op == "callstep" || op.Op == "callsignal" {
						runs["run-"+op.Arg.String()] = true
					}
				}
			}
			if cv, ok := initCounters.Load(callable); ok {
				rc := cv.(*runCounter)
				rc.mu.Lock()
				total := rc.total
				rc.mu.Unlock()
				if total > len(runs) {
					res.Outcome, res.Text = "mismatch", fmt.Sprintf("the step-data initializer ran %d times for %d distinct run IDs: a step call and a signal (or two signals) that were the first users of one run ID each created their own step data", total, len(runs))
					return
				}
			}
			initCounters.Delete(callable)
		}
		for g := range c.Ops {
			for i, op := range c.Ops[g] {
				if (op.Op == "callstep" || op.Op == "callsignal") && callable == nil && !c.Globals {
					continue
				}
				if outcomes[g][i] == (opOutcome{}) {
					continue // not executed (setup of this goroutine failed)
				}
				ref, err := buildInstance(c)
				if err != nil {
					continue
				}
				want := execOp(ref, makeCallable(ref), op)
				got := outcomes[g][i]
				if got.pan != nil && want.pan == nil {
					res.Outcome, res.Text = "panic", fmt.Sprintf("goroutine %d op %d %s(%s) panicked under concurrency: %v", g, i, op.Op, op.Arg, got.pan)
					return
				}
				if want.pan != nil {
					continue
				}
				if got.err != want.err || (!got.err && !val.Equal(got.val, want.val, val.Opts{})) {
					res.Outcome, res.Text = "mismatch", fmt.Sprintf("goroutine %d op %d %s(%s): concurrent result (%#v, err=%v) differs from the isolated result (%#v, err=%v)", g, i, op.Op, op.Arg, got.val, got.err, want.val, want.err)
					return
				}
			}
		}
	}()
	b, _ := json.Marshal(res)
	return b
}

// withDisabledSet adds a value for the first disabled property found along the objects of the value.
func withDisabledSet(s *spec.Spec, env *model.Env, v val.V) (val.V, bool) {
	o, oenv := model.Resolve(s, env)
	if o == nil || o.Kind != spec.KObject || !strings.HasPrefix(v.T, "map") {
		return v, false
	}
	for i := range o.Props {
		if o.Props[i].Disabled {
			c := v
			c.M = append(append([]val.KV(nil), v.M...), val.KV{K: val.Str(o.Props[i].Name), V: val.Int("int64", 1)})
			return c, true
		}
	}
	for i, e := range v.M {
		if p := o.PropByName(e.K.S); p != nil {
			if d, ok := withDisabledSet(p.Type, oenv, e.V); ok {
				c := v
				c.M = append([]val.KV(nil), v.M...)
				c.M[i].V = d
				return c, true
			}
		}
	}
	return v, false
}

func specJSON(s *spec.Spec) string {
	b, _ := json.Marshal(s)
	return string(b)
}

func judge(w *sup.Worker, c Case) (string, string) {
	body, crash := w.Do(c, 60*time.Second)
	if crash != nil {
		kind := "fatal"
		if strings.Contains(crash.Text+crash.Log, "DATA RACE") {
			kind = "race"
		}
		return fmt.Sprintf("concurrent use of one schema value: %s\n%s\nschema (rebuilt=%v, %d goroutines): %s", crash.Text, firstLines(crash.Log, 45), c.Rebuilt, c.Goroutines, specJSON(c.Spec)), kind
	}
	var r result
	if err := json.Unmarshal(body, &r); err != nil {
		return "harness: " + err.Error(), "harness"
	}
	switch r.Outcome {
	case "panic", "mismatch":
		return fmt.Sprintf("%s\nschema (rebuilt=%v): %s", r.Text, c.Rebuilt, specJSON(c.Spec)), r.Outcome
	}
	return "", r.Outcome
}

func firstLines(s string, n int) string {
	l := strings.Split(s, "\n")
	if len(l) > n {
		l = l[:n]
	}
	return strings.Join(l, "\n")
}

func lazyFeatures(s *spec.Spec) (units, defaults, structs bool) {
	spec.Walk(s, func(n *spec.Spec) {
		if n.Units != nil {
			units = true
		}
		if n.Struct != "" {
			structs = true
		}
		for _, p := range n.Props {
			if p.Default != nil {
				defaults = true
			}
		}
	})
	return
}

func genCase(rt *rapid.T, globals bool) Case {
	o := gen.Full(3)
	o.Describable = true
	o.ScopeRoot = true
	s := gen.Spec(o).Draw(rt, "spec")
	gen.AddDefaults(rt, s, o)
	c := Case{Spec: s, Rebuilt: rapid.Bool().Draw(rt, "rebuilt"), Goroutines: rapid.SampledFrom([]int{2, 2, 3, 4, 8, 16}).Draw(rt, "goroutines"), Globals: globals}
	c.Plugin = !globals && rapid.IntRange(0, 3).Draw(rt, "plugin") == 0
	var pool []val.V
	for i := 0; i < 4; i++ {
		if mv, ok := gen.ValueFor(rt, s, nil, 3); ok {
			pool = append(pool, gen.Render(rt, s, nil, mv).V)
		}
	}
	pool = append(pool, val.V{T: "map[string]any"}, gen.Hostile(2).Draw(rt, "hostile"))
	// inputs that set a disabled property: refused by every route that unserializes, concurrently by several callers
	for _, v := range append([]val.V(nil), pool...) {
		if d, ok := withDisabledSet(s, nil, v); ok {
			pool = append(pool, d)
			ev.Class("input_sets_disabled_property", 1)
			break
		}
	}
	kinds := []string{"unserialize", "roundtrip", "roundtrip", "compat", "callstep", "callsignal", "callsignal", "describe", "rebuild"}
	if !gen.IsRecursive(s) {
		// schema-mode compatibility of recursive graphs is the recorded finding recursive-compat (C15)
		kinds = append(kinds, "compat_schema", "compat_schema_mutant")
	}
	for g := 0; g < c.Goroutines; g++ {
		var ops []Op
		for i := 0; i < rapid.IntRange(1, 4).Draw(rt, "nOps"); i++ {
			ops = append(ops, Op{Op: rapid.SampledFrom(kinds).Draw(rt, "op"), Arg: rapid.SampledFrom(pool).Draw(rt, "arg")})
		}
		c.Ops = append(c.Ops, ops)
	}
	return c
}

func TestConcurrentUse(t *testing.T) {
	w := sup.NewWorker("c13")
	defer w.Close()
	ev.Check(t, "concurrent", 150, 5000, func(rt *rapid.T) {
		c := genCase(rt, false)
		units, defaults, structs := lazyFeatures(c.Spec)
		msg, outcome := judge(w, c)
		ev.Case(ev.FP(specJSON(c.Spec), fmt.Sprint(c.Ops), c.Rebuilt), c.Goroutines >= 2 && (units || (defaults && c.Rebuilt) || (structs && defaults)), "outcome:"+outcome, fmt.Sprintf("rebuilt=%v", c.Rebuilt), fmt.Sprintf("units=%v", units), fmt.Sprintf("defaults=%v", defaults), fmt.Sprintf("goroutines=%d", c.Goroutines))
		if units && ev.WantSample("trial") {
			ev.Sample("trial", Case{Spec: c.Spec, Rebuilt: c.Rebuilt, Goroutines: c.Goroutines})
		}
		if msg != "" {
			ev.Fail(rt, "trial", c, "%s", msg)
		}
	})
}

// TestGlobalFirstUse: a brand-new process per trial, so that the first use of the package-level unit definitions
// and of the meta-schema scopes happens under concurrency.
func TestGlobalFirstUse(t *testing.T) {
	ev.Check(t, "globals", 20, 320, func(rt *rapid.T) {
		c := genCase(rt, true)
		c.Rebuilt = true // goes through the package-level meta-schema
		if c.Goroutines < 4 {
			c.Goroutines = 8
			for len(c.Ops) < 8 {
				c.Ops = append(c.Ops, c.Ops[0])
			}
		}
		w := sup.NewWorker("c13")
		msg, outcome := judge(w, c)
		w.Close()
		units, _, _ := lazyFeatures(c.Spec)
		ev.Case(ev.FP("globals", specJSON(c.Spec), fmt.Sprint(c.Ops)), true, "globals_outcome:"+outcome, fmt.Sprintf("globals_units=%v", units))
		if msg != "" {
			ev.Fail(rt, "trial", c, "%s", msg)
		}
	})
}
