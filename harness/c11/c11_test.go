package c11

import (
	"context"
	"encoding/json"
	"errors"
	"fmt"
	"sync"
	"testing"

	"go.flow.arcalot.io/pluginsdk/schema"
	"pgregory.net/rapid"
	"verif/harness/ev"
	"verif/harness/gen"
	"verif/harness/oracle"
	"verif/harness/spec"
	"verif/harness/val"
)

func TestMain(m *testing.M) {
	ev.Note("rule", "C11: rapid-generated callable schemas (1-3 steps built with NewCallableStep and NewCallableStepWithSignals, initializer present or nil, generated input scope, 1-3 output scopes, 0-2 signal handlers with generated data scopes) and histories of 1-10 calls over a pool of three run IDs: CallStep with valid / invalid raw input and known / unknown step ID, scripted handler behaviour (declared output with conforming data, declared output with non-conforming data, undeclared output ID), CallSignal with valid / invalid data and known / unknown step and signal IDs - executed sequentially or all at once from goroutines released by a barrier (binary built with -race). Oracle: recording handlers (invocation count, argument, step-data pointer identity, initializer count per run) compared with a second, identically built instance of every scope: handler invoked exactly once iff step exists and input accepted, argument equals the unserialized value; returned (id, Serialize(data), nil) iff id declared and data conforms, otherwise errors.As distinguishes unknown step (BadArgumentError), rejected input (InvalidInputError), undeclared output (InvalidOutputError); unknown IDs are errors, never panics; per run ID the initializer ran exactly once and every handler of that run saw that one value, different run IDs different ones. Non-trivial: the call is a negative case, or a signal and its step ran concurrently for the same run ID; distinct by (schema, history).")
	ev.RegisterReplay("history", func(t *testing.T, raw json.RawMessage) {
		var c Case
		if err := json.Unmarshal(raw, &c); err != nil {
			t.Fatal(err)
		}
		if msg := run(c); msg != "" {
			t.Fatal(msg)
		}
	})
	ev.Main(m, "C11")
}

func TestReplay(t *testing.T) { ev.RunReplay(t) }

type SignalSpec struct {
	ID   string     `json:"id"`
	Data *spec.Spec `json:"data"`
}

type OutputSpec struct {
	ID     string     `json:"id"`
	Schema *spec.Spec `json:"schema"`
}

type StepSpec struct {
	ID          string       `json:"id"`
	Input       *spec.Spec   `json:"input"`
	Outputs     []OutputSpec `json:"outputs"`
	Signals     []SignalSpec `json:"signals,omitempty"`
	WithSignals bool         `json:"with_signals"` // built with NewCallableStepWithSignals
	Initializer bool         `json:"initializer"`
}

type Op struct {
	Kind   string `json:"kind"` // step | signal
	Run    string `json:"run"`
	Step   string `json:"step"`
	Signal string `json:"signal,omitempty"`
	Input  val.V  `json:"input"`
	// script for a step call
	OutputID   string `json:"output_id,omitempty"`
	OutputData val.V  `json:"output_data"`
}

type Case struct {
	Steps      []StepSpec `json:"steps"`
	Ops        []Op       `json:"ops"`
	Concurrent bool       `json:"concurrent"`
}

type stepData struct{ serial int }

type recorder struct {
	mu        sync.Mutex
	inits     int
	stepCalls map[string][]callRec // key: step|run
	sigCalls  map[string][]callRec // key: step|signal|run
}

type callRec struct {
	arg  any
	data *stepData
}

type built struct {
	callable *schema.CallableSchema
	// second, identically built instances used as the oracle
	inputs  map[string]*schema.ScopeSchema
	outputs map[string]map[string]*schema.ScopeSchema
	signals map[string]map[string]*schema.ScopeSchema
	rec     *recorder
	scripts sync.Map // run|step -> *Op
}

func mustScope(s *spec.Spec) *schema.ScopeSchema {
	b, err := spec.Build(s)
	if err != nil {
		panic(err)
	}
	return b.(*schema.ScopeSchema)
}

func build(c Case) (b *built, err error) {
	defer func() {
		if e := recover(); e != nil {
			err = fmt.Errorf("%v", e)
		}
	}()
	b = &built{inputs: map[string]*schema.ScopeSchema{}, outputs: map[string]map[string]*schema.ScopeSchema{}, signals: map[string]map[string]*schema.ScopeSchema{},
		rec: &recorder{stepCalls: map[string][]callRec{}, sigCalls: map[string][]callRec{}}}
	var steps []schema.CallableStep
	for _, st := range c.Steps {
		st := st
		b.inputs[st.ID] = mustScope(st.Input)
		b.outputs[st.ID] = map[string]*schema.ScopeSchema{}
		b.signals[st.ID] = map[string]*schema.ScopeSchema{}
		outs := map[string]*schema.StepOutputSchema{}
		for _, o := range st.Outputs {
			outs[o.ID] = schema.NewStepOutputSchema(mustScope(o.Schema), nil, o.ID == "error")
			b.outputs[st.ID][o.ID] = mustScope(o.Schema)
		}
		handler := func(_ context.Context, d *stepData, input any) (string, any) {
			return b.handle(st.ID, d, input)
		}
		if st.WithSignals {
			sigs := map[string]schema.CallableSignal{}
			for _, sg := range st.Signals {
				sg := sg
				b.signals[st.ID][sg.ID] = mustScope(sg.Data)
				sigs[sg.ID] = schema.NewCallableSignal[*stepData, any](sg.ID, mustScope(sg.Data), nil, func(_ context.Context, d *stepData, input any) {
					b.rec.mu.Lock()
					key := st.ID + "|" + sg.ID
					b.rec.sigCalls[key] = append(b.rec.sigCalls[key], callRec{arg: input, data: d})
					b.rec.mu.Unlock()
				})
			}
			var init func() *stepData
			if st.Initializer {
				init = func() *stepData {
					b.rec.mu.Lock()
					b.rec.inits++
					n := b.rec.inits
					b.rec.mu.Unlock()
					return &stepData{serial: n}
				}
			}
			steps = append(steps, schema.NewCallableStepWithSignals[*stepData, any](st.ID, mustScope(st.Input), outs, sigs, nil, nil, init, handler))
		} else {
			steps = append(steps, schema.NewCallableStep[any](st.ID, mustScope(st.Input), outs, nil, func(ctx context.Context, input any) (string, any) {
				return b.handle(st.ID, nil, input)
			}))
		}
	}
	b.callable = schema.NewCallableSchema(steps...)
	return b, nil
}

// handle is the scripted step handler. The script is looked up by the marker the harness puts on the goroutine's op
// (ops for the same step run one at a time per goroutine; the script travels through the context-free map keyed by
// the argument's identity is not possible, so every op uses its own run|step key and concurrent ops never share one).
func (b *built) handle(stepID string, d *stepData, input any) (string, any) {
	opAny, _ := b.scripts.Load(currentOpKey(stepID, input))
	b.rec.mu.Lock()
	b.rec.stepCalls[stepID] = append(b.rec.stepCalls[stepID], callRec{arg: input, data: d})
	b.rec.mu.Unlock()
	op, _ := opAny.(*scripted)
	if op == nil {
		return "success", nil
	}
	return op.id, op.data
}

type scripted struct {
	id   string
	data any
}

// currentOpKey identifies the scripted behaviour by step and by the value of the argument (rendered), which the
// generator makes unique per op through a marker property.
func currentOpKey(stepID string, input any) string {
	return stepID + "|" + fmt.Sprintf("%#v", canonical(input))
}

func canonical(x any) any {
	if m, ok := x.(map[string]any); ok {
		return fmt.Sprint(m["zz_marker"])
	}
	return "?"
}

func stepSpecOf(c Case, id string) *StepSpec {
	for i := range c.Steps {
		if c.Steps[i].ID == id {
			return &c.Steps[i]
		}
	}
	return nil
}

type opResult struct {
	outID string
	data  any
	err   error
	panic any
}

func run(c Case) string {
	b, err := build(c)
	if err != nil {
		return ""
	}
	ctx := context.Background()
	results := make([]opResult, len(c.Ops))
	// register scripts
	for i := range c.Ops {
		op := &c.Ops[i]
		if op.Kind != "step" {
			continue
		}
		st := stepSpecOf(c, op.Step)
		if st == nil {
			continue
		}
		var data any
		if osc, ok := b.outputs[st.ID][op.OutputID]; ok {
			if u, uerr := osc.Unserialize(op.OutputData.Go()); uerr == nil {
				data = u // conforming data in native form
			} else {
				data = op.OutputData.Go() // something the output schema does not accept
			}
		} else {
			data = op.OutputData.Go()
		}
		if u, uerr := b.inputs[st.ID].Unserialize(op.Input.Go()); uerr == nil {
			b.scripts.Store(currentOpKey(st.ID, u), &scripted{id: op.OutputID, data: data})
		}
	}
	exec := func(i int) {
		op := c.Ops[i]
		var r opResult
		r.panic = oracle.Safely(func() {
			if op.Kind == "step" {
				r.outID, r.data, r.err = b.callable.CallStep(ctx, op.Run, op.Step, op.Input.Go())
			} else {
				r.err = b.callable.CallSignal(ctx, op.Run, op.Step, op.Signal, op.Input.Go())
			}
		})
		results[i] = r
	}
	if c.Concurrent {
		var wg sync.WaitGroup
		start := make(chan struct{})
		for i := range c.Ops {
			wg.Add(1)
			go func(i int) {
				defer wg.Done()
				<-start
				exec(i)
			}(i)
		}
		close(start)
		wg.Wait()
	} else {
		for i := range c.Ops {
			exec(i)
		}
	}
	desc := func(i int) string {
		b, _ := json.Marshal(c.Ops[i])
		return fmt.Sprintf("op %d %s", i, b)
	}
	// ---- per-op verdicts
	expectedStepCalls := map[string]int{}
	expectedSigCalls := map[string]int{}
	for i, op := range c.Ops {
		r := results[i]
		if r.panic != nil {
			return fmt.Sprintf("%s panicked: %v", desc(i), r.panic)
		}
		st := stepSpecOf(c, op.Step)
		var bad schema.BadArgumentError
		var invIn schema.InvalidInputError
		var invOut schema.InvalidOutputError
		if op.Kind == "step" {
			if st == nil {
				if r.err == nil || !errors.As(r.err, &bad) {
					return fmt.Sprintf("%s: unknown step must give a BadArgumentError, got (%q, %v, %v)", desc(i), r.outID, r.data, r.err)
				}
				continue
			}
			u, uerr := b.inputs[st.ID].Unserialize(op.Input.Go())
			if uerr != nil {
				if r.err == nil || !errors.As(r.err, &invIn) {
					return fmt.Sprintf("%s: input rejected by the input schema (%v) must give an InvalidInputError, got (%q, %v, %v)", desc(i), uerr, r.outID, r.data, r.err)
				}
				continue
			}
			expectedStepCalls[st.ID]++
			// the handler must have seen exactly this value
			found := false
			b.rec.mu.Lock()
			for _, cr := range b.rec.stepCalls[st.ID] {
				if val.Equal(cr.arg, u, val.Opts{}) {
					found = true
				}
			}
			b.rec.mu.Unlock()
			if !found {
				return fmt.Sprintf("%s: the handler was not invoked with the unserialized input %#v", desc(i), u)
			}
			osc, declared := b.outputs[st.ID][op.OutputID]
			if !declared {
				if r.err == nil || !errors.As(r.err, &invOut) || r.data != nil {
					return fmt.Sprintf("%s: handler returned the undeclared output ID %q; want an InvalidOutputError and no data, got (%q, %v, %v)", desc(i), op.OutputID, r.outID, r.data, r.err)
				}
				continue
			}
			// what the handler returned (see the script registration above): the unserialized form of the scripted
			// raw data if the output schema accepts it, the raw value itself otherwise. Conformance of that native
			// value is what the second instance's Validate says (no defaulting happens on the way out).
			native := op.OutputData.Go()
			if u2, uerr2 := osc.Unserialize(op.OutputData.Go()); uerr2 == nil {
				native = u2
			}
			var nerr error
			if p := oracle.Safely(func() { nerr = osc.Validate(native) }); p != nil {
				continue // totality of Validate is C04's concern
			}
			if nerr != nil {
				// non-conforming data
				if r.err == nil || r.data != nil {
					return fmt.Sprintf("%s: handler returned data that the declared output %q does not accept (%v); want an error and no data, got (%q, %#v, %v)", desc(i), op.OutputID, nerr, r.outID, r.data, r.err)
				}
				continue
			}
			want, serr := osc.Serialize(native)
			if serr != nil {
				continue
			}
			if r.err != nil || r.outID != op.OutputID || !val.Equal(r.data, want, val.Opts{}) {
				return fmt.Sprintf("%s: want (%q, %#v, nil), got (%q, %#v, %v)", desc(i), op.OutputID, want, r.outID, r.data, r.err)
			}
			continue
		}
		// signal
		if st == nil {
			if r.err == nil || !errors.As(r.err, &bad) {
				return fmt.Sprintf("%s: unknown step must give a BadArgumentError, got %v", desc(i), r.err)
			}
			continue
		}
		ssc, known := b.signals[st.ID][op.Signal]
		if !known {
			if r.err == nil {
				return fmt.Sprintf("%s: unknown signal ID must give an error, got nil", desc(i))
			}
			continue
		}
		if _, uerr := ssc.Unserialize(op.Input.Go()); uerr != nil {
			if r.err == nil || !errors.As(r.err, &invIn) {
				return fmt.Sprintf("%s: signal data rejected by its schema (%v) must give an InvalidInputError, got %v", desc(i), uerr, r.err)
			}
			continue
		}
		if r.err != nil {
			return fmt.Sprintf("%s: valid signal failed: %v", desc(i), r.err)
		}
		expectedSigCalls[st.ID+"|"+op.Signal]++
	}
	// ---- invocation counts
	b.rec.mu.Lock()
	defer b.rec.mu.Unlock()
	for _, st := range c.Steps {
		if got := len(b.rec.stepCalls[st.ID]); got != expectedStepCalls[st.ID] {
			return fmt.Sprintf("step %s: handler invoked %d times, want %d (once per accepted call)", st.ID, got, expectedStepCalls[st.ID])
		}
		for _, sg := range st.Signals {
			key := st.ID + "|" + sg.ID
			if got := len(b.rec.sigCalls[key]); got != expectedSigCalls[key] {
				return fmt.Sprintf("signal %s: handler invoked %d times, want %d", key, got, expectedSigCalls[key])
			}
		}
	}
	// ---- step data: one value per (step, run) wherever an initializer exists
	for _, st := range c.Steps {
		if !st.WithSignals || !st.Initializer {
			continue
		}
		perRun := map[string]map[*stepData]bool{}
		add := func(run string, d *stepData) {
			if perRun[run] == nil {
				perRun[run] = map[*stepData]bool{}
			}
			perRun[run][d] = true
		}
		// match recorded calls back to runs through the ops that must have produced them
		for i, op := range c.Ops {
			if op.Step != st.ID || results[i].panic != nil {
				continue
			}
			if op.Kind == "step" {
				u, uerr := b.inputs[st.ID].Unserialize(op.Input.Go())
				if uerr != nil {
					continue
				}
				for _, cr := range b.rec.stepCalls[st.ID] {
					if val.Equal(cr.arg, u, val.Opts{}) {
						if cr.data == nil {
							return fmt.Sprintf("step %s run %s: the handler received nil step data although an initializer is declared", st.ID, op.Run)
						}
						add(op.Run, cr.data)
					}
				}
			} else if ssc, ok := b.signals[st.ID][op.Signal]; ok {
				u, uerr := ssc.Unserialize(op.Input.Go())
				if uerr != nil {
					continue
				}
				for _, cr := range b.rec.sigCalls[st.ID+"|"+op.Signal] {
					if val.Equal(cr.arg, u, val.Opts{}) {
						if cr.data == nil {
							return fmt.Sprintf("step %s run %s: the signal handler received nil step data although an initializer is declared", st.ID, op.Run)
						}
						add(op.Run, cr.data)
					}
				}
			}
		}
		seen := map[*stepData]string{}
		for run, set := range perRun {
			if len(set) != 1 {
				return fmt.Sprintf("step %s run %s: its handlers saw %d different step-data values; the step data must be created exactly once per run ID", st.ID, run, len(set))
			}
			for d := range set {
				if other, dup := seen[d]; dup {
					return fmt.Sprintf("step %s: runs %s and %s share one step-data value", st.ID, run, other)
				}
				seen[d] = run
			}
		}
	}
	return ""
}

// ---------------------------------------------------------------------------------------------------------------

func scopeGen(t *rapid.T, label string, marker bool) *spec.Spec {
	o := gen.Opts{MaxDepth: 2, Objects: true, Defaults: true, Presence: true, ScopeRoot: true, Units: true}
	s := gen.Spec(o).Draw(t, label)
	gen.AddDefaults(t, s, o)
	if marker {
		// every step/signal input carries a unique marker so that recorded arguments can be matched to ops
		root := s.ObjectByID(s.Root)
		root.Props = append(root.Props, spec.Prop{Name: "zz_marker", Type: &spec.Spec{Kind: spec.KInt}, Required: true})
		// a second property, so that a lone value can never be shorthand for the marker
		root.Props = append(root.Props, spec.Prop{Name: "zz_pad", Type: &spec.Spec{Kind: spec.KBool}})
	}
	return s
}

func withMarker(v val.V, n int) val.V {
	if v.T != "map[string]any" && v.T != "map[any]any" {
		return v
	}
	c := v
	c.M = nil
	for _, e := range v.M {
		if e.K.S != "zz_marker" {
			c.M = append(c.M, e)
		}
	}
	// markers are far away from anything the hostile-value generator produces (a lone integer is shorthand for
	// the marker property of a one-property input object)
	c.M = append(c.M, val.KV{K: val.Str("zz_marker"), V: val.Int("int64", 7000000+int64(n))})
	return c
}

func TestHistories(t *testing.T) {
	ev.Check(t, "histories", 1500, 30000, func(rt *rapid.T) {
		c := Case{Concurrent: rapid.Bool().Draw(rt, "concurrent")}
		for i := 0; i < rapid.IntRange(1, 3).Draw(rt, "nSteps"); i++ {
			st := StepSpec{ID: []string{"st", "st1", "st10"}[i%3], Input: scopeGen(rt, "input", true), WithSignals: rapid.Bool().Draw(rt, "withSignals")}
			st.Initializer = st.WithSignals && rapid.IntRange(0, 3).Draw(rt, "initializer") != 0
			for j := 0; j < rapid.IntRange(1, 3).Draw(rt, "nOutputs"); j++ {
				st.Outputs = append(st.Outputs, OutputSpec{ID: []string{"success", "error", "other"}[j], Schema: scopeGen(rt, "output", false)})
			}
			if st.WithSignals {
				for j := 0; j < rapid.IntRange(0, 2).Draw(rt, "nSignals"); j++ {
					st.Signals = append(st.Signals, SignalSpec{ID: []string{"sig", "sig1", "sig10"}[j%3], Data: scopeGen(rt, "sigdata", true)})
				}
			}
			c.Steps = append(c.Steps, st)
		}
		negative, sameRunOverlap := false, false
		usedRuns := map[string]map[string]bool{}
		marker := 0
		for i := 0; i < rapid.IntRange(1, 10).Draw(rt, "nOps"); i++ {
			marker++
			st := rapid.SampledFrom(c.Steps).Draw(rt, "opStep")
			op := Op{Run: rapid.SampledFrom([]string{"r", "r1", "r10"}).Draw(rt, "run"), Step: st.ID}
			if rapid.IntRange(0, 7).Draw(rt, "unknownStep") == 0 {
				op.Step = "no-such-step"
				negative = true
			}
			isSignal := len(st.Signals) > 0 && rapid.IntRange(0, 2).Draw(rt, "isSignal") != 0
			if isSignal || (st.WithSignals && rapid.IntRange(0, 9).Draw(rt, "unknownSignalOp") == 0) {
				op.Kind = "signal"
				var data *spec.Spec
				if len(st.Signals) > 0 && rapid.IntRange(0, 5).Draw(rt, "unknownSignal") != 0 {
					sg := rapid.SampledFrom(st.Signals).Draw(rt, "signal")
					op.Signal, data = sg.ID, sg.Data
				} else {
					op.Signal = "no-such-signal"
					negative = true
				}
				if data != nil {
					if mv, ok := gen.ValueFor(rt, data, nil, 2); ok && rapid.IntRange(0, 4).Draw(rt, "validSignalData") != 0 {
						op.Input = withMarker(gen.RenderCanonical(rt, data, nil, mv), marker)
					} else {
						op.Input = gen.Hostile(1).Draw(rt, "badSignalData")
						negative = true
					}
				} else {
					op.Input = val.V{T: "map[string]any"}
				}
			} else {
				op.Kind = "step"
				if mv, ok := gen.ValueFor(rt, st.Input, nil, 2); ok && rapid.IntRange(0, 4).Draw(rt, "validInput") != 0 {
					op.Input = withMarker(gen.Render(rt, st.Input, nil, mv).V, marker)
				} else {
					op.Input = gen.Hostile(1).Draw(rt, "badInput")
					negative = true
				}
				switch rapid.IntRange(0, 5).Draw(rt, "script") {
				case 0:
					op.OutputID = "undeclared-output"
					op.OutputData = val.V{T: "map[string]any"}
					negative = true
				case 1:
					out := rapid.SampledFrom(st.Outputs).Draw(rt, "out")
					op.OutputID = out.ID
					op.OutputData = rapid.SampledFrom([]val.V{val.Str("not an object"), val.Int("int64", 5), {T: "map[string]any", M: []val.KV{{K: val.Str("zz_undeclared"), V: val.Int("int64", 1)}}}, val.Nil()}).Draw(rt, "badData")
					negative = true
				default:
					out := rapid.SampledFrom(st.Outputs).Draw(rt, "out")
					op.OutputID = out.ID
					if mv, ok := gen.ValueFor(rt, out.Schema, nil, 2); ok {
						op.OutputData = gen.RenderCanonical(rt, out.Schema, nil, mv)
					} else {
						op.OutputData = val.V{T: "map[string]any"}
					}
				}
			}
			if usedRuns[op.Step+"|"+op.Run] == nil {
				usedRuns[op.Step+"|"+op.Run] = map[string]bool{}
			}
			usedRuns[op.Step+"|"+op.Run][op.Kind] = true
			c.Ops = append(c.Ops, op)
		}
		for _, kinds := range usedRuns {
			if kinds["step"] && kinds["signal"] && c.Concurrent {
				sameRunOverlap = true
			}
		}
		b, _ := json.Marshal(c)
		ev.Case(ev.FP(string(b)), negative || sameRunOverlap, fmt.Sprintf("concurrent=%v", c.Concurrent), fmt.Sprintf("negative=%v", negative), fmt.Sprintf("signal_races_step=%v", sameRunOverlap))
		if (negative || sameRunOverlap) && ev.WantSample("history") {
			ev.Sample("history", c)
		}
		if msg := run(c); msg != "" {
			ev.Fail(rt, "history", c, "%s", msg)
		}
	})
}
