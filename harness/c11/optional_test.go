package c11

import (
	"context"
	"encoding/json"
	"errors"
	"fmt"
	"testing"

	"go.flow.arcalot.io/pluginsdk/schema"
	"pgregory.net/rapid"
	"verif/harness/ev"
	"verif/harness/gen"
	"verif/harness/model"
	"verif/harness/oracle"
	"verif/harness/spec"
	"verif/harness/val"
)

// optionalCase: a step whose input object has no required property (so an empty mapping is a valid input) called with
// one raw input. The histories of TestHistories identify calls by a required marker property and therefore never see
// this shape.
type optionalCase struct {
	Input   *spec.Spec `json:"input"`
	Raw     val.V      `json:"raw"`
	Signals bool       `json:"signals"`
}

func runOptional(c optionalCase) (string, string) {
	in, err := spec.Build(c.Input)
	if err != nil {
		return "", "build_error"
	}
	out := map[string]*schema.StepOutputSchema{"success": schema.NewStepOutputSchema(
		schema.NewScopeSchema(schema.NewObjectSchema("Out", map[string]*schema.PropertySchema{
			"n": schema.NewPropertySchema(schema.NewIntSchema(nil, nil, nil), nil, false, nil, nil, nil, nil, nil)})), nil, false)}
	calls := 0
	var seen any
	var step schema.CallableStep
	if c.Signals {
		step = schema.NewCallableStepWithSignals[any, any]("s", in.(*schema.ScopeSchema), out, nil, nil, nil, func() any { return new(int) },
			func(_ context.Context, _ any, input any) (string, any) { calls++; seen = input; return "success", map[string]any{} })
	} else {
		step = schema.NewCallableStep[any]("s", in.(*schema.ScopeSchema), out, nil,
			func(_ context.Context, input any) (string, any) { calls++; seen = input; return "success", map[string]any{} })
	}
	cs := schema.NewCallableSchema(step)
	mv, verdict := model.Denote(c.Input, nil, c.Raw.Go())
	var id string
	var cerr error
	if p := oracle.Safely(func() { id, _, cerr = cs.CallStep(context.Background(), "r", "s", c.Raw.Go()) }); p != nil {
		return fmt.Sprintf("CallStep(%s) panicked: %v", c.Raw, p), "panic"
	}
	switch verdict {
	case model.Accept:
		if cerr != nil || id != "success" || calls != 1 {
			return fmt.Sprintf("CallStep(%s): the input schema accepts the input, want one handler invocation and (\"success\", nil); got id=%q err=%v invocations=%d", c.Raw, id, cerr, calls), "accept"
		}
		if m := model.Match(c.Input, nil, mv, seen); m != "" {
			return fmt.Sprintf("CallStep(%s): the handler received %#v, not the unserialized value: %s", c.Raw, seen, m), "accept"
		}
		return "", "accept"
	case model.Reject:
		var inv schema.InvalidInputError
		if calls != 0 {
			return fmt.Sprintf("CallStep(%s): the input schema rejects the input but the handler was invoked %d time(s) with %#v (result %q, %v)", c.Raw, calls, seen, id, cerr), "reject"
		}
		if cerr == nil || !errors.As(cerr, &inv) {
			return fmt.Sprintf("CallStep(%s): a rejected input must give an InvalidInputError, got (%q, %v)", c.Raw, id, cerr), "reject"
		}
		return "", "reject"
	}
	return "", "unspecified"
}

// TestOptionalInputs: input objects that an empty mapping satisfies x raw inputs of every shape (nil, scalars, lists,
// empty and non-empty maps, valid values): the handler runs iff the input schema accepts the raw input.
func TestOptionalInputs(t *testing.T) {
	ev.Check(t, "optional", 400, 8000, func(rt *rapid.T) {
		o := gen.Opts{MaxDepth: 2, Objects: true, Defaults: true, ScopeRoot: true, Units: true}
		s := gen.Spec(o).Draw(rt, "input")
		root := s.ObjectByID(s.Root)
		for i := range root.Props {
			root.Props[i].Required = false
			root.Props[i].RequiredIf, root.Props[i].RequiredIfNot, root.Props[i].Conflicts = nil, nil, nil
		}
		gen.AddDefaults(rt, s, o)
		var raw val.V
		switch rapid.IntRange(0, 5).Draw(rt, "rawKind") {
		case 0:
			raw = val.Nil()
		case 1:
			raw = val.V{T: rapid.SampledFrom([]string{"map[string]any", "map[any]any", "nilmap[string]any", "[]any", "nil[]any"}).Draw(rt, "empty")}
		case 2:
			if mv, ok := gen.ValueFor(rt, s, nil, 2); ok {
				raw = gen.Render(rt, s, nil, mv).V
			} else {
				raw = val.Nil()
			}
		default:
			raw = gen.Hostile(1).Draw(rt, "raw")
		}
		c := optionalCase{Input: s, Raw: raw, Signals: rapid.Bool().Draw(rt, "signals")}
		msg, class := runOptional(c)
		ev.Case(ev.FP("optional", oracle.SpecJSON(s), raw.String(), c.Signals), class == "reject", "optional_input:"+class, "optional_raw:"+raw.T)
		if msg != "" {
			ev.Fail(rt, "optional", c, "%s\ninput schema: %s", msg, oracle.SpecJSON(s))
		}
	})
}

func init() {
	ev.RegisterReplay("optional", func(t *testing.T, raw json.RawMessage) {
		var c optionalCase
		if err := json.Unmarshal(raw, &c); err != nil {
			t.Fatal(err)
		}
		if msg, _ := runOptional(c); msg != "" {
			t.Fatal(msg)
		}
	})
}
