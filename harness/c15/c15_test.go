package c15

import (
	"encoding/json"
	"fmt"
	"math"
	"runtime/debug"
	"strings"
	"testing"
	"time"

	"go.flow.arcalot.io/pluginsdk/schema"
	"pgregory.net/rapid"
	"verif/harness/ev"
	"verif/harness/gen"
	"verif/harness/spec"
	"verif/harness/sup"
)

func TestMain(m *testing.M) {
	sup.Register("c15", workerFn)
	if sup.IsWorker() {
		sup.RunWorker()
	}
	ev.Note("rule", "C15: ordered pairs (consumer A, producer B) of generated schemas, evaluated as A.ValidateCompatibility(B) in a supervised worker, 16 times each: B = A itself; B = an identical copy; B = A rebuilt from its own description (scopes); B = A with exactly one mutation at a random depth that makes it unconsumable (a different base kind; a numeric range / string length / list size / map size disjoint from A's; an enum value outside A's set; an undeclared property (added, or an optional one renamed); a required property dropped; a different ID with both sides enforcing; another discriminator name; a one-of member dropped), or with one harmless mutation (ranges still overlapping); plus the full 2^4 matrix of nil/non-nil (A.min, A.max, B.min, B.max) for integer, float, string, list and map bounds with overlapping and disjoint values (enumerated), and recursive / mutually recursive scopes. Oracle: a verdict is returned (no panic, fatal error or hang); the 16 repetitions agree; identical, copied and rebuilt producers are accepted; unconsumable mutants are rejected. Non-trivial: the pair is a must-reject mutant, has a mixed nil/non-nil bound pattern, or is recursive; distinct by (A, B).")
	ev.RegisterReplay("pair", func(t *testing.T, raw json.RawMessage) {
		var c Case
		if err := json.Unmarshal(raw, &c); err != nil {
			t.Fatal(err)
		}
		w := sup.NewWorker("c15")
		defer w.Close()
		if msg, _ := judge(w, c); msg != "" {
			t.Fatal(msg)
		}
	})
	ev.Main(m, "C15")
}

func TestReplay(t *testing.T) { ev.RunReplay(t) }

type Case struct {
	A      *spec.Spec `json:"a"`
	B      *spec.Spec `json:"b,omitempty"` // nil with Mode same/rebuilt
	Mode   string     `json:"mode"`        // same, copy, rebuilt, mutant
	Expect string     `json:"expect"`      // accept, reject, any
	Reason string     `json:"reason,omitempty"`
}

type result struct {
	Outcome  string   `json:"outcome"` // ok, panic, skip
	Verdicts []string `json:"verdicts"`
	Text     string   `json:"text,omitempty"`
}

func workerFn(raw json.RawMessage) json.RawMessage {
	var c Case
	res := result{}
	if err := json.Unmarshal(raw, &c); err != nil {
		res.Outcome, res.Text = "skip", err.Error()
		b, _ := json.Marshal(res)
		return b
	}
	func() {
		a, err := spec.Build(c.A)
		if err != nil {
			res.Outcome, res.Text = "skip", err.Error()
			return
		}
		var b schema.Type
		switch c.Mode {
		case "same":
			b = a
		case "rebuilt":
			sc, ok := a.(*schema.ScopeSchema)
			if !ok {
				res.Outcome, res.Text = "skip", "not a scope"
				return
			}
			var rebuilt *schema.ScopeSchema
			var rerr error
			func() {
				defer func() {
					if e := recover(); e != nil {
						rerr = fmt.Errorf("panic: %v", e)
					}
				}()
				d, derr := sc.SelfSerialize()
				if derr != nil {
					rerr = derr
					return
				}
				rebuilt, rerr = schema.UnserializeScope(d)
				if rerr == nil {
					rebuilt.ApplySelf()
				}
			}()
			if rerr != nil {
				res.Outcome, res.Text = "skip", "cannot rebuild (C09's concern): "+rerr.Error()
				return
			}
			b = rebuilt
		default:
			b, err = spec.Build(c.B)
			if err != nil {
				res.Outcome, res.Text = "skip", err.Error()
				return
			}
		}
		defer func() {
			if e := recover(); e != nil {
				res.Outcome = "panic"
				st := string(debug.Stack())
				if i := strings.Index(st, "/repo/schema/"); i >= 0 {
					j := strings.IndexByte(st[i:], '\n')
					res.Text = fmt.Sprintf("%v at %s", e, st[i:i+j])
				} else {
					res.Text = fmt.Sprint(e)
				}
			}
		}()
		for i := 0; i < 16; i++ {
			verr := a.ValidateCompatibility(b)
			if verr == nil {
				res.Verdicts = append(res.Verdicts, "accept")
			} else {
				res.Verdicts = append(res.Verdicts, "reject: "+verr.Error())
			}
		}
		res.Outcome = "ok"
	}()
	b, _ := json.Marshal(res)
	return b
}

func sj(s *spec.Spec) string {
	if s == nil {
		return "<same>"
	}
	b, _ := json.Marshal(s)
	return string(b)
}

func isRecursive(s *spec.Spec) bool { return gen.IsRecursive(s) }

func judge(w *sup.Worker, c Case) (string, string) {
	body, crash := w.Do(c, 20*time.Second)
	head := fmt.Sprintf("A.ValidateCompatibility(B) [%s%s]\n A = %s\n B = %s", c.Mode, optReason(c), sj(c.A), sj(c.B))
	if crash != nil {
		if isRecursive(c.A) && (c.Mode != "mutant" || isRecursive(c.B)) && strings.Contains(crash.Text+crash.Log, "stack") && ev.Known("recursive-compat") {
			return "", "known"
		}
		return fmt.Sprintf("no verdict: %s\n%s\n%s", crash, head, firstLines(crash.Log, 25)), crash.Kind
	}
	var r result
	if err := json.Unmarshal(body, &r); err != nil {
		return "harness: " + err.Error(), "harness"
	}
	switch r.Outcome {
	case "skip":
		return "", "skip"
	case "panic":
		return fmt.Sprintf("no verdict: panic: %s\n%s", r.Text, head), "panic"
	}
	first := strings.SplitN(r.Verdicts[0], ":", 2)[0]
	for i, v := range r.Verdicts {
		if strings.SplitN(v, ":", 2)[0] != first {
			return fmt.Sprintf("verdict depends on the evaluation (map iteration order): run 1 = %q, run %d = %q\n%s", r.Verdicts[0], i+1, v, head), "nondeterministic"
		}
	}
	if c.Expect == "accept" && first != "accept" {
		return fmt.Sprintf("a schema must be compatible with %s, got: %s\n%s", map[string]string{"same": "itself", "copy": "an identical copy of itself", "rebuilt": "a schema rebuilt from its own description", "mutant": "this producer"}[c.Mode], r.Verdicts[0], head), first
	}
	if c.Expect == "reject" && first != "reject" {
		return fmt.Sprintf("a producer that can never be consumed was accepted (%s)\n%s", c.Reason, head), first
	}
	return "", first
}

func optReason(c Case) string {
	if c.Reason != "" {
		return ": " + c.Reason
	}
	return ""
}

func firstLines(s string, n int) string {
	l := strings.Split(s, "\n")
	if len(l) > n {
		l = l[:n]
	}
	return strings.Join(l, "\n")
}

func clone(s *spec.Spec) *spec.Spec {
	b, _ := json.Marshal(s)
	var c spec.Spec
	if err := json.Unmarshal(b, &c); err != nil {
		panic(err)
	}
	return &c
}

// ---------------------------------------------------------------------------------------------------------------
// mutations

type site struct {
	node  *spec.Spec
	under string // kind of the nearest enclosing node ("" at root)
}

func sites(root *spec.Spec) []site {
	var out []site
	var walk func(s *spec.Spec, under string)
	walk = func(s *spec.Spec, under string) {
		if s == nil {
			return
		}
		out = append(out, site{s, under})
		walk(s.Items, s.Kind)
		walk(s.Keys, s.Kind)
		walk(s.Values, s.Kind)
		for i := range s.Props {
			walk(s.Props[i].Type, s.Kind)
		}
		for _, o := range s.Objects {
			walk(o, "scope")
		}
		for i := range s.Members {
			walk(s.Members[i].Type, s.Kind)
		}
	}
	walk(root, "")
	return out
}

// reachable: the node is part of what the root denotes (objects of a scope that nothing refers to are not).
func reachableIDs(root *spec.Spec) map[*spec.Spec]bool {
	reach := map[*spec.Spec]bool{}
	var visit func(s *spec.Spec, scope *spec.Spec)
	visit = func(s *spec.Spec, scope *spec.Spec) {
		if s == nil || reach[s] {
			return
		}
		reach[s] = true
		switch s.Kind {
		case spec.KScope:
			visit(s.ObjectByID(s.Root), s)
			return
		case spec.KRef:
			if scope != nil && s.Namespace == "" {
				visit(scope.ObjectByID(s.RefID), scope)
			}
			return
		}
		visit(s.Items, scope)
		visit(s.Keys, scope)
		visit(s.Values, scope)
		for i := range s.Props {
			visit(s.Props[i].Type, scope)
		}
		for i := range s.Members {
			visit(s.Members[i].Type, scope)
		}
	}
	visit(root, nil)
	return reach
}

var leafOfKind = map[string]func() *spec.Spec{
	spec.KInt:     func() *spec.Spec { return &spec.Spec{Kind: spec.KInt} },
	spec.KFloat:   func() *spec.Spec { return &spec.Spec{Kind: spec.KFloat} },
	spec.KString:  func() *spec.Spec { return &spec.Spec{Kind: spec.KString} },
	spec.KBool:    func() *spec.Spec { return &spec.Spec{Kind: spec.KBool} },
	spec.KPattern: func() *spec.Spec { return &spec.Spec{Kind: spec.KPattern} },
	spec.KList:    func() *spec.Spec { return &spec.Spec{Kind: spec.KList, Items: &spec.Spec{Kind: spec.KBool}} },
	spec.KMap: func() *spec.Spec {
		return &spec.Spec{Kind: spec.KMap, Keys: &spec.Spec{Kind: spec.KString}, Values: &spec.Spec{Kind: spec.KBool}}
	},
	spec.KEnumS: func() *spec.Spec { return &spec.Spec{Kind: spec.KEnumS, Enum: []spec.EnumVal{{S: "zz"}}} },
	spec.KEnumI: func() *spec.Spec { return &spec.Spec{Kind: spec.KEnumI, Enum: []spec.EnumVal{{I: 77}}} },
	spec.KObject: func() *spec.Spec { return &spec.Spec{Kind: spec.KObject, ID: "zzobj"} },
}

// differentBaseKind: pairs (consumer kind, producer kind) the statement lists as unconsumable.
func differentBaseKind(consumer, producer string) bool {
	if consumer == producer || consumer == spec.KAny {
		return false
	}
	norm := func(k string) string {
		switch k {
		case spec.KTypedEnumS:
			return spec.KEnumS
		case spec.KRef, spec.KScope:
			return spec.KObject
		}
		return k
	}
	c, p := norm(consumer), norm(producer)
	if c == p {
		return false
	}
	if (c == spec.KInt && p == spec.KEnumI) || (c == spec.KString && p == spec.KEnumS) {
		return false // enums are accepted where their base type is expected
	}
	return true
}

// mutate changes B in place at one site. Returns the reason and whether the result must be rejected.
func mutate(t *rapid.T, b *spec.Spec) (string, bool) {
	reach := reachableIDs(b)
	var ss []site
	for _, s := range sites(b) {
		if reach[s.node] && s.under != spec.KAny {
			ss = append(ss, s)
		}
	}
	st := rapid.SampledFrom(ss).Draw(t, "site")
	n := st.node
	// a map key must stay a legal key type
	choice := rapid.IntRange(0, 3).Draw(t, "mutationChoice")
	kindChange := func() (string, bool) {
		var cands []string
		for k := range leafOfKind {
			if differentBaseKind(n.Kind, k) {
				cands = append(cands, k)
			}
		}
		if len(cands) == 0 {
			return "", false
		}
		sortStrings(cands)
		k := rapid.SampledFrom(cands).Draw(t, "newKind")
		if st.under == spec.KMap {
			// keys must remain int/string kinds for the constructor; values are free. We cannot tell key from
			// value here, so keep to kinds that are legal in both positions.
			switch k {
			case spec.KInt, spec.KString, spec.KEnumS, spec.KEnumI:
			default:
				return "", false
			}
		}
		if st.under == spec.KScope || st.under == spec.KOneOfI || st.under == spec.KOneOfS {
			return "", false // scope tables and one-of members must stay objects
		}
		old := n.Kind
		*n = *leafOfKind[k]()
		return fmt.Sprintf("base kind %s -> %s", old, k), true
	}
	switch n.Kind {
	case spec.KInt:
		if choice == 0 {
			return kindChange()
		}
		return mutateRange(t, &n.Min, &n.Max, "integer range")
	case spec.KFloat:
		if choice == 0 {
			return kindChange()
		}
		return mutateFRange(t, n)
	case spec.KString:
		if choice == 0 {
			return kindChange()
		}
		return mutateRange(t, &n.Min, &n.Max, "string length")
	case spec.KList:
		if choice == 0 {
			return kindChange()
		}
		return mutateRange(t, &n.Min, &n.Max, "list size")
	case spec.KMap:
		if choice == 0 {
			return kindChange()
		}
		return mutateRange(t, &n.Min, &n.Max, "map size")
	case spec.KEnumS, spec.KTypedEnumS:
		if choice == 0 && n.Kind == spec.KEnumS {
			return kindChange()
		}
		if choice == 1 && len(n.Enum) > 1 {
			n.Enum = n.Enum[:len(n.Enum)-1]
			return "enum value removed from the producer (still a subset)", false
		}
		n.Enum = append(n.Enum, spec.EnumVal{S: "zz_outside"})
		return "enum value outside the consumer's set", true
	case spec.KEnumI:
		if choice == 0 {
			return kindChange()
		}
		if choice == 1 && len(n.Enum) > 1 {
			n.Enum = n.Enum[:len(n.Enum)-1]
			return "enum value removed from the producer (still a subset)", false
		}
		n.Enum = append(n.Enum, spec.EnumVal{I: 424242})
		return "enum value outside the consumer's set", true
	case spec.KBool, spec.KPattern:
		return kindChange()
	case spec.KObject:
		switch choice {
		case 0:
			if n.Struct == "" {
				n.Props = append(n.Props, spec.Prop{Name: "zz_extra", Type: &spec.Spec{Kind: spec.KBool}})
				return "producer object carries an undeclared property", true
			}
		case 1:
			for i := range n.Props {
				if n.Props[i].Required {
					name := n.Props[i].Name
					n.Props = append(n.Props[:i:i], n.Props[i+1:]...)
					for j := range n.Props {
						p := &n.Props[j]
						p.RequiredIf, p.RequiredIfNot, p.Conflicts = drop(p.RequiredIf, name), drop(p.RequiredIfNot, name), drop(p.Conflicts, name)
					}
					return "producer object lacks the required property " + name, true
				}
			}
		case 2:
			if st.under != spec.KScope && !n.IDUnenforced {
				n.ID = n.ID + "_other"
				return "different object ID, both sides enforcing", true
			}
		case 3:
			// an optional property renamed: the producer carries an undeclared property AND has no more properties
			// than the consumer declares (counting properties cannot tell)
			if n.Struct == "" {
				for i := range n.Props {
					if !n.Props[i].Required && len(n.Props[i].RequiredIf) == 0 && len(n.Props[i].RequiredIfNot) == 0 {
						old := n.Props[i].Name
						n.Props[i].Name = old + "_renamed"
						for j := range n.Props {
							q := &n.Props[j]
							q.RequiredIf, q.RequiredIfNot, q.Conflicts = drop(q.RequiredIf, old), drop(q.RequiredIfNot, old), drop(q.Conflicts, old)
						}
						return "producer object carries an undeclared property in place of the optional property " + old, true
					}
				}
			}
		}
		return "", false
	case spec.KOneOfI, spec.KOneOfS:
		if choice <= 1 {
			// renaming must keep inlined members consistent
			old := n.Discriminator
			n.Discriminator = old + "x"
			if n.Inlined {
				for i := range n.Members {
					renameProp(n.Members[i].Type, old, n.Discriminator)
				}
			}
			for i := range n.Members {
				if hasStruct(n.Members[i].Type) {
					n.Discriminator = old
					return "", false
				}
			}
			return "one-of with another discriminator field", true
		}
		if len(n.Members) > 1 {
			n.Members = n.Members[:len(n.Members)-1]
			return "one-of member missing in the producer", true
		}
	}
	return "", false
}

func hasStruct(s *spec.Spec) bool {
	f := false
	spec.Walk(s, func(n *spec.Spec) {
		if n.Struct != "" {
			f = true
		}
	})
	return f
}

func renameProp(s *spec.Spec, old, new string) {
	spec.Walk(s, func(n *spec.Spec) {
		if n.Kind == spec.KObject {
			for i := range n.Props {
				if n.Props[i].Name == old {
					n.Props[i].Name = new
				}
			}
		}
	})
}

func drop(l []string, n string) []string {
	var o []string
	for _, x := range l {
		if x != n {
			o = append(o, x)
		}
	}
	return o
}

func sortStrings(s []string) {
	for i := 1; i < len(s); i++ {
		for j := i; j > 0 && s[j] < s[j-1]; j-- {
			s[j], s[j-1] = s[j-1], s[j]
		}
	}
}

// mutateRange makes B's [min,max] disjoint from (or still overlapping with) the original. The original bounds are
// what the consumer keeps.
func mutateRange(t *rapid.T, mn, mx **int64, what string) (string, bool) {
	amin, amax := *mn, *mx
	switch rapid.IntRange(0, 3).Draw(t, "rangeMutation") {
	case 0: // producer entirely above the consumer's max
		if amax != nil && *amax < math.MaxInt64-10 && *amax >= -1 {
			lo := *amax + 1 + int64(rapid.IntRange(0, 3).Draw(t, "gap"))
			*mn = spec.P(lo)
			if rapid.Bool().Draw(t, "keepMaxNil") {
				*mx = nil
			} else {
				*mx = spec.P(lo + 5)
			}
			return what + " entirely above the consumer's maximum", true
		}
	case 1: // producer entirely below the consumer's min
		if amin != nil && *amin > math.MinInt64+10 && (*amin > 0 || what == "integer range") {
			hi := *amin - 1 - int64(rapid.IntRange(0, 3).Draw(t, "gap"))
			if what != "integer range" && hi < 0 {
				break
			}
			*mx = spec.P(hi)
			if rapid.Bool().Draw(t, "keepMinNil") || (what != "integer range") {
				*mn = nil
			} else {
				*mn = spec.P(hi - 5)
			}
			return what + " entirely below the consumer's minimum", true
		}
	case 2: // harmless: widen
		*mn, *mx = nil, nil
		return what + " widened (still overlapping)", false
	}
	// harmless: touch at the boundary
	if amax != nil {
		*mn = spec.P(*amax)
		*mx = nil
		return what + " touching the consumer's maximum (overlapping)", false
	}
	return "", false
}

func mutateFRange(t *rapid.T, n *spec.Spec) (string, bool) {
	amin, amax := n.FMin, n.FMax
	switch rapid.IntRange(0, 2).Draw(t, "frangeMutation") {
	case 0:
		if amax != nil && !math.IsInf(*amax, 0) && !math.IsNaN(*amax) && math.Abs(*amax) < 1e300 {
			lo := *amax + 1 + math.Abs(*amax)*1e-6
			n.FMin = spec.P(lo)
			if rapid.Bool().Draw(t, "keepMaxNil") {
				n.FMax = nil
			} else {
				n.FMax = spec.P(lo + 5 + math.Abs(lo)*1e-6)
			}
			return "float range entirely above the consumer's maximum", true
		}
	case 1:
		if amin != nil && !math.IsInf(*amin, 0) && !math.IsNaN(*amin) && math.Abs(*amin) < 1e300 {
			hi := *amin - 1 - math.Abs(*amin)*1e-6
			n.FMax = spec.P(hi)
			if rapid.Bool().Draw(t, "keepMinNil") {
				n.FMin = nil
			} else {
				n.FMin = spec.P(hi - 5 - math.Abs(hi)*1e-6)
			}
			return "float range entirely below the consumer's minimum", true
		}
	}
	n.FMin, n.FMax = nil, nil
	return "float range widened (still overlapping)", false
}

// ---------------------------------------------------------------------------------------------------------------
// tests

var theWorker *sup.Worker

func worker() *sup.Worker {
	if theWorker == nil {
		theWorker = sup.NewWorker("c15")
	}
	return theWorker
}

func c15Opts(depth int) gen.Opts {
	o := gen.Full(depth)
	o.Unsat = false
	o.TypedContainers = true
	return o
}

func TestPairs(t *testing.T) {
	defer func() {
		if theWorker != nil {
			theWorker.Close()
			theWorker = nil
		}
	}()
	depth := ev.N(3, 4)
	ev.Check(t, "pairs", 1500, 40000, func(rt *rapid.T) {
		o := c15Opts(depth)
		a := gen.Spec(o).Draw(rt, "a")
		gen.AddDefaults(rt, a, o)
		rec := isRecursive(a)
		if rec && ev.KnownListed("recursive-compat") {
			// excluded by construction while the finding is recorded; exercised by TestRecursive
			ev.Class("excluded_known:recursive-compat", 1)
			rt.Skip("recursive scope (recorded known finding)")
		}
		c := Case{A: a}
		switch rapid.IntRange(0, 10).Draw(rt, "mode") {
		case 10:
			// the same schema with the other representation of its lists / maps of scalars (typed constructor vs
			// untyped constructor): a matter of Go types, not of what the schema accepts
			b := clone(a)
			flipped := 0
			spec.Walk(b, func(n *spec.Spec) {
				if spec.TypedContainer(n) {
					n.Typed = !n.Typed
					flipped++
				}
			})
			c.Mode, c.Expect, c.B = "retyped", "accept", b
			if flipped == 0 {
				c.Mode = "copy"
			}
		case 0:
			c.Mode, c.Expect = "same", "accept"
		case 1:
			c.Mode, c.Expect, c.B = "copy", "accept", clone(a)
		case 2, 3:
			c.Mode, c.Expect = "rebuilt", "accept"
		default:
			b := clone(a)
			reason, must := mutate(rt, b)
			if reason == "" {
				c.Mode, c.Expect, c.B = "copy", "accept", clone(a)
			} else {
				c.Mode, c.B, c.Reason = "mutant", b, reason
				c.Expect = "any"
				if must {
					c.Expect = "reject"
				}
			}
		}
		msg, outcome := judge(worker(), c)
		nontrivial := c.Expect == "reject" || rec
		cls := c.Mode
		if c.Mode == "mutant" {
			cls = "mutant:" + strings.SplitN(c.Reason, " ", 3)[0] + "_" + strings.SplitN(c.Reason+" x x", " ", 3)[1]
		}
		ev.Case(ev.FP(sj(c.A), sj(c.B), c.Mode), nontrivial, "mode:"+c.Mode, "expect:"+c.Expect, "outcome:"+outcome, "class:"+cls+":"+outcome)
		if nontrivial && ev.WantSample("pair_"+c.Expect) {
			ev.Sample("pair_"+c.Expect, c)
		}
		if msg != "" {
			ev.Fail(rt, "pair", c, "%s", msg)
		}
	})
}

// TestBoundMatrix: all 2^4 nil/non-nil patterns of (A.min, A.max, B.min, B.max) with overlapping and disjoint values.
func TestBoundMatrix(t *testing.T) {
	if ev.Replaying() {
		t.Skip()
	}
	w := sup.NewWorker("c15")
	defer w.Close()
	idx := 0
	type shape struct {
		aMin, aMax, bMin, bMax int64
		disjoint               bool
	}
	// consumer [10,20]; producers: inside, overlapping low, overlapping high, above, below, touching
	shapes := []shape{{10, 20, 12, 18, false}, {10, 20, 5, 15, false}, {10, 20, 15, 25, false}, {10, 20, 21, 30, true}, {10, 20, 1, 9, true}, {10, 20, 20, 30, false}, {10, 20, 0, 10, false}}
	kinds := []string{spec.KInt, spec.KFloat, spec.KString, spec.KList, spec.KMap}
	for _, k := range kinds {
		for _, sh := range shapes {
			for mask := 0; mask < 16; mask++ {
				idx++
				if !ev.Mine(idx) {
					continue
				}
				mk := func(mn, mx int64, hasMin, hasMax bool) *spec.Spec {
					s := &spec.Spec{Kind: k}
					switch k {
					case spec.KFloat:
						if hasMin {
							s.FMin = spec.P(float64(mn))
						}
						if hasMax {
							s.FMax = spec.P(float64(mx))
						}
						return s
					case spec.KList:
						s.Items = &spec.Spec{Kind: spec.KBool}
					case spec.KMap:
						s.Keys, s.Values = &spec.Spec{Kind: spec.KString}, &spec.Spec{Kind: spec.KBool}
					}
					if hasMin {
						s.Min = spec.P(mn)
					}
					if hasMax {
						s.Max = spec.P(mx)
					}
					return s
				}
				aHasMin, aHasMax, bHasMin, bHasMax := mask&1 != 0, mask&2 != 0, mask&4 != 0, mask&8 != 0
				a := mk(sh.aMin, sh.aMax, aHasMin, aHasMax)
				b := mk(sh.bMin, sh.bMax, bHasMin, bHasMax)
				// with the bounds that are actually present, can a value satisfy both?
				lo, hi := int64(math.MinInt64), int64(math.MaxInt64)
				if k != spec.KInt && k != spec.KFloat {
					lo = 0
				}
				for _, x := range []struct {
					has bool
					v   int64
					min bool
				}{{aHasMin, sh.aMin, true}, {bHasMin, sh.bMin, true}, {aHasMax, sh.aMax, false}, {bHasMax, sh.bMax, false}} {
					if x.has && x.min && x.v > lo {
						lo = x.v
					}
					if x.has && !x.min && x.v < hi {
						hi = x.v
					}
				}
				c := Case{A: a, B: b, Mode: "mutant", Expect: "any", Reason: fmt.Sprintf("%s bounds A=[%s,%s] B=[%s,%s]", k, opt(aHasMin, sh.aMin), opt(aHasMax, sh.aMax), opt(bHasMin, sh.bMin), opt(bHasMax, sh.bMax))}
				if lo > hi {
					c.Expect = "reject"
					c.Reason += ": the ranges cannot overlap"
				} else if mask == 15 || mask == 0 {
					c.Expect = "accept"
				}
				msg, outcome := judge(w, c)
				mixed := mask != 0 && mask != 15
				ev.Case(ev.FP("matrix", k, sh, mask), mixed || c.Expect == "reject", "matrix:"+k+":"+c.Expect+":"+outcome)
				if msg != "" {
					ev.Fail(t, "pair", c, "%s", msg)
				}
			}
		}
	}
	ev.Exhaustive("bound matrix: 5 kinds x 7 range shapes x 16 nil/non-nil patterns of (A.min, A.max, B.min, B.max)")
}

func opt(has bool, v int64) string {
	if !has {
		return "nil"
	}
	return fmt.Sprint(v)
}

// TestRecursive: recursive and mutually recursive scopes against themselves and a copy.
func TestRecursive(t *testing.T) {
	if ev.Replaying() {
		t.Skip()
	}
	if sh, _ := ev.Shard(); sh != 0 {
		t.Skip()
	}
	w := sup.NewWorker("c15")
	defer w.Close()
	self := &spec.Spec{Kind: spec.KScope, Root: "N", Objects: []*spec.Spec{{Kind: spec.KObject, ID: "N", Props: []spec.Prop{{Name: "next", Type: &spec.Spec{Kind: spec.KRef, RefID: "N"}}, {Name: "v", Type: &spec.Spec{Kind: spec.KInt}}}}}}
	mutual := &spec.Spec{Kind: spec.KScope, Root: "A", Objects: []*spec.Spec{
		{Kind: spec.KObject, ID: "A", Props: []spec.Prop{{Name: "b", Type: &spec.Spec{Kind: spec.KRef, RefID: "B"}}}},
		{Kind: spec.KObject, ID: "B", Props: []spec.Prop{{Name: "a", Type: &spec.Spec{Kind: spec.KList, Items: &spec.Spec{Kind: spec.KRef, RefID: "A"}}}}}}}
	structNode := &spec.Spec{Kind: spec.KScope, Root: "N", Objects: []*spec.Spec{{Kind: spec.KObject, ID: "N", Struct: "*Node", Props: []spec.Prop{{Name: "next", Type: &spec.Spec{Kind: spec.KRef, RefID: "N"}}, {Name: "v", Type: &spec.Spec{Kind: spec.KInt}}}}}}
	for i, s := range []*spec.Spec{self, mutual, structNode} {
		for _, mode := range []string{"same", "copy", "rebuilt"} {
			c := Case{A: s, Mode: mode, Expect: "accept"}
			if mode == "copy" {
				c.B = clone(s)
			}
			msg, outcome := judge(w, c)
			ev.Case(ev.FP("recursive", i, mode), true, "recursive:"+mode+":"+outcome)
			if msg != "" {
				ev.Fail(t, "pair", c, "%s", msg)
			}
		}
	}
}
