package c08

import (
	"bytes"
	"context"
	"encoding/json"
	"errors"
	"fmt"
	"io"
	"runtime"
	"strings"
	"sync"
	"testing"
	"time"

	"github.com/fxamacker/cbor/v2"
	"go.flow.arcalot.io/pluginsdk/atp"
	"go.flow.arcalot.io/pluginsdk/schema"
	"pgregory.net/rapid"
	"verif/harness/atpx"
	"verif/harness/ev"
	"verif/harness/sup"
	"verif/harness/val"
)

func TestMain(m *testing.M) {
	sup.Register("c08", workerFn)
	if sup.IsWorker() {
		sup.RunWorker()
	}
	ev.Note("rule", "C08: server transcripts are recorded from the real RunATPServer for generated sessions (v3: 1-3 concurrent runs with success / declared error / failing steps, interleaved signal frames and non-fatal error frames) and built by hand for the legacy v1 framing (hello + bare work-done messages); a causal fake server then replays the transcript to a real client (frame i is only released after the client request that caused it) and applies a fault at byte offset k for every k of the transcript (enumerated; quick tier: every fifth offset at a generated phase): end of stream, read error, single-byte corruption (then continue), garbage tail; plus hello variants (unsupported version, schema the meta-schema rejects, schema with a dangling reference) and, independently, a write side that fails at a generated offset. The client runs in a supervised worker. Oracle: ReadSchema, every pending or later Execute and Close return within the bound; no panic; no client goroutine is left after Close; and an Execute may report success (id, data) only if an independent sequential reading of the faulted byte stream contains an intact work-done for that run with exactly that id and data before the first undecodable frame. Non-trivial: k falls strictly inside a frame, or >= 2 runs are pending at k, or the v1 framing is used; distinct by (transcript, k, fault kind).")
	ev.RegisterReplay("fault", func(t *testing.T, raw json.RawMessage) {
		var c Case
		if err := json.Unmarshal(raw, &c); err != nil {
			t.Fatal(err)
		}
		w := sup.NewWorker("c08")
		defer w.Close()
		for i := 0; i < 5; i++ {
			if msg, _ := judge(w, c); msg != "" {
				t.Fatal(msg)
			}
		}
	})
	ev.Main(m, "C08")
}

func TestReplay(t *testing.T) { ev.RunReplay(t) }

// Frame is one server->client frame of a transcript.
type Frame struct {
	Bytes []byte `json:"bytes"`
	Run   string `json:"run,omitempty"`
	Cause int    `json:"cause"` // number of client CBOR values that must have been written before it is released
	Kind  string `json:"kind"`
}

type Case struct {
	Op string `json:"op"` // record | fault
	// record
	Runs []RunSpec `json:"runs,omitempty"`
	// fault
	V1          bool    `json:"v1,omitempty"`
	Frames      []Frame `json:"frames,omitempty"`
	K           int     `json:"k"`          // byte offset of the fault; -1 = no fault
	Fault       string  `json:"fault"`      // eof, err, corrupt, garbage, corrupt_open (corruption after which the stream stays open)
	Mask        int     `json:"mask,omitempty"` // corrupt / corrupt_open: XOR mask for the byte at K (0 = 0xff)
	WriteFailAt int     `json:"write_fail"` // -1 = writes work
	RunIDs      []string `json:"run_ids,omitempty"`
	Serial      bool     `json:"serial,omitempty"`
	// ToStep: every Execute is given a signalsToStep channel that the caller never closes (an engine keeps it open
	// for the lifetime of the step); the client's signal writer goroutines then live until Close
	ToStep bool `json:"to_step,omitempty"`
}

type RunSpec struct {
	Run       string `json:"run"`
	Behaviour string `json:"behaviour"`
	Poke      bool   `json:"poke"` // send a signal for an unknown run first (non-fatal error frame)
}

type execOutcome struct {
	Run      string `json:"run"`
	Returned bool   `json:"returned"`
	OutputID string `json:"output_id,omitempty"`
	Data     val.V  `json:"data"`
	Err      string `json:"err,omitempty"`
	Panic    string `json:"panic,omitempty"`
}

type result struct {
	Frames      []Frame       `json:"frames,omitempty"`
	SchemaErr   string        `json:"schema_err,omitempty"`
	SchemaDone  bool          `json:"schema_done"`
	SchemaPanic string        `json:"schema_panic,omitempty"`
	Execs       []execOutcome `json:"execs,omitempty"`
	CloseDone   bool          `json:"close_done"`
	ClosePanic  string        `json:"close_panic,omitempty"`
	CloseErr    string        `json:"close_err,omitempty"`
	Leaked      string        `json:"leaked,omitempty"`
	Dump        string        `json:"dump,omitempty"`
	Stream      []byte        `json:"stream,omitempty"` // what the client was actually given
}

// ---------------------------------------------------------------------------------------------------------------
// the faulting, causal channel

type faultChannel struct {
	mu       sync.Mutex
	cond     *sync.Cond
	frames   []Frame
	fi, fo   int // current frame and offset in it
	pos      int // stream position
	k        int
	fault    string
	faulted  bool
	requests int
	started    map[string]bool
	anyStarted bool
	v1         bool
	writeBroken bool
	runIDs     []string
	closed   bool
	given    bytes.Buffer
	garbage  []byte
	mask     byte
	// write side
	wPipeW      *io.PipeWriter
	written     int
	writeFailAt int
}

func newFaultChannel(frames []Frame, k int, fault string, writeFailAt int) *faultChannel {
	c := &faultChannel{frames: frames, k: k, fault: fault, writeFailAt: writeFailAt, started: map[string]bool{}, mask: 0xff}
	c.cond = sync.NewCond(&c.mu)
	pr, pw := io.Pipe()
	c.wPipeW = pw
	go func() {
		dec := atpx.Dec.NewDecoder(pr)
		for {
			var raw cbor.RawMessage
			if err := dec.Decode(&raw); err != nil {
				_, _ = io.Copy(io.Discard, pr)
				return
			}
			var m struct {
				ID    uint32 `cbor:"id"`
				RunID string `cbor:"run_id"`
			}
			_ = atpx.Dec.Unmarshal(raw, &m)
			c.mu.Lock()
			c.requests++
			if m.ID == atp.MessageTypeWorkStart {
				c.started[m.RunID] = true
				c.anyStarted = true
			}
			c.cond.Broadcast()
			c.mu.Unlock()
		}
	}()
	for i := 0; i < 64; i++ {
		c.garbage = append(c.garbage, byte(0xf8+i%7), byte(i*37))
	}
	return c
}

func (c *faultChannel) Read(p []byte) (int, error) {
	c.mu.Lock()
	defer c.mu.Unlock()
	for {
		if c.closed {
			return 0, io.ErrClosedPipe
		}
		if c.k >= 0 && c.pos >= c.k && !c.faulted {
			switch c.fault {
			case "eof":
				c.faulted = true
				return 0, io.EOF
			case "err":
				c.faulted = true
				return 0, errors.New("injected read error")
			case "garbage":
				// the rest of the stream is garbage, then the stream ends
				if c.pos-c.k < len(c.garbage) {
					n := copy(p, c.garbage[c.pos-c.k:])
					c.pos += n
					c.given.Write(p[:n])
					return n, nil
				}
				c.faulted = true
				return 0, io.EOF
			}
		}
		if c.faulted && (c.fault == "eof" || c.fault == "garbage") {
			return 0, io.EOF
		}
		if c.faulted && c.fault == "err" {
			return 0, errors.New("injected read error")
		}
		corrupted := (c.fault == "corrupt" || c.fault == "corrupt_open") && c.k >= 0 && c.pos > c.k
		if c.fi >= len(c.frames) {
			if corrupted && c.fault == "corrupt" {
				// a stream that turned to garbage is followed by its end (the peer goes away): a corrupted length
				// field can make any reader wait for bytes that will never come on a silent connection
				return 0, io.EOF
			}
			c.cond.Wait()
			continue
		}
		f := c.frames[c.fi]
		// causality: a frame is only released after the client request that caused it
		released := c.requests >= f.Cause
		if !c.v1 && f.Kind != "hello" {
			if f.Run != "" && c.isRun(f.Run) {
				released = c.started[f.Run]
			} else {
				released = c.anyStarted
			}
		}
		if corrupted && c.fault == "corrupt" {
			released = true // after the corruption the rest of the transcript simply follows, then the stream ends
		}
		// (corrupt_open keeps causality: the stream stays open, so a work-done must not overtake its work-start)
		if !released && c.fo == 0 {
			if c.writeBroken && c.k >= 0 && !c.faulted {
				// the client can no longer cause anything: the peer's side of the premise (a broken server
				// stream) is delivered now instead of at an offset that will never be reached
				c.k = c.pos
				continue
			}
			c.cond.Wait()
			continue
		}
		avail := f.Bytes[c.fo:]
		n := len(avail)
		if n > len(p) {
			n = len(p)
		}
		// never run past the fault offset in one read
		if c.k >= 0 && c.pos < c.k && c.pos+n > c.k && (c.fault == "eof" || c.fault == "err" || c.fault == "garbage") {
			n = c.k - c.pos
		}
		copy(p, avail[:n])
		if (c.fault == "corrupt" || c.fault == "corrupt_open") && c.k >= c.pos && c.k < c.pos+n {
			p[c.k-c.pos] ^= c.mask
		}
		c.given.Write(p[:n])
		c.pos += n
		c.fo += n
		if c.fo >= len(f.Bytes) {
			c.fi++
			c.fo = 0
		}
		return n, nil
	}
}

func (c *faultChannel) isRun(run string) bool {
	for _, r := range c.runIDs {
		if r == run {
			return true
		}
	}
	return false
}

func (c *faultChannel) Write(p []byte) (int, error) {
	c.mu.Lock()
	if c.closed {
		c.mu.Unlock()
		return 0, io.ErrClosedPipe
	}
	if c.writeFailAt >= 0 && c.written+len(p) > c.writeFailAt {
		c.writeBroken = true
		c.cond.Broadcast()
		c.mu.Unlock()
		return 0, errors.New("injected write error")
	}
	c.written += len(p)
	c.mu.Unlock()
	return c.wPipeW.Write(p)
}

func (c *faultChannel) Close() error {
	c.mu.Lock()
	c.closed = true
	c.cond.Broadcast()
	c.mu.Unlock()
	_ = c.wPipeW.Close()
	return nil
}

// ---------------------------------------------------------------------------------------------------------------
// worker

func within(d time.Duration, f func()) (done bool, panicked string) {
	ch := make(chan string, 1)
	go func() {
		defer func() {
			if e := recover(); e != nil {
				ch <- fmt.Sprint(e)
				return
			}
			ch <- ""
		}()
		f()
	}()
	select {
	case p := <-ch:
		return true, p
	case <-time.After(d):
		return false, ""
	}
}

func record(c Case) result {
	gates := atpx.NewGates()
	gates.OpenAll()
	plugin := atpx.TestPlugin(gates, nil)
	items := []atpx.Item{{Bytes: atpx.StartOutput(nil)}}
	causes := map[string]int{}
	n := 1
	for _, r := range c.Runs {
		if r.Poke {
			items = append(items, atpx.Item{Bytes: atpx.Signal("never-started-"+r.Run, "poke", map[string]any{"x": 1})})
			n++
		}
		items = append(items, atpx.Item{Bytes: atpx.WorkStart(r.Run, "do", atpx.StepConfig(r.Behaviour, "", r.Run))})
		n++
		causes[r.Run] = n
	}
	items = append(items, atpx.Item{Pause: 30 * time.Millisecond}, atpx.Item{Bytes: atpx.ClientDone()})
	reader := atpx.NewScriptReader(items, gates)
	writer := atpx.NewCaptureWriter(-1)
	done := make(chan struct{})
	go func() {
		atp.RunATPServer(context.Background(), reader, writer, plugin)
		close(done)
	}()
	select {
	case <-done:
	case <-time.After(10 * time.Second):
	}
	out := writer.Bytes()
	hello, helloLen, msgs, _ := atpx.ParseOutput(out)
	var res result
	if hello == nil {
		return res
	}
	res.Frames = append(res.Frames, Frame{Bytes: out[:helloLen], Cause: 1, Kind: "hello"})
	for _, m := range msgs {
		f := Frame{Bytes: out[m.Offset : m.Offset+m.Len], Run: m.RunID, Kind: fmt.Sprint(m.ID)}
		f.Cause = causes[m.RunID]
		if f.Cause == 0 {
			f.Cause = 2
		}
		res.Frames = append(res.Frames, f)
	}
	return res
}

func workerFn(raw json.RawMessage) json.RawMessage {
	var c Case
	var res result
	if err := json.Unmarshal(raw, &c); err != nil {
		b, _ := json.Marshal(res)
		return b
	}
	if c.Op == "record" {
		res = record(c)
		b, _ := json.Marshal(res)
		return b
	}
	ch := newFaultChannel(c.Frames, c.K, c.Fault, c.WriteFailAt)
	ch.v1, ch.runIDs = c.V1, c.RunIDs
	if c.Mask != 0 {
		ch.mask = byte(c.Mask)
	}
	client := atp.NewClient(ch)
	var serr error
	done, p := within(4*time.Second, func() { _, serr = client.ReadSchema() })
	res.SchemaDone, res.SchemaPanic = done, p
	if serr != nil {
		res.SchemaErr = serr.Error()
	}
	if done && p == "" && serr == nil {
		outcomes := make([]execOutcome, len(c.RunIDs))
		exec := func(i int) {
			run := c.RunIDs[i]
			outcomes[i].Run = run
			signals := make(chan schema.Input, 64)
			go func() {
				for range signals {
				}
			}()
			var r atp.ExecutionResult
			var toStep chan schema.Input
			if c.ToStep {
				toStep = make(chan schema.Input) // never written, never closed
			}
			d, pp := within(5*time.Second, func() {
				if toStep != nil {
					r = client.Execute(schema.Input{RunID: run, ID: "do", InputData: atpx.StepConfig("success", "", run)}, toStep, signals)
				} else {
					r = client.Execute(schema.Input{RunID: run, ID: "do", InputData: atpx.StepConfig("success", "", run)}, nil, signals)
				}
			})
			outcomes[i].Returned, outcomes[i].Panic = d, pp
			if d && pp == "" {
				outcomes[i].OutputID = r.OutputID
				outcomes[i].Data = val.Describe(r.OutputData)
				if r.Error != nil {
					outcomes[i].Err = r.Error.Error()
				}
			}
		}
		if c.V1 || c.Serial {
			for i := range c.RunIDs {
				exec(i)
			}
		} else {
			var wg sync.WaitGroup
			for i := range c.RunIDs {
				wg.Add(1)
				go func(i int) { defer wg.Done(); exec(i) }(i)
			}
			wg.Wait()
		}
		res.Execs = outcomes
	}
	var cerr error
	res.CloseDone, res.ClosePanic = within(8*time.Second, func() { cerr = client.Close() })
	if cerr != nil {
		res.CloseErr = cerr.Error()
	}
	_ = ch.Close()
	// no client goroutine may be left (poll: they need a moment to unwind)
	if res.CloseDone && res.ClosePanic == "" {
		for i := 0; i < 100; i++ {
			buf := make([]byte, 1<<17)
			st := string(buf[:runtime.Stack(buf, true)])
			if !strings.Contains(st, "pluginsdk/atp.(*client)") {
				res.Leaked = ""
				break
			}
			res.Leaked = st
			time.Sleep(10 * time.Millisecond)
		}
	}
	anyHang := !res.SchemaDone || !res.CloseDone
	for _, e := range res.Execs {
		if !e.Returned {
			anyHang = true
		}
	}
	if anyHang {
		buf := make([]byte, 1<<17)
		res.Dump = string(buf[:runtime.Stack(buf, true)])
	}
	ch.mu.Lock()
	res.Stream = append([]byte(nil), ch.given.Bytes()...)
	ch.mu.Unlock()
	b, _ := json.Marshal(res)
	return b
}

// ---------------------------------------------------------------------------------------------------------------
// judge

func referenceReading(stream []byte, v1 bool) (helloOK bool, workDone map[string][]atpx.OutMessage, v1Done []atp.WorkDoneMessage) {
	workDone = map[string][]atpx.OutMessage{}
	if v1 {
		dec := atpx.Dec.NewDecoder(bytes.NewReader(stream))
		var h atp.HelloMessage
		if dec.Decode(&h) != nil {
			return false, workDone, nil
		}
		helloOK = true
		for {
			var wd atp.WorkDoneMessage
			if dec.Decode(&wd) != nil {
				return
			}
			v1Done = append(v1Done, wd)
		}
	}
	// lenient: the client carries on behind a frame whose payload it cannot decode, so the frames that follow are
	// still frames it may act on
	hello, _, msgs, _ := atpx.ParseOutputLenient(stream)
	if hello == nil {
		return false, workDone, nil
	}
	for _, m := range msgs {
		if m.ID == atp.MessageTypeWorkDone {
			workDone[m.RunID] = append(workDone[m.RunID], m)
		}
	}
	return true, workDone, nil
}

func judge(w *sup.Worker, c Case) (string, string) {
	body, crash := w.Do(c, 40*time.Second)
	return assess(c, body, crash, w.Restart)
}

// assess judges the worker's answer. restart is called when goroutines of the request may still be around.
func assess(c Case, body json.RawMessage, crash *sup.Crash, restart func()) (string, string) {
	describe := func() string {
		total := 0
		var parts []string
		for _, f := range c.Frames {
			parts = append(parts, fmt.Sprintf("%s[%d..%d) run=%q", f.Kind, total, total+len(f.Bytes), f.Run))
			total += len(f.Bytes)
		}
		return fmt.Sprintf("fault %q at byte %d of a %d-byte transcript (v1=%v, runs %v, write side fails at %d, open signal channels=%v); frames: %s", c.Fault, c.K, total, c.V1, c.RunIDs, c.WriteFailAt, c.ToStep, strings.Join(parts, " "))
	}
	if crash != nil {
		return fmt.Sprintf("the client process died or hung (%s)\n%s\n%s", crash, firstLines(crash.Log, 30), describe()), crash.Kind
	}
	var r result
	if err := json.Unmarshal(body, &r); err != nil {
		return "harness: " + err.Error(), "harness"
	}
	if r.Dump != "" || r.Leaked != "" {
		// goroutines of this request are still around: do not let them be attributed to the next request
		restart()
	}
	if r.SchemaPanic != "" {
		return fmt.Sprintf("ReadSchema panicked: %s\n%s", r.SchemaPanic, describe()), "panic"
	}
	if !r.SchemaDone {
		return fmt.Sprintf("ReadSchema did not return\n%s\n%s", firstLines(r.Dump, 60), describe()), "hang"
	}
	helloOK, wd, v1Done := referenceReading(r.Stream, c.V1)
	if r.SchemaErr == "" && !helloOK {
		return fmt.Sprintf("ReadSchema succeeded although the hello message did not arrive intact\n%s", describe()), "fabricated"
	}
	for i, e := range r.Execs {
		if e.Panic != "" {
			return fmt.Sprintf("Execute(%s) panicked: %s\n%s", e.Run, e.Panic, describe()), "panic"
		}
		if !e.Returned {
			return fmt.Sprintf("Execute(%s) did not return after the stream broke\n%s\n%s", e.Run, firstLines(r.Dump, 80), describe()), "hang"
		}
		if e.Err != "" {
			continue
		}
		// success must be backed by a work-done that arrived intact in the stream the client was given: either the
		// sequential reading of that stream contains it, or (the statement only asks for the message to have
		// arrived intact, wherever the damage is) the frame's bytes were delivered completely and untouched
		ok := false
		if c.V1 {
			if i < len(v1Done) && v1Done[i].OutputID == e.OutputID && val.Equal(val.Describe(v1Done[i].OutputData).Go(), e.Data.Go(), val.Opts{}) {
				ok = true
			}
		} else {
			for _, m := range wd[e.Run] {
				if m.OutputID == e.OutputID && val.Equal(val.Describe(m.OutputData).Go(), e.Data.Go(), val.Opts{}) {
					ok = true
				}
			}
		}
		if !ok {
			pos := 0
			for _, f := range c.Frames {
				a, b := pos, pos+len(f.Bytes)
				pos = b
				if f.Run != e.Run || f.Kind != "2" || b > len(r.Stream) {
					continue
				}
				isCorrupt := c.Fault == "corrupt" || c.Fault == "corrupt_open"
				untouched := c.K < 0 || (isCorrupt && (c.K < a || c.K >= b)) || (!isCorrupt && b <= c.K)
				if !untouched || !bytes.Equal(r.Stream[a:b], f.Bytes) {
					continue
				}
				var wdm atp.WorkDoneMessage
				if c.V1 {
					if atpx.Dec.Unmarshal(f.Bytes, &wdm) != nil {
						continue
					}
				} else {
					var dm atp.DecodedRuntimeMessage
					if atpx.Dec.Unmarshal(f.Bytes, &dm) != nil || atpx.Dec.Unmarshal(dm.RawMessageData, &wdm) != nil {
						continue
					}
				}
				if wdm.OutputID == e.OutputID && val.Equal(val.Describe(wdm.OutputData).Go(), e.Data.Go(), val.Opts{}) {
					ok = true
				}
			}
		}
		if !ok {
			return fmt.Sprintf("Execute(%s) reported success (%q, %s) but the stream it was given contains no intact work-done with that content for the run\n%s", e.Run, e.OutputID, e.Data, describe()), "fabricated"
		}
	}
	if r.ClosePanic != "" {
		return fmt.Sprintf("Close panicked: %s\n%s", r.ClosePanic, describe()), "panic"
	}
	if !r.CloseDone {
		return fmt.Sprintf("Close did not return\n%s\n%s", firstLines(r.Dump, 80), describe()), "hang"
	}
	if r.Leaked != "" {
		return fmt.Sprintf("a client goroutine is still alive after Close returned\n%s\n%s", firstLines(r.Leaked, 60), describe()), "leak"
	}
	return "", "ok"
}

func firstLines(s string, n int) string {
	l := strings.Split(s, "\n")
	if len(l) > n {
		l = l[:n]
	}
	return strings.Join(l, "\n")
}

// ---------------------------------------------------------------------------------------------------------------

func transcriptLen(frames []Frame) int {
	n := 0
	for _, f := range frames {
		n += len(f.Bytes)
	}
	return n
}

func pendingAt(frames []Frame, k int, runs []string) (insideFrame bool, pending int) {
	pos := 0
	doneRuns := map[string]bool{}
	for _, f := range frames {
		if k > pos && k < pos+len(f.Bytes) {
			insideFrame = true
		}
		if pos+len(f.Bytes) <= k && (f.Kind == "2" || f.Kind == "5") && f.Run != "" {
			doneRuns[f.Run] = true
		}
		pos += len(f.Bytes)
	}
	for _, r := range runs {
		if !doneRuns[r] {
			pending++
		}
	}
	return
}

func TestFaults(t *testing.T) {
	w := sup.NewWorker("c08")
	defer w.Close()
	stride := ev.N(5, 1)
	ev.Check(t, "faults", 4, 10, func(rt *rapid.T) {
		var frames []Frame
		var runIDs []string
		v1 := rapid.IntRange(0, 4).Draw(rt, "v1") == 0
		nRuns := rapid.IntRange(1, 3).Draw(rt, "nRuns")
		var runs []RunSpec
		for i := 0; i < nRuns; i++ {
			id := fmt.Sprintf("run-%d", i)
			runIDs = append(runIDs, id)
			runs = append(runs, RunSpec{Run: id, Behaviour: rapid.SampledFrom([]string{"success", "success", "error_output", "panic", "undeclared"}).Draw(rt, "behaviour"), Poke: rapid.IntRange(0, 2).Draw(rt, "poke") == 0})
		}
		body, crash := w.Do(Case{Op: "record", Runs: runs}, 30*time.Second)
		if crash != nil {
			rt.Skip("recording failed (server side is C07's concern)")
		}
		var rec result
		if json.Unmarshal(body, &rec) != nil || len(rec.Frames) == 0 {
			rt.Skip("no transcript")
		}
		frames = rec.Frames
		if v1 {
			// legacy framing: hello with version 1 and bare work-done messages, strictly serial
			var h atp.HelloMessage
			_ = atpx.Dec.Unmarshal(frames[0].Bytes, &h)
			h.Version = 1
			hb, _ := cbor.Marshal(h)
			v1frames := []Frame{{Bytes: hb, Cause: 1, Kind: "hello"}}
			for i, id := range runIDs {
				wd, _ := cbor.Marshal(atp.WorkDoneMessage{StepID: "do", OutputID: "success", OutputData: map[string]any{"tag": id, "n": int64(i)}})
				v1frames = append(v1frames, Frame{Bytes: wd, Run: id, Cause: 2 + i, Kind: "2"})
			}
			frames = v1frames
		} else if rapid.IntRange(0, 2).Draw(rt, "emitSignal") == 0 {
			// a signal emitted by a step, placed right before its terminal frame
			for i := range frames {
				if frames[i].Run != "" && frames[i].Kind == "2" {
					sig, _ := cbor.Marshal(atp.RuntimeMessage{MessageID: atp.MessageTypeSignal, RunID: frames[i].Run, MessageData: atp.SignalMessage{SignalID: "progress", Data: map[string]any{"x": 1}}})
					frames = append(frames[:i], append([]Frame{{Bytes: sig, Run: frames[i].Run, Cause: frames[i].Cause, Kind: "3"}}, frames[i:]...)...)
					break
				}
			}
		}
		serial := !v1 && rapid.IntRange(0, 3).Draw(rt, "serial") == 0
		if serial {
			// a serial client only sends run i+1 after run i returned: causes as recorded assume all requests were sent
			rt.Skip("serial v3 sessions are covered by C05/C06")
		}
		total := transcriptLen(frames)
		base := Case{Op: "fault", V1: v1, Frames: frames, K: -1, Fault: "eof", WriteFailAt: -1, RunIDs: runIDs, ToStep: rapid.Bool().Draw(rt, "toStep")}
		run := func(c Case, label string) {
			msg, outcome := judge(w, c)
			inside, pending := pendingAt(frames, c.K, runIDs)
			ev.Case(ev.FP(fmt.Sprint(frames), c.K, c.Fault, c.WriteFailAt), inside || pending >= 2 || v1, label+":"+outcome, fmt.Sprintf("inside_frame=%v", inside), fmt.Sprintf("v1=%v", v1))
			if inside && ev.WantSample(label) {
				ev.Sample(label, map[string]any{"k": c.K, "fault": c.Fault, "v1": c.V1, "runs": c.RunIDs, "transcript_bytes": total, "write_fail": c.WriteFailAt})
			}
			if msg != "" {
				ev.Fail(rt, "fault", c, "%s", msg)
			}
		}
		run(base, "no_fault")
		phase := rapid.IntRange(0, stride-1).Draw(rt, "phase")
		for k := phase; k <= total; k += stride {
			for _, fk := range []string{"eof", "err", "corrupt", "garbage"} {
				if fk == "corrupt" && k >= total {
					continue
				}
				c := base
				c.K, c.Fault = k, fk
				run(c, "fault_"+fk)
			}
		}
		// corruption that leaves every frame well-formed at its old boundaries but makes one frame undecodable as a
		// runtime message (wrong type of a header field, wrong top-level type): no reader can be left waiting for
		// missing bytes, the garbage is observable, so the calls must return although the stream STAYS OPEN
		for k := phase; k < total; k += stride {
			for _, mask := range []int{0x01, 0x02, 0x04, 0x08, 0x10, 0x20, 0x40, 0x80, 0xff} {
				if !v1 && openEligible(frames, k, byte(mask)) {
					c := base
					c.K, c.Fault, c.Mask = k, "corrupt_open", mask
					ev.Class("corrupt_open_cases", 1)
					run(c, "fault_corrupt_open")
				}
			}
		}
		for i := 0; i < 6; i++ {
			c := base
			c.WriteFailAt = rapid.IntRange(0, 200).Draw(rt, "writeFailAt")
			if rapid.Bool().Draw(rt, "alsoReadFault") {
				c.K, c.Fault = rapid.IntRange(0, total).Draw(rt, "k"), rapid.SampledFrom([]string{"eof", "err", "garbage"}).Draw(rt, "fk")
			} else {
				// the premise of the property is a broken server->client stream: end it after the transcript
				c.K, c.Fault = total, "eof"
			}
			run(c, "write_fails")
		}
	})
}

// openEligible reports whether XOR-ing the byte at stream offset k with mask leaves the frame it falls into a single
// well-formed CBOR item of the same length that does not decode as a runtime message any more (default, lenient
// decoding: unknown fields alone do not count). Hello frames are excluded.
func openEligible(frames []Frame, k int, mask byte) bool {
	pos := 0
	for _, f := range frames {
		a, b := pos, pos+len(f.Bytes)
		pos = b
		if k < a || k >= b {
			continue
		}
		if f.Kind == "hello" {
			return false
		}
		g := append([]byte(nil), f.Bytes...)
		g[k-a] ^= mask
		if cbor.Wellformed(g) != nil {
			return false
		}
		var m atp.DecodedRuntimeMessage
		return atpx.Dec.Unmarshal(g, &m) != nil
	}
	return false
}

// TestHelloVariants: hello messages that must make ReadSchema fail cleanly.
func TestHelloVariants(t *testing.T) {
	if ev.Replaying() {
		t.Skip()
	}
	if sh, _ := ev.Shard(); sh != 0 {
		t.Skip()
	}
	w := sup.NewWorker("c08")
	defer w.Close()
	body, crash := w.Do(Case{Op: "record", Runs: []RunSpec{{Run: "r", Behaviour: "success"}}}, 30*time.Second)
	if crash != nil {
		t.Skip("recording failed")
	}
	var rec result
	_ = json.Unmarshal(body, &rec)
	if len(rec.Frames) == 0 {
		t.Skip("no transcript")
	}
	var h atp.HelloMessage
	_ = atpx.Dec.Unmarshal(rec.Frames[0].Bytes, &h)
	variants := map[string]atp.HelloMessage{
		"unsupported_version_2":  {Version: 2, Schema: h.Schema},
		"unsupported_version_99": {Version: 99, Schema: h.Schema},
		"schema_not_a_map":       {Version: 3, Schema: "nope"},
		"schema_rejected":        {Version: 3, Schema: map[string]any{"steps": map[string]any{"s": map[string]any{"id": "not a valid id!"}}}},
		"schema_dangling_ref": {Version: 3, Schema: map[string]any{"steps": map[string]any{"s": map[string]any{"id": "s", "input": map[string]any{"root": "A", "objects": map[string]any{"A": map[string]any{"id": "A", "properties": map[string]any{"r": map[string]any{"type": map[string]any{"type_id": "ref", "id": "NOPE"}}}}}},
			"outputs": map[string]any{}}}}},
		"schema_missing_root": {Version: 3, Schema: map[string]any{"steps": map[string]any{"s": map[string]any{"id": "s", "input": map[string]any{"root": "B", "objects": map[string]any{"A": map[string]any{"id": "A", "properties": map[string]any{}}}}, "outputs": map[string]any{}}}}},
	}
	for name, hv := range variants {
		hb, _ := cbor.Marshal(hv)
		c := Case{Op: "fault", Frames: []Frame{{Bytes: hb, Cause: 1, Kind: "hello"}}, K: len(hb), Fault: "eof", WriteFailAt: -1, RunIDs: []string{"r"}}
		msg, outcome := judge(w, c)
		ev.Case(ev.FP("hello", name), true, "hello_variant:"+name+":"+outcome)
		if msg != "" {
			ev.Fail(t, "fault", c, "%s", msg)
		}
		// such a hello must not be taken for a schema
		body, _ := w.Do(c, 30*time.Second)
		var r result
		_ = json.Unmarshal(body, &r)
		if r.SchemaDone && r.SchemaErr == "" {
			ev.Fail(t, "fault", c, "ReadSchema accepted the hello variant %s", name)
		}
	}
}
