package c08

import (
	"encoding/json"
	"testing"

	"verif/harness/ev"
)

// (The single frame is marked "hello": the causal channel releases that kind without waiting for a work-start.)
// FuzzClientStream: coverage-guided search over the raw bytes of the server->client stream. The client is given the
// bytes (all available at once, whatever it has written) followed by the end of the stream, and performs ReadSchema,
// one or two Execute calls and Close. Oracle as in TestFaults: every call returns, nothing panics, no client goroutine
// survives Close, and a reported success is backed by an intact work-done in the bytes (independent sequential decode).
func FuzzClientStream(f *testing.F) {
	for _, runs := range [][]RunSpec{{{Run: "r1", Behaviour: "success"}}, {{Run: "r1", Behaviour: "error_output"}, {Run: "r2", Behaviour: "success", Poke: true}}, {{Run: "r1", Behaviour: "panic"}}} {
		rec := record(Case{Op: "record", Runs: runs})
		var all []byte
		for _, fr := range rec.Frames {
			all = append(all, fr.Bytes...)
		}
		if len(all) > 0 {
			f.Add(all, uint8(len(runs)), false)
			f.Add(all[:len(all)-3], uint8(len(runs)), false)
		}
	}
	f.Fuzz(func(t *testing.T, data []byte, nRuns uint8, serial bool) {
		if len(data) > 8192 {
			return
		}
		ids := []string{"r1", "r2"}[:1+int(nRuns)%2]
		c := Case{Op: "fault", Frames: []Frame{{Bytes: data, Cause: 0, Kind: "hello"}}, K: len(data), Fault: "eof", WriteFailAt: -1, RunIDs: ids, Serial: serial}
		if ev.FuzzConvert("fault", c) {
			return
		}
		b, err := json.Marshal(c)
		if err != nil {
			return
		}
		polluted := false
		msg, outcome := assess(c, workerFn(b), nil, func() { polluted = true })
		ev.Case(ev.FP("fuzz", data, nRuns, serial), true, "fuzz_outcome:"+outcome)
		if msg != "" {
			ev.Fail(t, "fault", c, "%s", msg)
		}
		if polluted {
			t.Skip("goroutines left behind by a slow trial") // cannot happen without a failure above
		}
	})
}
