// Package oracle holds the executable comparisons between the SDK and the reference interpreter that several
// property packages share.
package oracle

import (
	"encoding/json"
	"fmt"
	"reflect"
	"strings"

	"go.flow.arcalot.io/pluginsdk/schema"
	"verif/harness/model"
	"verif/harness/spec"
	"verif/harness/val"
)

// Case is one (schema, raw input) pair.
type Case struct {
	Spec *spec.Spec `json:"spec"`
	Raw  val.V      `json:"raw"`
	Note string     `json:"note,omitempty"`
}

// Safely runs f and returns the recovered panic value, if any.
func Safely(f func()) (p any) {
	defer func() {
		if e := recover(); e != nil {
			p = e
		}
	}()
	f()
	return nil
}

// SpecJSON renders a spec for messages and fingerprints.
func SpecJSON(s *spec.Spec) string {
	b, _ := json.Marshal(s)
	return string(b)
}

// Unserialize compares SDK Unserialize with the model on one case. It returns (message, class, model value,
// SDK result). class is one of accept / reject / unspecified / build_error / reject_panic_left_to_C04.
func Unserialize(c Case) (msg string, class string, mv any, got any) {
	sch, err := spec.Build(c.Spec)
	if err != nil {
		return "", "build_error", nil, nil
	}
	return UnserializeWith(sch, c)
}

// UnserializeWith is Unserialize on an already built schema.
func UnserializeWith(sch schema.Type, c Case) (msg string, class string, mv any, got any) {
	raw := c.Raw.Go()
	mv, verdict := model.Denote(c.Spec, nil, raw)
	var uerr error
	p := Safely(func() { got, uerr = sch.Unserialize(c.Raw.Go()) })
	switch verdict {
	case model.Unspec:
		return "", "unspecified", nil, nil
	case model.Accept:
		if p != nil {
			return fmt.Sprintf("Unserialize(%s) panicked (%v) but the model accepts the input as %#v", c.Raw, p, mv), "accept", mv, nil
		}
		if uerr != nil {
			return fmt.Sprintf("Unserialize(%s) was rejected (%v) but the model accepts the input as %#v", c.Raw, uerr, mv), "accept", mv, nil
		}
		if m := model.Match(c.Spec, nil, mv, got); m != "" {
			return fmt.Sprintf("Unserialize(%s) = %#v is not the value the input denotes (%#v): %s", c.Raw, got, mv, m), "accept", mv, got
		}
		return "", "accept", mv, got
	default:
		if p != nil {
			return "", "reject_panic_left_to_C04", nil, nil
		}
		if uerr == nil {
			return fmt.Sprintf("Unserialize(%s) = %#v was accepted but the model rejects the input", c.Raw, got), "reject", nil, got
		}
		return "", "reject", nil, nil
	}
}

// EffectiveNative computes, for a model map m of an object (which properties are present with which values), the
// map that a native value built from it expresses: fields that cannot express absence are present with their
// zero value unless the property is marked treat-empty-as-default.
func EffectiveNative(o *spec.Spec, env *model.Env, m map[string]any) (map[string]any, bool) {
	if o.Struct == "" {
		return m, true
	}
	out := map[string]any{}
	for k, v := range m {
		out[k] = v
	}
	for i := range o.Props {
		p := &o.Props[i]
		ft, ok := spec.FieldType(o.Struct, p.Name)
		if !ok {
			return nil, false
		}
		valueField := ft.Kind() != reflect.Pointer && ft.Kind() != reflect.Interface
		if !valueField {
			continue
		}
		zero, hasZero := zeroMV(p.Type)
		if v, present := out[p.Name]; present {
			if p.EmptyIsDefault && hasZero && val.Equal(v, zero, val.Opts{}) {
				delete(out, p.Name)
			}
			continue
		}
		if p.EmptyIsDefault {
			continue
		}
		if !hasZero {
			return nil, false // by-value object member absent: no defined native view
		}
		out[p.Name] = zero
	}
	return out, true
}

func zeroMV(s *spec.Spec) (any, bool) {
	switch s.Kind {
	case spec.KInt, spec.KEnumI:
		return int64(0), true
	case spec.KFloat:
		return float64(0), true
	case spec.KString, spec.KEnumS, spec.KTypedEnumS:
		return "", true
	case spec.KBool:
		return false, true
	case spec.KList:
		return []any{}, true
	case spec.KMap:
		return map[any]any{}, true
	}
	return nil, false
}

// NativeObject checks Validate and Serialize of the native value built from model map m against the model's
// constraint check on the map that native value expresses.
func NativeObject(sch schema.Type, root *spec.Spec, m map[string]any) (string, string) {
	o, env := model.Resolve(root, nil)
	if o == nil {
		return "", "unresolved"
	}
	eff, ok := EffectiveNative(o, env, m)
	if !ok {
		return "", "no_native_view"
	}
	want := model.Check(o, env, eff)
	native := model.ToNative(o, env, m)
	var verr, serr error
	var ser any
	if p := Safely(func() { verr = sch.Validate(native) }); p != nil {
		return fmt.Sprintf("Validate(%#v) panicked: %v", native, p), "native"
	}
	if p := Safely(func() { ser, serr = sch.Serialize(model.ToNative(o, env, m)) }); p != nil {
		return fmt.Sprintf("Serialize(%#v) panicked: %v", native, p), "native"
	}
	if (verr == nil) != want {
		return fmt.Sprintf("Validate(%#v) = %v, but the declared rules say valid=%v (properties present: %v)", native, verr, want, keys(eff)), "native"
	}
	if (serr == nil) != want {
		return fmt.Sprintf("Serialize(%#v) = (%#v, %v), but the declared rules say valid=%v (properties present: %v)", native, ser, serr, want, keys(eff)), "native"
	}
	if want {
		return "", "native_valid"
	}
	return "", "native_invalid"
}

func keys(m map[string]any) string {
	var ks []string
	for k := range m {
		ks = append(ks, k)
	}
	for i := 1; i < len(ks); i++ {
		for j := i; j > 0 && ks[j] < ks[j-1]; j-- {
			ks[j], ks[j-1] = ks[j-1], ks[j]
		}
	}
	return strings.Join(ks, ",")
}
