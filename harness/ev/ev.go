// Package ev is the evidence / replay / known-findings plumbing shared by all property packages.
//
// A property package calls ev.Main from TestMain. Every executed case is reported with ev.Case (fingerprint,
// non-trivial?, classes). A failing case is reported with ev.Fail, which stores the case description as a
// replay file before failing the test, so that the last failing (= shrunk) rapid case is what is kept.
package ev

import (
	"bufio"
	"encoding/binary"
	"encoding/json"
	"flag"
	"fmt"
	"hash/fnv"
	"os"
	"path/filepath"
	"sort"
	"strconv"
	"strings"
	"sync"
	"testing"
	"time"

	"pgregory.net/rapid"
)

// TB is the subset of testing.TB / rapid.T that ev needs.
type TB interface {
	Fatalf(format string, args ...any)
	Logf(format string, args ...any)
}

type rec struct {
	mu          sync.Mutex
	prop        string
	outDir      string
	tier        string
	seed        int64
	shard       int
	shards      int
	evaluations int64
	nontrivial  map[uint64]struct{}
	classes     map[string]int64
	samples     map[string][]json.RawMessage
	known       map[string]string // key -> text (listed in known_findings.txt for this property)
	knownHits   map[string]int64
	exhaustive  map[string]bool
	notes       map[string]string
	failures    int
	start       time.Time
}

var r = &rec{
	nontrivial: map[uint64]struct{}{},
	classes:    map[string]int64{},
	samples:    map[string][]json.RawMessage{},
	known:      map[string]string{},
	knownHits:  map[string]int64{},
	exhaustive: map[string]bool{},
	notes:      map[string]string{},
}

const maxSamplesPerKind = 3

func envInt(name string, def int64) int64 {
	v := os.Getenv(name)
	if v == "" {
		return def
	}
	n, err := strconv.ParseInt(v, 10, 64)
	if err != nil {
		return def
	}
	return n
}

// Main runs the tests of a property package and writes the shard evidence.
func Main(m *testing.M, prop string) {
	r.prop = prop
	r.outDir = os.Getenv("VERIF_OUT")
	r.tier = os.Getenv("VERIF_TIER")
	if r.tier == "" {
		r.tier = "quick"
	}
	r.seed = envInt("VERIF_SEED", 0)
	r.shard = int(envInt("VERIF_SHARD", 0))
	r.shards = int(envInt("VERIF_SHARDS", 1))
	if r.shards < 1 {
		r.shards = 1
	}
	r.start = time.Now()
	loadKnown(os.Getenv("VERIF_KNOWN"))
	flag.Parse()
	_ = flag.Set("rapid.nofailfile", "true")
	code := m.Run()
	flush()
	os.Exit(code)
}

func loadKnown(path string) {
	if path == "" {
		return
	}
	f, err := os.Open(path)
	if err != nil {
		return
	}
	defer f.Close()
	sc := bufio.NewScanner(f)
	for sc.Scan() {
		line := strings.TrimSpace(sc.Text())
		// known: property=C15 key=<signature> <what fails>
		if !strings.HasPrefix(line, "known:") {
			continue
		}
		fields := strings.Fields(line[len("known:"):])
		if len(fields) < 2 || fields[0] != "property="+r.prop || !strings.HasPrefix(fields[1], "key=") {
			continue
		}
		r.known[strings.TrimPrefix(fields[1], "key=")] = strings.Join(fields[2:], " ")
	}
}

// Prop returns the property id.
func Prop() string { return r.prop }

// Tier returns "quick" or "thorough".
func Tier() string { return r.tier }

// Thorough reports whether the thorough tier is running.
func Thorough() bool { return r.tier == "thorough" }

// N picks a size by tier.
func N(quick, thorough int) int {
	if Thorough() {
		return thorough
	}
	return quick
}

// Shard returns this process's shard index and the number of shards.
func Shard() (int, int) { return r.shard, r.shards }

// Mine reports whether enumeration index i belongs to this shard.
func Mine(i int) bool { return i%r.shards == r.shard }

// Seed returns VERIF_SEED.
func Seed() int64 { return r.seed }

// Replaying reports whether the process was started to replay one saved case.
func Replaying() bool { return os.Getenv("VERIF_REPLAY") != "" }

// FP hashes the parts into a 64-bit fingerprint.
func FP(parts ...any) uint64 {
	h := fnv.New64a()
	for _, p := range parts {
		switch v := p.(type) {
		case string:
			_, _ = h.Write([]byte(v))
		case []byte:
			_, _ = h.Write(v)
		default:
			_, _ = fmt.Fprintf(h, "%v", v)
		}
		_, _ = h.Write([]byte{0})
	}
	return h.Sum64()
}

// Case records one evaluated case.
func Case(fp uint64, nontrivial bool, classes ...string) {
	r.mu.Lock()
	r.evaluations++
	if nontrivial {
		r.nontrivial[fp] = struct{}{}
	}
	for _, c := range classes {
		r.classes[c]++
	}
	r.mu.Unlock()
}

// Class bumps a histogram counter without counting a case.
func Class(name string, n int64) {
	r.mu.Lock()
	r.classes[name] += n
	r.mu.Unlock()
}

// Sample keeps up to a few case descriptions per kind for the evidence file.
func Sample(kind string, desc any) {
	r.mu.Lock()
	defer r.mu.Unlock()
	if len(r.samples[kind]) >= maxSamplesPerKind {
		return
	}
	b, err := json.Marshal(desc)
	if err != nil {
		return
	}
	if len(b) > 4000 {
		return
	}
	r.samples[kind] = append(r.samples[kind], json.RawMessage(b))
}

// WantSample reports whether another sample of this kind would be stored (lets callers avoid building one).
func WantSample(kind string) bool {
	r.mu.Lock()
	defer r.mu.Unlock()
	return len(r.samples[kind]) < maxSamplesPerKind
}

// Exhaustive marks a finite sub-space as completely enumerated by this run (across all shards).
func Exhaustive(space string) {
	r.mu.Lock()
	r.exhaustive[space] = true
	r.mu.Unlock()
}

// Note stores a free-text fact about the run (e.g. table sizes).
func Note(key, value string) {
	r.mu.Lock()
	r.notes[key] = value
	r.mu.Unlock()
}

// Known reports whether the finding with this key is listed in known_findings.txt; if so the hit is counted.
// Only keys present in the file suppress anything.
func Known(key string) bool {
	r.mu.Lock()
	defer r.mu.Unlock()
	if _, ok := r.known[key]; ok {
		r.knownHits[key]++
		return true
	}
	return false
}

// KnownListed is Known without counting a hit (used to exclude a shape from generation).
func KnownListed(key string) bool {
	r.mu.Lock()
	defer r.mu.Unlock()
	_, ok := r.known[key]
	return ok
}

type failFile struct {
	Property string          `json:"property"`
	Kind     string          `json:"kind"`
	Case     json.RawMessage `json:"case"`
	Message  string          `json:"message"`
}

// Fail stores the case as a replay file and fails the test. kind selects the replay function.
func Fail(t TB, kind string, desc any, format string, args ...any) {
	msg := fmt.Sprintf(format, args...)
	SaveFail(kind, desc, msg)
	t.Fatalf("%s", msg)
}

// SaveFail stores a replay file without failing (for failures detected outside a test goroutine).
func SaveFail(kind string, desc any, msg string) {
	r.mu.Lock()
	r.failures++
	out := r.outDir
	r.mu.Unlock()
	if out == "" || Replaying() {
		return
	}
	b, err := json.Marshal(desc)
	if err != nil {
		b, _ = json.Marshal(fmt.Sprintf("%#v", desc))
	}
	ff := failFile{Property: r.prop, Kind: kind, Case: b, Message: msg}
	data, _ := json.MarshalIndent(ff, "", " ")
	_ = os.WriteFile(filepath.Join(out, "fail_"+kind+".json"), data, 0o644)
}

// Check runs a rapid property with tier-dependent case count and a seed derived from VERIF_SEED, the shard
// index and the name (never 0, which rapid treats as "random").
func Check(t *testing.T, name string, quick, thorough int, prop func(*rapid.T)) {
	if Replaying() {
		t.Skip("replay mode")
	}
	n := N(quick, thorough)
	if s := envInt("VERIF_CHECKS_"+strings.ToUpper(name), 0); s > 0 {
		n = int(s)
	}
	seed := 1 + (r.seed*1009+int64(r.shard))*7919 + int64(FP(name)%7907)
	if seed <= 0 {
		seed = 1 - seed
	}
	_ = flag.Set("rapid.checks", strconv.Itoa(n))
	_ = flag.Set("rapid.seed", strconv.FormatInt(seed, 10))
	_ = flag.Set("rapid.nofailfile", "true")
	_ = flag.Set("rapid.shrinktime", "20s")
	rapid.Check(t, prop)
}

var replayFns = map[string]func(t *testing.T, raw json.RawMessage){}

// RegisterReplay registers the function that re-executes a saved case of the given kind.
func RegisterReplay(kind string, fn func(t *testing.T, raw json.RawMessage)) {
	replayFns[kind] = fn
}

// RunReplay is the body of each package's TestReplay.
func RunReplay(t *testing.T) {
	path := os.Getenv("VERIF_REPLAY")
	if path == "" {
		t.Skip("no VERIF_REPLAY")
	}
	if st, err := os.Stat(path); err == nil && st.IsDir() {
		// regression tier: replay every saved case of the directory as its own subtest
		files, _ := filepath.Glob(filepath.Join(path, "*.json"))
		sort.Strings(files)
		for _, f := range files {
			f := f
			t.Run(filepath.Base(f), func(t *testing.T) { replayFile(t, f) })
		}
		return
	}
	replayFile(t, path)
}

func replayFile(t *testing.T, path string) {
	data, err := os.ReadFile(path)
	if err != nil {
		t.Fatalf("cannot read replay file: %v", err)
	}
	var ff failFile
	if err := json.Unmarshal(data, &ff); err != nil {
		t.Fatalf("cannot parse replay file: %v", err)
	}
	fn, ok := replayFns[ff.Kind]
	if !ok {
		t.Fatalf("no replay function for kind %q", ff.Kind)
	}
	fn(t, ff.Case)
}

type shardEvidence struct {
	Property    string                       `json:"property"`
	Tier        string                       `json:"tier"`
	Seed        int64                        `json:"seed"`
	Shard       int                          `json:"shard"`
	Evaluations int64                        `json:"evaluations"`
	Nontrivial  int                          `json:"nontrivial_in_shard"`
	Classes     map[string]int64             `json:"classes"`
	Samples     map[string][]json.RawMessage `json:"samples"`
	KnownHits   map[string]int64             `json:"known_hits"`
	Exhaustive  []string                     `json:"exhaustive"`
	Notes       map[string]string            `json:"notes"`
	Failures    int                          `json:"failures"`
	WallS       float64                      `json:"wall_s"`
}

func flush() {
	if r.outDir == "" {
		return
	}
	r.mu.Lock()
	defer r.mu.Unlock()
	se := shardEvidence{
		Property: r.prop, Tier: r.tier, Seed: r.seed, Shard: r.shard, Evaluations: r.evaluations,
		Nontrivial: len(r.nontrivial), Classes: r.classes, Samples: r.samples, KnownHits: r.knownHits,
		Notes: r.notes, Failures: r.failures, WallS: time.Since(r.start).Seconds(),
	}
	for k := range r.exhaustive {
		se.Exhaustive = append(se.Exhaustive, k)
	}
	sort.Strings(se.Exhaustive)
	data, _ := json.Marshal(se)
	_ = os.WriteFile(filepath.Join(r.outDir, "ev.json"), data, 0o644)
	buf := make([]byte, 0, 8*len(r.nontrivial))
	for fp := range r.nontrivial {
		buf = binary.LittleEndian.AppendUint64(buf, fp)
	}
	_ = os.WriteFile(filepath.Join(r.outDir, "fp.bin"), buf, 0o644)
}

// Fuzzing reports whether this process runs (or serves) a native fuzz campaign started by the driver.
func Fuzzing() bool { return os.Getenv("VERIF_FUZZ") != "" }

// FuzzConvert is called at the top of every native fuzz body, after the fuzz arguments have been turned into the
// package's Case value. In convert mode (the driver re-runs a crasher file that killed or hung a fuzz worker, which
// therefore could not save anything itself) it stores the case in the ordinary replay format WITHOUT executing it and
// returns true; the body must then return.
func FuzzConvert(kind string, desc any) bool {
	if os.Getenv("VERIF_FUZZ_CONVERT") == "" {
		return false
	}
	SaveFail(kind, desc, "the fuzz worker process died or hung while executing this case (see the campaign log next to this file)")
	return true
}
