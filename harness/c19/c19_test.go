package c19

import (
	"bytes"
	"encoding/json"
	"fmt"
	"go/ast"
	"go/format"
	"go/parser"
	"go/token"
	"os"
	"os/exec"
	"path/filepath"
	"reflect"
	"sort"
	"strings"
	"testing"

	"pgregory.net/rapid"
	"verif/harness/ev"
)

func TestMain(m *testing.M) {
	ev.Note("rule", "C19: rapid-generated schema YAML documents (0-8 objects x 0-8 properties, identifier names incl. underscores, digits, mixed case, names differing only by case, every type ID, refs, optional display/required keys, unknown extra keys) x argument forms (no ignore argument, ignore naming an existing / missing / empty object). The generator binary is built from the working tree and run as a subprocess 10 times per document in one directory that already holds a longer output of an earlier invocation (nothing is removed between runs). Oracle: exit status 0 and no panic; output parses with go/parser, is gofmt-stable, has exactly one struct per non-ignored object and one field per property with tag json:\"<name>\" and type int64/float64/ref id/type ID; all runs byte-identical. Non-trivial: >=2 objects or an object with >=2 properties (map order can show), or the no-ignore form; distinct by (document, arguments).")
	ev.RegisterReplay("doc", func(t *testing.T, raw json.RawMessage) {
		var c docCase
		if err := json.Unmarshal(raw, &c); err != nil {
			t.Fatal(err)
		}
		if msg := runDoc(c, 25); msg != "" {
			t.Fatal(msg)
		}
	})
	ev.Main(m, "C19")
}

func TestReplay(t *testing.T) { ev.RunReplay(t) }

type propCase struct {
	Name     string `json:"name"`
	TypeID   string `json:"type_id"`
	RefID    string `json:"ref_id,omitempty"`
	Display  bool   `json:"display,omitempty"`
	Required int    `json:"required,omitempty"` // 0 absent, 1 true, 2 false
	Extra    bool   `json:"extra,omitempty"`
	// OwnID: an `id` key under `type:` of a type that is not a reference (an object type written in place carries
	// its ID, and nothing stops any other type description from having the key); IDLast: the id key follows type_id
	OwnID  string `json:"own_id,omitempty"`
	IDLast bool   `json:"id_last,omitempty"`
}

type objCase struct {
	Name  string     `json:"name"`
	Props []propCase `json:"props"`
	NoID  bool       `json:"no_id,omitempty"`
	// Null: an object without properties written as a YAML null ("Name:" or "Name: ~") instead of a mapping
	Null int `json:"null,omitempty"` // 0 no, 1 empty value, 2 tilde
}

type docCase struct {
	Objects   []objCase `json:"objects"`
	HasIgnore bool      `json:"has_ignore"`
	Ignore    string    `json:"ignore"`
	Quote     bool      `json:"quote_keys"`
	// Skeleton: how a schema file without objects is written: 0 the full skeleton with `objects: {}`, 1 an empty
	// file, 2 blanks and comments only, 3 `{}`, 4 a bare document marker, 5 the skeleton cut off after `input:`
	Skeleton int `json:"skeleton,omitempty"`
}

var yamlWords = map[string]bool{"true": true, "false": true, "null": true, "yes": true, "no": true, "on": true, "off": true, "y": true, "n": true,
	"True": true, "False": true, "Null": true, "Yes": true, "No": true, "On": true, "Off": true, "Y": true, "N": true, "TRUE": true, "FALSE": true, "NULL": true, "YES": true, "NO": true, "ON": true, "OFF": true}

func key(name string, quote bool) string {
	if quote || yamlWords[name] {
		return `"` + name + `"`
	}
	return name
}

func (c docCase) yaml() string {
	var sb strings.Builder
	sb.WriteString("steps:\n  create:\n    id: create\n    input:\n")
	if len(c.Objects) == 0 {
		switch c.Skeleton {
		case 1:
			return ""
		case 2:
			return "# a schema without objects\n\n   \n# nothing here\n"
		case 3:
			return "{}\n"
		case 4:
			return "---\n"
		case 5:
			return sb.String()
		}
		sb.WriteString("      objects: {}\n")
		return sb.String()
	}
	sb.WriteString("      objects:\n")
	for _, o := range c.Objects {
		if o.Null != 0 && len(o.Props) == 0 {
			fmt.Fprintf(&sb, "        %s:%s\n", key(o.Name, c.Quote), map[int]string{1: "", 2: " ~"}[o.Null])
			continue
		}
		fmt.Fprintf(&sb, "        %s:\n", key(o.Name, c.Quote))
		if !o.NoID {
			fmt.Fprintf(&sb, "          id: %s\n", key(o.Name, true))
		}
		if len(o.Props) == 0 {
			sb.WriteString("          properties: {}\n")
			continue
		}
		sb.WriteString("          properties:\n")
		for _, p := range o.Props {
			fmt.Fprintf(&sb, "            %s:\n", key(p.Name, c.Quote))
			if p.Display {
				fmt.Fprintf(&sb, "              display:\n                name: \"Name of %s\"\n                description: |\n                  Some text: with colon\n", p.Name)
			}
			sb.WriteString("              type:\n")
			idLine := ""
			if p.TypeID == "ref" {
				idLine = fmt.Sprintf("                id: %s\n", key(p.RefID, true))
			} else if p.OwnID != "" {
				idLine = fmt.Sprintf("                id: %s\n", key(p.OwnID, true))
			}
			if !p.IDLast {
				sb.WriteString(idLine)
			}
			fmt.Fprintf(&sb, "                type_id: %s\n", p.TypeID)
			if p.IDLast {
				sb.WriteString(idLine)
			}
			if p.Extra {
				sb.WriteString("                min: 0\n                items:\n                  type_id: string\n")
			}
			switch p.Required {
			case 1:
				sb.WriteString("              required: true\n")
			case 2:
				sb.WriteString("              required: false\n")
			}
			if p.Extra {
				sb.WriteString("              default: '\"x\"'\n              conflicts: [a, b]\n")
			}
		}
	}
	return sb.String()
}

func expectedType(p propCase) string {
	t := p.TypeID
	if t == "ref" {
		t = p.RefID
	}
	switch t {
	case "integer":
		return "int64"
	case "float":
		return "float64"
	}
	return t
}

type field struct{ Tag, Type, Name string }
type strct struct {
	Name   string
	Fields []field
}

func isASCII(s string) bool {
	for _, r := range s {
		if r > 127 {
			return false
		}
	}
	return true
}

func typeString(e ast.Expr) string {
	var buf bytes.Buffer
	_ = format.Node(&buf, token.NewFileSet(), e)
	return buf.String()
}

func parseOutput(src []byte) ([]strct, error) {
	fs := token.NewFileSet()
	f, err := parser.ParseFile(fs, "typedef_output.go", src, parser.AllErrors)
	if err != nil {
		return nil, err
	}
	var res []strct
	for _, d := range f.Decls {
		gd, ok := d.(*ast.GenDecl)
		if !ok || gd.Tok != token.TYPE {
			continue
		}
		for _, sp := range gd.Specs {
			ts := sp.(*ast.TypeSpec)
			st, ok := ts.Type.(*ast.StructType)
			if !ok {
				return nil, fmt.Errorf("type %s is not a struct", ts.Name.Name)
			}
			s := strct{Name: ts.Name.Name}
			for _, fl := range st.Fields.List {
				if len(fl.Names) != 1 {
					return nil, fmt.Errorf("struct %s has a field with %d names (type %s)", s.Name, len(fl.Names), typeString(fl.Type))
				}
				tag := ""
				if fl.Tag != nil {
					tag = fl.Tag.Value
				}
				s.Fields = append(s.Fields, field{Tag: tag, Type: typeString(fl.Type), Name: fl.Names[0].Name})
			}
			res = append(res, s)
		}
	}
	return res, nil
}

func canon(ss []strct) []string {
	var out []string
	for _, s := range ss {
		var fs []string
		for _, f := range s.Fields {
			fs = append(fs, f.Tag+" "+f.Type)
		}
		sort.Strings(fs)
		name := s.Name
		if isASCII(name) {
			name = strings.ToLower(name)
		} else {
			name = "?"
		}
		out = append(out, name+"{"+strings.Join(fs, ";")+"}")
	}
	sort.Strings(out)
	return out
}

func hasMapType(c docCase) bool {
	for _, o := range c.Objects {
		if c.HasIgnore && o.Name == c.Ignore {
			continue
		}
		for _, p := range o.Props {
			if p.TypeID == "map" {
				return true
			}
		}
	}
	return false
}

// runDoc returns "" when the property holds on this document.
func runDoc(c docCase, runs int) string {
	bin := os.Getenv("VERIF_BIN_CODEGEN")
	if bin == "" {
		return "VERIF_BIN_CODEGEN not set"
	}
	dir, err := os.MkdirTemp("", "c19-")
	if err != nil {
		return "mkdtemp: " + err.Error()
	}
	defer os.RemoveAll(dir)
	if err := os.WriteFile(filepath.Join(dir, "schema_input.yaml"), []byte(c.yaml()), 0o644); err != nil {
		return err.Error()
	}
	args := []string{"schema_input.yaml"}
	if c.HasIgnore {
		args = append(args, c.Ignore)
	}
	// The generator is re-run in the directory where it ran before (that is how it is used): a longer output of an
	// earlier invocation is already there before the first run, and nothing is removed between the runs.
	stale := "package stale\n\n" + strings.Repeat("// output of an earlier run on a larger schema file\ntype StaleLeftOver struct{ X int }\n", 600)
	if err := os.WriteFile(filepath.Join(dir, "typedef_output.go"), []byte(stale), 0o644); err != nil {
		return err.Error()
	}
	var first []byte
	for i := 0; i < runs; i++ {
		cmd := exec.Command(bin, args...)
		cmd.Dir = dir
		var stderr bytes.Buffer
		cmd.Stderr = &stderr
		runErr := cmd.Run()
		if runErr != nil || strings.Contains(stderr.String(), "panic:") {
			if hasMapType(c) && strings.Contains(stderr.String(), "expected") && ev.Known("type_id=map") {
				return ""
			}
			tail := stderr.String()
			if len(tail) > 600 {
				tail = tail[:600]
			}
			return fmt.Sprintf("generator failed on run %d with args %q: %v\n%s", i+1, args, runErr, tail)
		}
		out, err := os.ReadFile(filepath.Join(dir, "typedef_output.go"))
		if err != nil {
			return fmt.Sprintf("generator exited 0 but wrote no typedef_output.go: %v", err)
		}
		if i == 0 {
			first = out
			continue
		}
		if !bytes.Equal(first, out) {
			return fmt.Sprintf("run %d produced different output than run 1 for the same input:\n--- run 1\n%s\n--- run %d\n%s", i+1, first, i+1, out)
		}
	}
	// structure
	formatted, err := format.Source(first)
	if err != nil {
		return fmt.Sprintf("output is not valid Go: %v\n%s", err, first)
	}
	if !bytes.Equal(formatted, first) {
		return fmt.Sprintf("output is not gofmt-stable:\n%s", first)
	}
	got, err := parseOutput(first)
	if err != nil {
		return fmt.Sprintf("output structure: %v\n%s", err, first)
	}
	var want []strct
	for _, o := range c.Objects {
		if c.HasIgnore && o.Name == c.Ignore {
			continue
		}
		s := strct{Name: o.Name}
		for _, p := range o.Props {
			s.Fields = append(s.Fields, field{Tag: "`json:\"" + p.Name + "\"`", Type: expectedType(p)})
		}
		want = append(want, s)
	}
	if !reflect.DeepEqual(canon(got), canon(want)) {
		return fmt.Sprintf("generated structs differ from the schema.\nwant (name{tag type;...}): %v\ngot: %v\n%s", canon(want), canon(got), first)
	}
	return ""
}

// ---- generator

var goKeywords = map[string]bool{"break": true, "default": true, "func": true, "interface": true, "select": true, "case": true, "defer": true, "go": true, "map": true, "struct": true, "chan": true, "else": true, "goto": true, "package": true, "switch": true, "const": true, "fallthrough": true, "if": true, "range": true, "type": true, "continue": true, "for": true, "import": true, "return": true, "var": true}

var typeIDs = []string{"string", "integer", "float", "bool", "pattern", "enum_string", "enum_integer", "list", "object", "scope", "one_of_string", "one_of_int", "any", "ref", "ref", "integer", "float"}

func genIdent() *rapid.Generator[string] {
	return rapid.Custom(func(t *rapid.T) string {
		var s string
		switch rapid.IntRange(0, 4).Draw(t, "identKind") {
		case 0:
			s = rapid.SampledFrom([]string{"Connection", "ObjectMeta", "metadata", "bearerToken", "qps", "burst", "a", "A", "ab", "Ab", "aB", "AB", "foo_bar", "Foo_bar", "fooBar", "x1", "X1", "_x", "__", "a_1_b", "snake_case_name", "HTTPServer", "yes", "no", "true", "null", "n", "y", "on", "Type", "string", "int64", "error", "nil", "v1", "metav1"}).Draw(t, "fixed")
		case 1:
			s = rapid.StringMatching(`[a-z][a-zA-Z0-9_]{0,10}`).Draw(t, "lower")
		case 2:
			s = rapid.StringMatching(`[A-Z][a-zA-Z0-9_]{0,10}`).Draw(t, "upper")
		case 3:
			s = rapid.StringMatching(`_{0,2}[a-zA-Z][a-z0-9_]{0,6}`).Draw(t, "under")
		default:
			s = rapid.StringMatching(`[a-zA-Z]{1,3}`).Draw(t, "short")
		}
		if goKeywords[s] {
			ev.Class("pruned_go_keyword_as_name", 1)
			s += "_"
		}
		if s == "integer" || s == "float" {
			s += "_"
		}
		return s
	})
}

func genDoc() *rapid.Generator[docCase] {
	return rapid.Custom(func(t *rapid.T) docCase {
		c := docCase{Quote: rapid.IntRange(0, 3).Draw(t, "quote") == 0}
		nObj := rapid.IntRange(0, 8).Draw(t, "nObjects")
		if nObj == 0 {
			c.Skeleton = rapid.IntRange(0, 5).Draw(t, "skeleton")
		}
		seen := map[string]bool{}
		withMap := rapid.IntRange(0, 19).Draw(t, "mapClass") == 0
		for i := 0; i < nObj; i++ {
			name := genIdent().Draw(t, "objName")
			if seen[name] {
				continue
			}
			seen[name] = true
			o := objCase{Name: name, NoID: rapid.IntRange(0, 9).Draw(t, "noID") == 0}
			nProp := rapid.IntRange(0, 8).Draw(t, "nProps")
			if nProp == 0 {
				o.Null = rapid.IntRange(0, 2).Draw(t, "nullObject")
			}
			pseen := map[string]bool{}
			for j := 0; j < nProp; j++ {
				pn := genIdent().Draw(t, "propName")
				if pseen[pn] {
					continue
				}
				pseen[pn] = true
				p := propCase{Name: pn, TypeID: rapid.SampledFrom(typeIDs).Draw(t, "typeID"), Display: rapid.Bool().Draw(t, "display"),
					Required: rapid.IntRange(0, 2).Draw(t, "required"), Extra: rapid.IntRange(0, 3).Draw(t, "extra") == 0}
				if withMap && rapid.IntRange(0, 2).Draw(t, "useMap") == 0 {
					p.TypeID = "map"
				}
				p.IDLast = rapid.IntRange(0, 3).Draw(t, "idLast") == 0
				if p.TypeID != "ref" && rapid.IntRange(0, 3).Draw(t, "ownID") == 0 {
					switch rapid.IntRange(0, 2).Draw(t, "ownIDKind") {
					case 0:
						p.OwnID = rapid.SampledFrom([]string{"integer", "float", "string", "ref", "object"}).Draw(t, "ownIDWord")
					case 1:
						if len(c.Objects) > 0 {
							p.OwnID = rapid.SampledFrom(c.Objects).Draw(t, "ownIDObj").Name
							break
						}
						fallthrough
					default:
						p.OwnID = genIdent().Draw(t, "ownIDIdent")
					}
				}
				if p.TypeID == "ref" {
					if len(c.Objects) > 0 && rapid.Bool().Draw(t, "refExisting") {
						p.RefID = rapid.SampledFrom(c.Objects).Draw(t, "refObj").Name
					} else {
						p.RefID = genIdent().Draw(t, "refID")
					}
				}
				o.Props = append(o.Props, p)
			}
			c.Objects = append(c.Objects, o)
		}
		switch rapid.IntRange(0, 4).Draw(t, "argForm") {
		case 0, 1:
			c.HasIgnore = false
		case 2:
			c.HasIgnore = true
			if len(c.Objects) > 0 {
				c.Ignore = rapid.SampledFrom(c.Objects).Draw(t, "ignoreObj").Name
			} else {
				c.Ignore = "ObjectMeta"
			}
		case 3:
			c.HasIgnore = true
			c.Ignore = genIdent().Draw(t, "ignoreMissing")
		default:
			c.HasIgnore = true
			c.Ignore = ""
		}
		return c
	})
}

func TestDocs(t *testing.T) {
	ev.Check(t, "docs", 250, 4000, func(rt *rapid.T) {
		c := genDoc().Draw(rt, "doc")
		multi := len(c.Objects) >= 2
		for _, o := range c.Objects {
			if len(o.Props) >= 2 {
				multi = true
			}
		}
		classes := []string{fmt.Sprintf("objects=%d", len(c.Objects))}
		if !c.HasIgnore {
			classes = append(classes, "form=no_ignore")
		} else {
			classes = append(classes, "form=ignore")
		}
		if hasMapType(c) {
			classes = append(classes, "class_type_id_map")
		}
		ev.Case(ev.FP(c.yaml(), c.HasIgnore, c.Ignore), multi || !c.HasIgnore, classes...)
		if ev.WantSample("doc") && multi {
			ev.Sample("doc", c)
		}
		runs := 10
		if !multi {
			runs = 2
		}
		if msg := runDoc(c, runs); msg != "" {
			ev.Fail(rt, "doc", c, "%s", msg)
		}
	})
}
