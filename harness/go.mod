module verif/harness

go 1.23.0

require (
	github.com/fxamacker/cbor/v2 v2.7.0
	go.flow.arcalot.io/pluginsdk v0.0.0
	gopkg.in/yaml.v3 v3.0.1
	pgregory.net/rapid v1.3.0
)

require (
	github.com/x448/float16 v0.8.4 // indirect
	go.arcalot.io/log/v2 v2.2.0 // indirect
	golang.org/x/sys v0.30.0 // indirect
	golang.org/x/term v0.29.0 // indirect
)

replace go.flow.arcalot.io/pluginsdk => /repo
