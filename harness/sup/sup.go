// Package sup runs operations in supervised worker processes, because several failure modes of the code under
// test cannot be recovered in-process: stack exhaustion, "concurrent map writes", panics in goroutines the SDK
// starts itself, and calls that never return.
//
// The test binary doubles as the worker: when VERIF_WORKER names a registered worker function, Main runs the
// request loop instead of the tests. Requests and responses are single-line JSON on stdin/stdout; before each
// request the worker appends "begin <id>" to a journal so that a crash can be attributed to a request.
package sup

import (
	"bufio"
	"bytes"
	"encoding/json"
	"fmt"
	"io"
	"os"
	"os/exec"
	"regexp"
	"runtime/debug"
	"strings"
	"sync"
	"syscall"
	"time"
)

type request struct {
	ID   int64           `json:"id"`
	Body json.RawMessage `json:"body"`
}

type response struct {
	ID   int64           `json:"id"`
	Body json.RawMessage `json:"body"`
}

var workers = map[string]func(json.RawMessage) json.RawMessage{}

// Register makes a worker function available under a name.
func Register(name string, fn func(json.RawMessage) json.RawMessage) { workers[name] = fn }

// IsWorker reports whether this process was started as a worker.
func IsWorker() bool { return os.Getenv("VERIF_WORKER") != "" }

// RunWorker is the worker's request loop; it never returns.
func RunWorker() {
	name := os.Getenv("VERIF_WORKER")
	fn, ok := workers[name]
	if !ok {
		fmt.Fprintf(os.Stderr, "sup: unknown worker %q\n", name)
		os.Exit(3)
	}
	// make runaway recursion die in milliseconds instead of eating a gigabyte
	debug.SetMaxStack(64 << 20)
	in := bufio.NewReaderSize(os.Stdin, 1<<20)
	out := bufio.NewWriter(os.Stdout)
	for {
		line, err := in.ReadBytes('\n')
		if len(line) > 0 {
			var req request
			if jerr := json.Unmarshal(line, &req); jerr != nil {
				fmt.Fprintf(os.Stderr, "sup: bad request: %v\n", jerr)
				os.Exit(3)
			}
			fmt.Fprintf(os.Stderr, "sup-begin %d\n", req.ID)
			body := fn(req.Body)
			b, _ := json.Marshal(response{ID: req.ID, Body: body})
			_, _ = out.Write(b)
			_ = out.WriteByte('\n')
			_ = out.Flush()
		}
		if err != nil {
			os.Exit(0)
		}
	}
}

// Crash describes a worker that did not answer.
type Crash struct {
	Kind string // "fatal" (process died), "timeout" (no answer within the deadline, confirmed by a second attempt)
	Text string // first line of the fatal error / panic
	Log  string // tail of stderr (goroutine dump)
}

func (c *Crash) String() string { return c.Kind + ": " + c.Text }

// Worker is one supervised process.
type Worker struct {
	name    string
	env     []string
	cmd     *exec.Cmd
	stdin   io.WriteCloser
	lines   chan []byte
	stderr  *tailBuffer
	nextID  int64
	mu      sync.Mutex
	Respawns int
}

type tailBuffer struct {
	mu  sync.Mutex
	buf []byte
}

func (t *tailBuffer) Write(p []byte) (int, error) {
	t.mu.Lock()
	t.buf = append(t.buf, p...)
	if len(t.buf) > 1<<20 {
		t.buf = t.buf[len(t.buf)-(1<<19):]
	}
	t.mu.Unlock()
	return len(p), nil
}

func (t *tailBuffer) String() string {
	t.mu.Lock()
	defer t.mu.Unlock()
	return string(t.buf)
}

func (t *tailBuffer) Reset() {
	t.mu.Lock()
	t.buf = nil
	t.mu.Unlock()
}

// NewWorker starts a worker process running the named worker function of this same binary.
func NewWorker(name string, extraEnv ...string) *Worker {
	w := &Worker{name: name, env: extraEnv}
	w.start()
	return w
}

func (w *Worker) start() {
	exe := os.Getenv("VERIF_BIN")
	if exe == "" {
		var err error
		exe, err = os.Executable()
		if err != nil {
			panic(err)
		}
	}
	cmd := exec.Command(exe)
	cmd.Env = append(append(os.Environ(), "VERIF_WORKER="+w.name, "GOTRACEBACK=all"), w.env...)
	stdin, err := cmd.StdinPipe()
	if err != nil {
		panic(err)
	}
	stdout, err := cmd.StdoutPipe()
	if err != nil {
		panic(err)
	}
	w.stderr = &tailBuffer{}
	cmd.Stderr = w.stderr
	if err := cmd.Start(); err != nil {
		panic(err)
	}
	w.cmd, w.stdin = cmd, stdin
	lines := make(chan []byte, 4)
	w.lines = lines
	go func() {
		r := bufio.NewReaderSize(stdout, 1<<20)
		for {
			line, err := r.ReadBytes('\n')
			if len(line) > 0 {
				lines <- line
			}
			if err != nil {
				close(lines)
				return
			}
		}
	}()
}

func (w *Worker) kill(sig syscall.Signal) {
	if w.cmd != nil && w.cmd.Process != nil {
		_ = w.cmd.Process.Signal(sig)
		done := make(chan struct{})
		go func() { _ = w.cmd.Wait(); close(done) }()
		select {
		case <-done:
		case <-time.After(5 * time.Second):
			_ = w.cmd.Process.Kill()
			<-done
		}
	}
}

// Restart replaces the worker process by a fresh one (used after a request left goroutines behind, so that they
// cannot be attributed to later requests).
func (w *Worker) Restart() {
	w.mu.Lock()
	defer w.mu.Unlock()
	if w.stdin != nil {
		_ = w.stdin.Close()
	}
	w.kill(syscall.SIGKILL)
	w.Respawns++
	w.start()
}

// Close stops the worker.
func (w *Worker) Close() {
	w.mu.Lock()
	defer w.mu.Unlock()
	if w.stdin != nil {
		_ = w.stdin.Close()
	}
	w.kill(syscall.SIGKILL)
}

var fatalRe = regexp.MustCompile(`(?m)^(fatal error: .*|panic: .*|WARNING: DATA RACE|runtime: goroutine stack exceeds.*)$`)

func firstFatal(log string) string {
	if m := fatalRe.FindString(log); m != "" {
		return m
	}
	lines := strings.Split(strings.TrimSpace(log), "\n")
	if len(lines) > 0 {
		return lines[len(lines)-1]
	}
	return ""
}

func tail(s string, n int) string {
	if len(s) > n {
		return s[len(s)-n:]
	}
	return s
}

// Do sends one request and waits for the answer. On worker death or a confirmed timeout it returns a Crash and
// restarts the worker.
func (w *Worker) Do(body any, deadline time.Duration) (json.RawMessage, *Crash) {
	w.mu.Lock()
	defer w.mu.Unlock()
	b, err := json.Marshal(body)
	if err != nil {
		panic(err)
	}
	resp, crash := w.attempt(b, deadline)
	if crash != nil && crash.Kind == "timeout" {
		// confirm in a fresh worker with a generous bound before calling it a hang
		resp2, crash2 := w.attempt(b, 3*deadline)
		if crash2 == nil {
			return resp2, nil
		}
		return nil, crash2
	}
	return resp, crash
}

func (w *Worker) attempt(body []byte, deadline time.Duration) (json.RawMessage, *Crash) {
	w.nextID++
	id := w.nextID
	req, _ := json.Marshal(request{ID: id, Body: body})
	req = append(req, '\n')
	if _, err := w.stdin.Write(req); err != nil {
		log := w.stderr.String()
		w.kill(syscall.SIGKILL)
		w.Respawns++
		w.start()
		return nil, &Crash{Kind: "fatal", Text: "worker not accepting input: " + firstFatal(log), Log: tail(log, 6000)}
	}
	timer := time.NewTimer(deadline)
	defer timer.Stop()
	for {
		select {
		case line, ok := <-w.lines:
			if !ok {
				_ = w.cmd.Wait()
				log := w.stderr.String()
				w.Respawns++
				w.start()
				return nil, &Crash{Kind: "fatal", Text: firstFatal(log), Log: tail(log, 6000)}
			}
			var r response
			if err := json.Unmarshal(bytes.TrimSpace(line), &r); err != nil || r.ID != id {
				continue // stray output
			}
			w.stderr.Reset()
			return r.Body, nil
		case <-timer.C:
			w.kill(syscall.SIGQUIT) // goroutine dump on stderr
			log := w.stderr.String()
			w.Respawns++
			w.start()
			return nil, &Crash{Kind: "timeout", Text: fmt.Sprintf("no answer within %s", deadline), Log: tail(log, 12000)}
		}
	}
}
