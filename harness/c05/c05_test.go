package c05

import (
	"context"
	"encoding/json"
	"errors"
	"fmt"
	"hash/fnv"
	"io"
	"math"
	"runtime"
	"strings"
	"sync"
	"testing"
	"time"

	"github.com/fxamacker/cbor/v2"
	"go.flow.arcalot.io/pluginsdk/atp"
	"go.flow.arcalot.io/pluginsdk/schema"
	"pgregory.net/rapid"
	"verif/harness/atpx"
	"verif/harness/ev"
	"verif/harness/gen"
	"verif/harness/oracle"
	"verif/harness/spec"
	"verif/harness/val"
	"verif/harness/vpipe"
)

func TestMain(m *testing.M) {
	ev.Note("rule", "C05: rapid-generated plugin schemas (1-3 steps, each with a generated input scope and 1-3 output scopes - error and non-error - whose root objects carry a 'tag' property; deterministic handlers that pick the output by a hash of the tag and return pre-drawn conforming data with the tag copied), inputs rendered from valid-by-construction values with tag = run ID plus inputs the step's schema rejects, histories of 1-8 Execute calls (serial, all concurrent, staggered), optional signals to an unknown run (an unsolicited server frame that may trail the last pending result), and a transport plan per direction: unbuffered (io.Pipe semantics) or buffered with a generated fragment-size sequence (1 byte ... everything available), a settle pause that coalesces messages, a hold-back that ends reads inside a message, and split writes. Protocol v3 against the real RunATPServer, v1 against a harness server (serial only: v1 frames carry no run ID). Oracle (differential): each Execute returns the output ID and data that cbor-roundtrip(CallStep) on a second, identically built schema gives for the same input, or an error exactly when CallStep rejects the input; every call returns exactly once within the bound and carries its own tag; the number of work-done frames on the wire (parsed independently from the tap) equals the number of accepted calls; no two Write calls overlapped on either direction. Non-trivial: >= 2 calls overlapped in time, or a read ended inside a message / coalesced >= 2 messages, and the payload has a non-string leaf; distinct by (plugin, history, transport plan).")
	ev.RegisterReplay("session", func(t *testing.T, raw json.RawMessage) {
		var c Case
		if err := json.Unmarshal(raw, &c); err != nil {
			t.Fatal(err)
		}
		for i := 0; i < 30; i++ {
			if msg, _ := run(c); msg != "" {
				if knownCloseBlocked(msg) {
					t.Logf("repetition %d: known finding close-blocked-unread-server-message", i+1)
					continue
				}
				t.Fatalf("repetition %d: %s", i+1, msg)
			}
		}
	})
	ev.Main(m, "C05")
}

func TestReplay(t *testing.T) { ev.RunReplay(t) }

// closeBlockedSignature marks the recorded known finding (known_findings.txt, key close-blocked-unread-server-message):
// the plugin is blocked writing an error message (for a signal the client sent late) that nobody reads because the
// client's read loop stopped when its last run returned; the plugin's read loop then blocks, the client's next write
// (signal writer or client-done) blocks, and Close waits for it. Only unbuffered transports show it.
const closeBlockedSignature = "signature: plugin blocked writing an error message nobody reads (handleClosure > sendRuntimeMessage), no client read loop, client blocked writing"

func knownCloseBlocked(msg string) bool {
	return strings.HasPrefix(msg, "Close did not return") && strings.Contains(msg, closeBlockedSignature) && ev.Known("close-blocked-unread-server-message")
}

type OutputSpec struct {
	ID     string     `json:"id"`
	Schema *spec.Spec `json:"schema"`
	Error  bool       `json:"error"`
	Data   val.V      `json:"data"` // canonical raw of the pre-drawn data (without tag)
}

type StepSpec struct {
	ID      string       `json:"id"`
	Input   *spec.Spec   `json:"input"`
	Outputs []OutputSpec `json:"outputs"`
}

type Call struct {
	Run     string `json:"run"`
	Step    string `json:"step"`
	Input   val.V  `json:"input"`
	Group   int    `json:"group"`              // calls of one group start together; groups run one after the other
	DelayMs int    `json:"delay_ms"`           // stagger inside the group
	Poke    bool   `json:"poke"`               // send a signal addressed to an unknown run while this call is pending
	PokeOwn bool   `json:"poke_own,omitempty"` // ... addressed to this very run instead, with a signal ID the step does not declare
}

type Case struct {
	Steps []StepSpec `json:"steps"`
	Calls []Call     `json:"calls"`
	C2S   vpipe.Plan `json:"c2s"`
	S2C   vpipe.Plan `json:"s2c"`
	V1    bool       `json:"v1"`
}

func tagOf(x any) string {
	switch m := x.(type) {
	case map[string]any:
		s, _ := m["tag"].(string)
		return s
	case map[any]any:
		s, _ := m["tag"].(string)
		return s
	}
	return ""
}

func hashTag(s string) int {
	h := fnv.New32a()
	_, _ = h.Write([]byte(s))
	return int(h.Sum32() & 0x7fffffff)
}

func buildPlugin(c Case) (*schema.CallableSchema, error) {
	var steps []schema.CallableStep
	for _, st := range c.Steps {
		st := st
		in, err := spec.Build(st.Input)
		if err != nil {
			return nil, err
		}
		outs := map[string]*schema.StepOutputSchema{}
		natives := make([]map[string]any, len(st.Outputs))
		for i, o := range st.Outputs {
			osc, err := spec.Build(o.Schema)
			if err != nil {
				return nil, err
			}
			outs[o.ID] = schema.NewStepOutputSchema(osc.(*schema.ScopeSchema), nil, o.Error)
			raw := o.Data.Go()
			if m, ok := raw.(map[string]any); ok {
				m["tag"] = "placeholder"
			}
			u, uerr := osc.Unserialize(raw)
			if uerr != nil {
				return nil, fmt.Errorf("pre-drawn output data not accepted: %w", uerr)
			}
			natives[i] = u.(map[string]any)
		}
		steps = append(steps, schema.NewCallableStep[any](st.ID, in.(*schema.ScopeSchema), outs, nil, func(_ context.Context, input any) (string, any) {
			tag := tagOf(input)
			i := hashTag(tag) % len(st.Outputs)
			data := map[string]any{}
			for k, v := range natives[i] {
				data[k] = v
			}
			data["tag"] = tag
			return st.Outputs[i].ID, data
		}))
	}
	return schema.NewCallableSchema(steps...), nil
}

func cborRoundTrip(x any) (any, error) {
	b, err := cbor.Marshal(x)
	if err != nil {
		return nil, err
	}
	var out any
	err = atpx.Dec.Unmarshal(b, &out)
	return out, err
}

type channel struct {
	r *vpipe.Pipe
	w *vpipe.Pipe
}

func (c channel) Read(p []byte) (int, error)  { return c.r.Read(p) }
func (c channel) Write(p []byte) (int, error) { return c.w.Write(p) }
func (c channel) Close() error                { _ = c.w.Close(); return nil }

type readCloser struct{ *vpipe.Pipe }
type writeCloser struct{ *vpipe.Pipe }

// v1Server: the legacy framing - hello, then bare work-start / work-done messages, strictly serial.
func v1Server(in *vpipe.Pipe, out *vpipe.Pipe, plugin *schema.CallableSchema) {
	// whatever makes the legacy server stop, it goes away (both directions end)
	defer func() {
		_ = out.Close()
		_ = in.Close()
	}()
	dec := atpx.Dec.NewDecoder(in)
	enc := cbor.NewEncoder(out)
	var start any
	if dec.Decode(&start) != nil {
		return
	}
	desc, err := plugin.SelfSerialize()
	if err != nil {
		return
	}
	if enc.Encode(atp.HelloMessage{Version: 1, Schema: desc}) != nil {
		return
	}
	for {
		var ws atp.WorkStartMessage
		if dec.Decode(&ws) != nil {
			return
		}
		id, data, err := plugin.CallStep(context.Background(), "v1", ws.StepID, ws.Config)
		if err != nil {
			// v1 has no error frame: the legacy server reported failures by going away
			_ = out.Close()
			_ = in.Close()
			return
		}
		if enc.Encode(atp.WorkDoneMessage{StepID: ws.StepID, OutputID: id, OutputData: data}) != nil {
			return
		}
	}
}

type outcome struct {
	res      atp.ExecutionResult
	returned bool
	count    int
	start    time.Time
	end      time.Time
}

func caseJSON(c Case) string {
	b, _ := json.Marshal(c)
	s := string(b)
	if len(s) > 6000 {
		s = s[:6000] + "..."
	}
	return s
}

// run executes the session and compares with the in-process reference. Returns (message, stats).
func run(c Case) (string, map[string]int) {
	stats := map[string]int{}
	plugin, err := buildPlugin(c)
	if err != nil {
		return "", stats
	}
	reference, err := buildPlugin(c)
	if err != nil {
		return "", stats
	}
	c2s, s2c := vpipe.New(c.C2S), vpipe.New(c.S2C)
	srvDone := make(chan struct{})
	go func() {
		defer close(srvDone)
		if c.V1 {
			v1Server(c2s, s2c, plugin)
		} else {
			atp.RunATPServer(context.Background(), readCloser{c2s}, writeCloser{s2c}, plugin)
		}
	}()
	client := atp.NewClient(channel{r: s2c, w: c2s})
	var serr error
	done := make(chan struct{})
	go func() { defer close(done); _, serr = client.ReadSchema() }()
	select {
	case <-done:
	case <-time.After(20 * time.Second):
		return "ReadSchema did not return on a healthy connection\nsession: " + caseJSON(c), stats
	}
	if serr != nil {
		return fmt.Sprintf("ReadSchema failed on a healthy connection: %v\nsession: %s", serr, caseJSON(c)), stats
	}
	outs := make([]outcome, len(c.Calls))
	groups := map[int][]int{}
	maxGroup := 0
	for i, cl := range c.Calls {
		groups[cl.Group] = append(groups[cl.Group], i)
		if cl.Group > maxGroup {
			maxGroup = cl.Group
		}
	}
	var mu sync.Mutex
	for g := 0; g <= maxGroup; g++ {
		var wg sync.WaitGroup
		for _, i := range groups[g] {
			wg.Add(1)
			go func(i int) {
				defer wg.Done()
				cl := c.Calls[i]
				if cl.DelayMs > 0 {
					time.Sleep(time.Duration(cl.DelayMs) * time.Millisecond)
				}
				var toStep chan schema.Input
				if cl.Poke && !c.V1 {
					toStep = make(chan schema.Input, 1)
					target := "unknown-run-" + cl.Run
					if cl.PokeOwn {
						// the plugin answers with an error message that carries this run's ID and is fatal to nothing:
						// the run's result must still be the step's
						target = cl.Run
					}
					toStep <- schema.Input{RunID: target, ID: "whatever", InputData: map[string]any{}}
				}
				ret := make(chan atp.ExecutionResult, 1)
				start := time.Now()
				go func() {
					var ts <-chan schema.Input
					if toStep != nil {
						ts = toStep
					}
					ret <- client.Execute(schema.Input{RunID: cl.Run, ID: cl.Step, InputData: cl.Input.Go()}, ts, nil)
				}()
				select {
				case r := <-ret:
					mu.Lock()
					outs[i] = outcome{res: r, returned: true, count: 1, start: start, end: time.Now()}
					mu.Unlock()
				case <-time.After(30 * time.Second):
					mu.Lock()
					outs[i] = outcome{start: start, end: time.Now()}
					mu.Unlock()
				}
				if toStep != nil {
					close(toStep)
				}
			}(i)
		}
		wg.Wait()
	}
	// ---- compare
	accepted := 0
	comparedAll := true
	// an input that cannot travel ends the connection for everything that runs with or after it
	badGroup := 1 << 30
	for _, cl := range c.Calls {
		if _, rerr := cborRoundTrip(cl.Input.Go()); rerr != nil && cl.Group < badGroup {
			badGroup = cl.Group
		}
	}
	// calls that share their run ID with another call of the same group: one of each such set may be refused
	sharing := map[string]int{}
	for _, cl := range c.Calls {
		sharing[fmt.Sprint(cl.Group, "/", cl.Run)]++
	}
	served := map[string]int{}
	for i, cl := range c.Calls {
		if cl.Group >= badGroup {
			comparedAll = false
			continue
		}
		o := outs[i]
		set := fmt.Sprint(cl.Group, "/", cl.Run)
		if sharing[set] > 1 && o.returned && o.res.Error != nil {
			continue // refused (or failed like its twin): judged per set below
		}
		if sharing[set] > 1 && o.returned {
			served[set]++
		}
		if !o.returned {
			buf := make([]byte, 1<<16)
			return fmt.Sprintf("Execute(%s) did not return within 30 s on a healthy connection\n%s\nsession: %s", cl.Run, firstLines(string(buf[:runtime.Stack(buf, true)]), 60), caseJSON(c)), stats
		}
		rtIn, rerr := cborRoundTrip(cl.Input.Go())
		if rerr != nil {
			// the input cannot travel (e.g. a string that is not valid UTF-8): the peer's decoder gives up on the
			// connection, so nothing after this call can be compared with a healthy-connection reference
			comparedAll = false
			break
		}
		var wantID string
		var wantData any
		var werr error
		if p := oracle.Safely(func() { wantID, wantData, werr = reference.CallStep(context.Background(), cl.Run, cl.Step, rtIn) }); p != nil {
			continue
		}
		if werr != nil {
			var inv schema.InvalidInputError
			var bad schema.BadArgumentError
			if (errors.As(werr, &inv) || errors.As(werr, &bad)) && o.res.Error == nil {
				return fmt.Sprintf("Execute(%s): the step rejects this input in-process (%v) but the call returned success %q over ATP\nsession: %s", cl.Run, werr, o.res.OutputID, caseJSON(c)), stats
			}
			if c.V1 {
				comparedAll = false
				break // a failed call ends a v1 session
			}
			continue
		}
		accepted++
		if o.res.Error != nil {
			return fmt.Sprintf("Execute(%s) failed on a healthy connection although the step succeeds in-process with output %q: %v\nsession: %s", cl.Run, wantID, o.res.Error, caseJSON(c)), stats
		}
		wantRT, _ := cborRoundTrip(wantData)
		if o.res.OutputID != wantID || !val.Equal(o.res.OutputData, wantRT, val.Opts{}) {
			return fmt.Sprintf("Execute(%s) returned (%q, %#v), in-process the step gives (%q, %#v)\nsession: %s", cl.Run, o.res.OutputID, o.res.OutputData, wantID, wantRT, caseJSON(c)), stats
		}
		if tagOf(o.res.OutputData) != cl.Run {
			return fmt.Sprintf("Execute(%s) received the result of run %q\nsession: %s", cl.Run, tagOf(o.res.OutputData), caseJSON(c)), stats
		}
	}
	for set, n := range sharing {
		if n > 1 && served[set] == 0 && comparedAll {
			// every call of the set was refused or failed: that can only be if the call that registered first - whichever
			// it was - carried an input the step rejects
			allValid := true
			for _, cl := range c.Calls {
				if fmt.Sprint(cl.Group, "/", cl.Run) != set {
					continue
				}
				rtIn, rerr := cborRoundTrip(cl.Input.Go())
				if rerr != nil {
					allValid = false
					continue
				}
				var werr error
				if p := oracle.Safely(func() { _, _, werr = reference.CallStep(context.Background(), cl.Run, cl.Step, rtIn) }); p != nil || werr != nil {
					allValid = false
				}
			}
			if allValid {
				return fmt.Sprintf("%d overlapping calls shared the run ID of set %s: none of them returned the run's result\nsession: %s", n, set, caseJSON(c)), stats
			}
		}
	}
	// ---- close and wire-level invariants
	closed := make(chan struct{})
	go func() { defer close(closed); defer func() { _ = recover() }(); _ = client.Close() }()
	select {
	case <-closed:
	case <-time.After(30 * time.Second):
		buf := make([]byte, 1<<18)
		dump := string(buf[:runtime.Stack(buf, true)])
		sig := ""
		if strings.Contains(dump, "atp.(*atpServerSession).handleClosure") && strings.Contains(dump, "atp.(*atpServerSession).sendRuntimeMessage.func1") &&
			(strings.Contains(dump, "atp.(*client).executeWriteLoop") || strings.Contains(dump, "atp.(*client).Close")) && !strings.Contains(dump, "atp.(*client).executeReadLoop") {
			sig = closeBlockedSignature + "\n"
		}
		return "Close did not return on a healthy connection\n" + sig + firstLines(dump, 140) + "\nsession: " + caseJSON(c), stats
	}
	_ = c2s.Close()
	go func() {
		buf := make([]byte, 4096)
		for {
			if _, err := s2c.Read(buf); err != nil {
				return
			}
		}
	}()
	select {
	case <-srvDone:
	case <-time.After(20 * time.Second):
	}
	_ = s2c.Close()
	if !c.V1 {
		_, _, msgs, perr := atpx.ParseOutput(s2c.Tap())
		if perr != nil {
			return fmt.Sprintf("the server->client byte stream is not a well-formed message sequence (interleaved writes?): %v\nsession: %s", perr, caseJSON(c)), stats
		}
		wd := 0
		for _, m := range msgs {
			if m.ID == atp.MessageTypeWorkDone {
				wd++
			}
		}
		if comparedAll && wd != accepted {
			return fmt.Sprintf("%d work-done frames on the wire for %d accepted calls\nsession: %s", wd, accepted, caseJSON(c)), stats
		}
	}
	ov1, mid1, co1 := c2s.Stats()
	ov2, mid2, co2 := s2c.Stats()
	if ov1 > 0 || ov2 > 0 {
		return fmt.Sprintf("overlapping Write calls on the transport (client->server %d, server->client %d): messages of concurrent steps can interleave\nsession: %s", ov1, ov2, caseJSON(c)), stats
	}
	stats["mid_message_reads"] = mid1 + mid2
	stats["coalesced_reads"] = co1 + co2
	overlap := 0
	for i := range outs {
		for j := i + 1; j < len(outs); j++ {
			if outs[i].start.Before(outs[j].end) && outs[j].start.Before(outs[i].end) {
				overlap++
			}
		}
	}
	stats["overlapping_calls"] = overlap
	stats["accepted"] = accepted
	return "", stats
}

func firstLines(s string, n int) string {
	l := strings.Split(s, "\n")
	if len(l) > n {
		l = l[:n]
	}
	return strings.Join(l, "\n")
}

var _ = io.EOF

// ---------------------------------------------------------------------------------------------------------------
// generator

func scopeWithTag(t *rapid.T, label string) *spec.Spec {
	o := gen.Opts{MaxDepth: 2, Objects: true, Defaults: true, Presence: false, ScopeRoot: true, Units: true, OneOf: true, Describable: true}
	s := gen.Spec(o).Draw(t, label)
	gen.AddDefaults(t, s, o)
	root := s.ObjectByID(s.Root)
	var keep []spec.Prop
	for _, p := range root.Props {
		if p.Name != "tag" {
			keep = append(keep, p)
		}
	}
	root.Props = append(keep, spec.Prop{Name: "tag", Type: &spec.Spec{Kind: spec.KString}, Required: true}, spec.Prop{Name: "zz_pad", Type: &spec.Spec{Kind: spec.KBool}},
		spec.Prop{Name: "zz_deep", Type: &spec.Spec{Kind: spec.KAny}})
	return s
}

// withDeep adds a deeply nested value under the any-typed property zz_deep: data of recursive types nests as deep as
// it is long, and the transport has to carry what the in-process call accepts.
func withDeep(t *rapid.T, v val.V, label string) val.V {
	if (v.T != "map[string]any" && v.T != "map[any]any") || rapid.IntRange(0, 5).Draw(t, label+"Deep") != 0 {
		return v
	}
	depth := rapid.SampledFrom([]int{1, 10, 28, 31, 40, 120}).Draw(t, label+"DeepLevels")
	d := val.Int("int64", 7)
	switch rapid.IntRange(0, 4).Draw(t, label+"DeepLeaf") {
	case 0:
		d = val.Float("float64", math.NaN())
		ev.Class("payload_leaf_non_finite", 1)
	case 1:
		d = val.Float("float64", math.Inf(1))
		ev.Class("payload_leaf_non_finite", 1)
	case 2:
		d = val.Float("float64", math.Inf(-1))
		ev.Class("payload_leaf_non_finite", 1)
	}
	for i := 0; i < depth; i++ {
		if i%2 == 0 {
			d = val.V{T: "[]any", L: []val.V{d}}
		} else {
			d = val.V{T: "map[string]any", M: []val.KV{{K: val.Str("k"), V: d}}}
		}
	}
	c := v
	c.M = append(append([]val.KV(nil), v.M...), val.KV{K: val.Str("zz_deep"), V: d})
	ev.Class(fmt.Sprintf("payload_nesting_levels=%d", depth), 1)
	return c
}

func withTag(v val.V, tag string) val.V {
	if v.T != "map[string]any" && v.T != "map[any]any" {
		return v
	}
	c := v
	c.M = nil
	for _, e := range v.M {
		if e.K.S != "tag" {
			c.M = append(c.M, e)
		}
	}
	c.M = append(c.M, val.KV{K: val.Str("tag"), V: val.Str(tag)})
	return c
}

func genPlan(t *rapid.T, label string) vpipe.Plan {
	p := vpipe.Plan{Buffered: rapid.IntRange(0, 3).Draw(t, label+"Buffered") != 0}
	if p.Buffered {
		n := rapid.IntRange(0, 4).Draw(t, label+"nFrags")
		for i := 0; i < n; i++ {
			p.Frags = append(p.Frags, rapid.SampledFrom([]int{1, 2, 3, 7, 16, 64, 0, 0}).Draw(t, label+"frag"))
		}
		p.SettleMs = rapid.SampledFrom([]int{0, 0, 1, 3}).Draw(t, label+"settle")
		p.HoldBack = rapid.SampledFrom([]int{0, 0, 1, 5, 9}).Draw(t, label+"holdBack")
	}
	p.SplitWrite = rapid.IntRange(0, 3).Draw(t, label+"split") == 0
	return p
}

func hasNonStringLeaf(v val.V) bool {
	switch v.T {
	case "string", "nil":
		return false
	}
	if len(v.M) == 0 && len(v.L) == 0 {
		return v.T != "map[string]any" && v.T != "map[any]any" && v.T != "[]any"
	}
	for _, e := range v.M {
		if hasNonStringLeaf(e.V) {
			return true
		}
	}
	for _, e := range v.L {
		if hasNonStringLeaf(e) {
			return true
		}
	}
	return false
}

func TestSessions(t *testing.T) {
	ev.Check(t, "sessions", 300, 5000, func(rt *rapid.T) {
		c := Case{V1: rapid.IntRange(0, 5).Draw(rt, "v1") == 0}
		for i := 0; i < rapid.IntRange(1, 3).Draw(rt, "nSteps"); i++ {
			st := StepSpec{ID: []string{"st", "st1", "st10", "st2"}[i%4], Input: scopeWithTag(rt, "input")}
			for j := 0; j < rapid.IntRange(1, 3).Draw(rt, "nOutputs"); j++ {
				osc := scopeWithTag(rt, "output")
				mv, ok := gen.ValueFor(rt, osc, nil, 2)
				if !ok {
					rt.Skip("no output data")
				}
				st.Outputs = append(st.Outputs, OutputSpec{ID: []string{"success", "error", "other"}[j], Schema: osc, Error: j == 1, Data: withDeep(rt, gen.RenderCanonical(rt, osc, nil, mv), "output")})
			}
			c.Steps = append(c.Steps, st)
		}
		nCalls := rapid.IntRange(1, 8).Draw(rt, "nCalls")
		shape := rapid.SampledFrom([]string{"serial", "concurrent", "staggered", "mixed"}).Draw(rt, "shape")
		if c.V1 {
			shape = "serial"
		}
		nonString, reused := false, false
		for i := 0; i < nCalls; i++ {
			st := rapid.SampledFrom(c.Steps).Draw(rt, "callStep")
			cl := Call{Run: []string{"r", "r1", "r10", "r11", "r2", "r20", "r3", "r30"}[i%8], Step: st.ID} // IDs that are prefixes of each other
			switch shape {
			case "serial":
				cl.Group = i
			case "mixed":
				cl.Group = i / 2
			}
			// run IDs are the caller's: a later call may reuse the ID of a run that has already returned (calls of an
			// earlier group are over before this one starts) - whatever that run ended in, for whatever step
			if cl.Group > 0 && rapid.IntRange(0, 3).Draw(rt, "reuseRunID") == 0 {
				var earlier []string
				inGroup := map[string]bool{}
				for _, prev := range c.Calls {
					if prev.Group == cl.Group {
						inGroup[prev.Run] = true // two pending calls must not share an ID
					}
				}
				for _, prev := range c.Calls {
					if prev.Group < cl.Group && !inGroup[prev.Run] {
						earlier = append(earlier, prev.Run)
					}
				}
				if len(earlier) > 0 {
					cl.Run = rapid.SampledFrom(earlier).Draw(rt, "reusedRun")
					reused = true
				}
			}
			if mv, ok := gen.ValueFor(rt, st.Input, nil, 2); ok && rapid.IntRange(0, 5).Draw(rt, "validInput") != 0 {
				cl.Input = withDeep(rt, withTag(gen.Render(rt, st.Input, nil, mv).V, cl.Run), "input")
			} else {
				cl.Input = gen.Hostile(1).Draw(rt, "badInput")
			}
			if hasNonStringLeaf(cl.Input) {
				nonString = true
			}
			switch shape {
			case "serial":
				cl.Group = i
			case "concurrent":
				cl.Group = 0
			case "staggered":
				cl.Group = 0
				cl.DelayMs = rapid.IntRange(0, 4).Draw(rt, "delay")
			default:
				cl.Group = i / 2
			}
			// now and then a call carries the run ID of a call that is pending at the same time (the caller's mistake):
			// the client refuses one of the two, the other one's result must arrive untouched
			if !c.V1 && rapid.IntRange(0, 5).Draw(rt, "sharedRunID") == 0 {
				for _, prev := range c.Calls {
					if prev.Group == cl.Group && prev.Run != cl.Run && prev.Step == cl.Step {
						cl.Run = prev.Run
						cl.Input = withTag(cl.Input, cl.Run)
						cl.DelayMs = 5 + cl.DelayMs
						ev.Class("call_shares_run_id_with_pending_call", 1)
						break
					}
				}
			}
			cl.Poke = !c.V1 && rapid.IntRange(0, 3).Draw(rt, "poke") == 0
			cl.PokeOwn = cl.Poke && rapid.Bool().Draw(rt, "pokeOwn")
			if cl.PokeOwn {
				ev.Class("signal_to_own_run_answered_by_nonfatal_error", 1)
			}
			c.Calls = append(c.Calls, cl)
		}
		c.C2S, c.S2C = genPlan(rt, "c2s"), genPlan(rt, "s2c")
		msg, stats := run(c)
		nontrivial := (stats["overlapping_calls"] > 0 || stats["mid_message_reads"] > 0 || stats["coalesced_reads"] > 0) && nonString
		classes := []string{"shape:" + shape, fmt.Sprintf("v1=%v", c.V1), fmt.Sprintf("s2c_buffered=%v", c.S2C.Buffered)}
		if stats["overlapping_calls"] > 0 {
			classes = append(classes, "calls_overlapped")
		}
		if reused {
			classes = append(classes, "run_id_reused_after_completion")
		}
		if stats["mid_message_reads"] > 0 {
			classes = append(classes, "read_ended_inside_message")
		}
		if stats["coalesced_reads"] > 0 {
			classes = append(classes, "read_coalesced_messages")
		}
		ev.Case(ev.FP(caseJSON(c)), nontrivial, classes...)
		if nontrivial && ev.WantSample("session") {
			ev.Sample("session", map[string]any{"calls": len(c.Calls), "shape": shape, "c2s": c.C2S, "s2c": c.S2C, "v1": c.V1, "steps": len(c.Steps)})
		}
		if msg != "" {
			if knownCloseBlocked(msg) {
				ev.Class("known_close_blocked_unread_server_message", 1)
				return
			}
			ev.Fail(rt, "session", c, "%s", msg)
		}
	})
}
