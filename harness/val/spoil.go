package val

import (
	"fmt"
	"math"
	"reflect"
	"regexp"
	"sort"
)

// Spoil returns a deep copy of the native value x in which exactly one scalar leaf (leaf number k modulo the number
// of leaves, in a deterministic order: map keys sorted by their printed form) is replaced by a value that most
// constraints reject: strings grow a control-character tail, integers become huge, floats very negative, booleans
// flip. Leaves held in interfaces are, for every other k, replaced by a value of another type instead. Everything
// else - in particular every discriminator, key and sibling - stays as it is, so the value remains "near valid".
// The second result is the number of leaves (0: nothing to spoil, x is returned as is).
func Spoil(x any, k int) (any, int) {
	if x == nil || k < 0 {
		return x, 0
	}
	n := 0
	walkSpoil(reflect.ValueOf(x), true, &n, -1, false)
	if n == 0 {
		return x, 0
	}
	target, cross := k%n, (k/n)%2 == 1
	c := 0
	out := walkSpoil(reflect.ValueOf(x), true, &c, target, cross)
	return out.Interface(), n
}

var regexpPtr = reflect.TypeOf(&regexp.Regexp{})

func walkSpoil(v reflect.Value, dyn bool, count *int, target int, cross bool) reflect.Value {
	if !v.IsValid() {
		return v
	}
	leaf := func(same reflect.Value, other any) reflect.Value {
		*count++
		if *count-1 != target {
			return v
		}
		if cross && dyn {
			return reflect.ValueOf(other)
		}
		return same.Convert(v.Type())
	}
	switch v.Kind() {
	case reflect.String:
		return leaf(reflect.ValueOf(v.String()+"\x00 spoiled by the harness: far too long for any sensible maximum length"), int64(7))
	case reflect.Int, reflect.Int8, reflect.Int16, reflect.Int32, reflect.Int64:
		big := int64(math.MaxInt64 - 3)
		switch v.Kind() {
		case reflect.Int8:
			big = math.MaxInt8
		case reflect.Int16:
			big = math.MaxInt16
		case reflect.Int32:
			big = math.MaxInt32
		}
		return leaf(reflect.ValueOf(big), "x")
	case reflect.Uint, reflect.Uint8, reflect.Uint16, reflect.Uint32, reflect.Uint64:
		return leaf(reflect.ValueOf(uint64(math.MaxUint8)), "x")
	case reflect.Float32, reflect.Float64:
		return leaf(reflect.ValueOf(float64(-1e30)), "x")
	case reflect.Bool:
		return leaf(reflect.ValueOf(!v.Bool()), "x")
	case reflect.Interface:
		if v.IsNil() {
			return v
		}
		inner := walkSpoil(v.Elem(), true, count, target, cross)
		if !inner.Type().AssignableTo(v.Type()) {
			return v
		}
		nv := reflect.New(v.Type()).Elem()
		nv.Set(inner)
		return nv
	case reflect.Pointer:
		if v.IsNil() || v.Type() == regexpPtr {
			return v
		}
		p := reflect.New(v.Type().Elem())
		p.Elem().Set(walkSpoil(v.Elem(), false, count, target, cross))
		return p
	case reflect.Map:
		if v.IsNil() {
			return v
		}
		keys := v.MapKeys()
		sort.Slice(keys, func(i, j int) bool {
			return fmt.Sprintf("%T%v", keys[i].Interface(), keys[i].Interface()) < fmt.Sprintf("%T%v", keys[j].Interface(), keys[j].Interface())
		})
		m := reflect.MakeMapWithSize(v.Type(), v.Len())
		elemDyn := v.Type().Elem().Kind() == reflect.Interface
		for _, key := range keys {
			e := v.MapIndex(key)
			var ne reflect.Value
			if elemDyn {
				ne = walkSpoil(e, true, count, target, cross) // e is an interface value
			} else {
				ne = walkSpoil(e, false, count, target, cross)
			}
			m.SetMapIndex(key, ne)
		}
		return m
	case reflect.Slice:
		if v.IsNil() {
			return v
		}
		s := reflect.MakeSlice(v.Type(), v.Len(), v.Len())
		for i := 0; i < v.Len(); i++ {
			s.Index(i).Set(walkSpoil(v.Index(i), false, count, target, cross))
		}
		return s
	case reflect.Struct:
		s := reflect.New(v.Type()).Elem()
		s.Set(v)
		for i := 0; i < v.NumField(); i++ {
			if s.Field(i).CanSet() {
				s.Field(i).Set(walkSpoil(v.Field(i), false, count, target, cross))
			}
		}
		return s
	}
	return v
}

// Blank returns a deep copy of the native value x in which exactly one location that can express absence (number k
// modulo the number of such locations, in a deterministic order) is made absent: a pointer becomes nil, a map entry
// is removed, an interface field or element becomes nil. Everything else stays as it is. The second result is the
// number of locations (0: x is returned as is).
func Blank(x any, k int) (any, int) {
	if x == nil || k < 0 {
		return x, 0
	}
	holder := reflect.New(reflect.TypeOf(x)).Elem()
	holder.Set(reflect.ValueOf(DeepCopy(x)))
	n := 0
	walkBlank(holder, &n, -1)
	if n == 0 {
		return x, 0
	}
	c := 0
	walkBlank(holder, &c, k%n)
	return holder.Interface(), n
}

// walkBlank visits the locations below the settable value v; it reports whether the target was hit below (or at) v.
func walkBlank(v reflect.Value, count *int, target int) bool {
	hit := func() bool {
		*count++
		return *count-1 == target
	}
	switch v.Kind() {
	case reflect.Pointer:
		if v.IsNil() || v.Type() == regexpPtr {
			return false
		}
		if hit() {
			v.Set(reflect.Zero(v.Type()))
			return true
		}
		return walkBlank(v.Elem(), count, target)
	case reflect.Interface:
		if v.IsNil() {
			return false
		}
		if hit() {
			v.Set(reflect.Zero(v.Type()))
			return true
		}
		tmp := reflect.New(v.Elem().Type()).Elem()
		tmp.Set(v.Elem())
		if walkBlank(tmp, count, target) {
			v.Set(tmp)
			return true
		}
		return false
	case reflect.Struct:
		for i := 0; i < v.NumField(); i++ {
			if !v.Field(i).CanSet() {
				continue
			}
			if walkBlank(v.Field(i), count, target) {
				return true
			}
		}
	case reflect.Slice, reflect.Array:
		for i := 0; i < v.Len(); i++ {
			if walkBlank(v.Index(i), count, target) {
				return true
			}
		}
	case reflect.Map:
		keys := v.MapKeys()
		sort.Slice(keys, func(i, j int) bool { return fmt.Sprintf("%#v", keys[i].Interface()) < fmt.Sprintf("%#v", keys[j].Interface()) })
		for _, key := range keys {
			if hit() {
				v.SetMapIndex(key, reflect.Value{})
				return true
			}
			tmp := reflect.New(v.Type().Elem()).Elem()
			tmp.Set(v.MapIndex(key))
			if walkBlank(tmp, count, target) {
				v.SetMapIndex(key, tmp)
				return true
			}
		}
	}
	return false
}
