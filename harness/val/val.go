// Package val describes Go values as tagged JSON trees (so replay files keep dynamic types), rebuilds them, and
// provides the deep comparison used by the round-trip and model oracles.
package val

import (
	"fmt"
	"math"
	"math/big"
	"reflect"
	"regexp"
	"sort"
	"strconv"
	"time"

	"github.com/fxamacker/cbor/v2"
)

// MyStr and MyInt are named scalar types used in the native-value domain and by the struct catalogue.
type MyStr string
type MyInt int64
type MyFloat float64
type MyBool bool

// V is the description of one Go value.
//
// T is the dynamic type: nil, bool, int, int8..int64, uint, uint8..uint64, float32, float64, string, bytes, time,
// bigint, tag, simple, mystr, myint, myfloat, mybool, regexp, nilregexp, ptr (L[0] = pointee, empty L = typed nil *int64),
// complex, chan, func, array (of L), and the containers:
// []any []int64 []int []string []float64 []bool []uint8 []map[string]any,
// map[string]any map[any]any map[int64]any map[string]string map[string]int64 map[int64]string map[mystr]any map[int]any.
type V struct {
	T string `json:"t"`
	S string `json:"s,omitempty"`
	L []V    `json:"l,omitempty"`
	M []KV   `json:"m,omitempty"`
}

// KV is one map entry.
type KV struct {
	K V `json:"k"`
	V V `json:"v"`
}

func (v V) String() string {
	switch {
	case len(v.L) > 0 || len(v.T) > 1 && v.T[0] == '[':
		s := v.T + "{"
		for i, e := range v.L {
			if i > 0 {
				s += ", "
			}
			s += e.String()
		}
		return s + "}"
	case len(v.M) > 0 || len(v.T) > 3 && v.T[:3] == "map":
		s := v.T + "{"
		for i, e := range v.M {
			if i > 0 {
				s += ", "
			}
			s += e.K.String() + ": " + e.V.String()
		}
		return s + "}"
	case v.T == "nil":
		return "nil"
	case v.T == "string":
		return strconv.Quote(v.S)
	}
	return v.T + "(" + v.S + ")"
}

// Constructors
func Nil() V                { return V{T: "nil"} }
func Bool(b bool) V         { return V{T: "bool", S: strconv.FormatBool(b)} }
func Str(s string) V        { return V{T: "string", S: s} }
func Int(t string, i int64) V { return V{T: t, S: strconv.FormatInt(i, 10)} }
func Uint(t string, u uint64) V {
	return V{T: t, S: strconv.FormatUint(u, 10)}
}
func Float(t string, f float64) V { return V{T: t, S: strconv.FormatFloat(f, 'g', -1, 64)} }
func List(t string, l ...V) V   { return V{T: t, L: l} }
func Map(t string, m ...KV) V   { return V{T: t, M: m} }

func parseF(s string) float64 {
	f, err := strconv.ParseFloat(s, 64)
	if err != nil {
		panic("val: bad float " + s)
	}
	return f
}

func parseI(s string) int64 {
	i, err := strconv.ParseInt(s, 10, 64)
	if err != nil {
		panic("val: bad int " + s)
	}
	return i
}

func parseU(s string) uint64 {
	u, err := strconv.ParseUint(s, 10, 64)
	if err != nil {
		panic("val: bad uint " + s)
	}
	return u
}

// Go rebuilds the described Go value.
func (v V) Go() any {
	switch v.T {
	case "nil":
		return nil
	case "bool":
		return v.S == "true"
	case "mybool":
		return MyBool(v.S == "true")
	case "int":
		return int(parseI(v.S))
	case "int8":
		return int8(parseI(v.S))
	case "int16":
		return int16(parseI(v.S))
	case "int32":
		return int32(parseI(v.S))
	case "int64":
		return parseI(v.S)
	case "myint":
		return MyInt(parseI(v.S))
	case "uint":
		return uint(parseU(v.S))
	case "uint8":
		return uint8(parseU(v.S))
	case "uint16":
		return uint16(parseU(v.S))
	case "uint32":
		return uint32(parseU(v.S))
	case "uint64":
		return parseU(v.S)
	case "float32":
		return float32(parseF(v.S))
	case "float64":
		return parseF(v.S)
	case "myfloat":
		return MyFloat(parseF(v.S))
	case "string":
		return v.S
	case "mystr":
		return MyStr(v.S)
	case "bytes":
		return []byte(v.S)
	case "bytestring":
		return cbor.ByteString(v.S)
	case "time":
		return time.Unix(parseI(v.S), 0).UTC()
	case "bigint":
		b, _ := new(big.Int).SetString(v.S, 10)
		return *b
	case "tag":
		var content any
		if len(v.L) > 0 {
			content = v.L[0].Go()
		}
		return cbor.Tag{Number: parseU(v.S), Content: content}
	case "simple":
		return cbor.SimpleValue(parseU(v.S))
	case "regexp":
		return regexp.MustCompile(v.S)
	case "nilregexp":
		return (*regexp.Regexp)(nil)
	case "ptr":
		if len(v.L) == 0 {
			return (*int64)(nil)
		}
		inner := v.L[0].Go()
		if inner == nil {
			var a any
			return &a
		}
		p := reflect.New(reflect.TypeOf(inner))
		p.Elem().Set(reflect.ValueOf(inner))
		return p.Interface()
	case "complex":
		return complex(parseF(v.S), 1)
	case "chan":
		return make(chan int)
	case "func":
		return func() {}
	case "struct":
		return struct{ X int }{X: 1}
	case "array":
		a := reflect.New(reflect.ArrayOf(len(v.L), reflect.TypeOf((*any)(nil)).Elem())).Elem()
		for i, e := range v.L {
			if g := e.Go(); g != nil {
				a.Index(i).Set(reflect.ValueOf(g))
			}
		}
		return a.Interface()
	case "[]any":
		out := make([]any, len(v.L))
		for i, e := range v.L {
			out[i] = e.Go()
		}
		return out
	case "nil[]any":
		return []any(nil)
	case "nilmap[string]any":
		return map[string]any(nil)
	case "[]int64":
		out := make([]int64, len(v.L))
		for i, e := range v.L {
			out[i] = parseI(e.S)
		}
		return out
	case "[]int":
		out := make([]int, len(v.L))
		for i, e := range v.L {
			out[i] = int(parseI(e.S))
		}
		return out
	case "[]uint8":
		out := make([]uint8, len(v.L))
		for i, e := range v.L {
			out[i] = uint8(parseU(e.S))
		}
		return out
	case "[]float64":
		out := make([]float64, len(v.L))
		for i, e := range v.L {
			out[i] = parseF(e.S)
		}
		return out
	case "[]bool":
		out := make([]bool, len(v.L))
		for i, e := range v.L {
			out[i] = e.S == "true"
		}
		return out
	case "[]string":
		out := make([]string, len(v.L))
		for i, e := range v.L {
			out[i] = e.S
		}
		return out
	case "[]map[string]any":
		out := make([]map[string]any, len(v.L))
		for i, e := range v.L {
			out[i], _ = e.Go().(map[string]any)
		}
		return out
	case "map[string]any":
		out := make(map[string]any, len(v.M))
		for _, e := range v.M {
			out[e.K.S] = e.V.Go()
		}
		return out
	case "map[mystr]any":
		out := make(map[MyStr]any, len(v.M))
		for _, e := range v.M {
			out[MyStr(e.K.S)] = e.V.Go()
		}
		return out
	case "map[any]any":
		out := make(map[any]any, len(v.M))
		for _, e := range v.M {
			out[e.K.Go()] = e.V.Go()
		}
		return out
	case "map[int64]any":
		out := make(map[int64]any, len(v.M))
		for _, e := range v.M {
			out[parseI(e.K.S)] = e.V.Go()
		}
		return out
	case "map[int]any":
		out := make(map[int]any, len(v.M))
		for _, e := range v.M {
			out[int(parseI(e.K.S))] = e.V.Go()
		}
		return out
	case "map[string]string":
		out := make(map[string]string, len(v.M))
		for _, e := range v.M {
			out[e.K.S] = e.V.S
		}
		return out
	case "map[string]int64":
		out := make(map[string]int64, len(v.M))
		for _, e := range v.M {
			out[e.K.S] = parseI(e.V.S)
		}
		return out
	case "map[int64]string":
		out := make(map[int64]string, len(v.M))
		for _, e := range v.M {
			out[parseI(e.K.S)] = e.V.S
		}
		return out
	}
	panic("val: unknown type tag " + v.T)
}

// Describe turns a decoder-domain / native Go value back into a description (best effort, for samples and for
// converting SDK outputs into replayable form). Unknown types become T="?" with %#v text.
func Describe(x any) V {
	switch t := x.(type) {
	case nil:
		return Nil()
	case bool:
		return Bool(t)
	case int:
		return Int("int", int64(t))
	case int8:
		return Int("int8", int64(t))
	case int16:
		return Int("int16", int64(t))
	case int32:
		return Int("int32", int64(t))
	case int64:
		return Int("int64", t)
	case uint:
		return Uint("uint", uint64(t))
	case uint8:
		return Uint("uint8", uint64(t))
	case uint16:
		return Uint("uint16", uint64(t))
	case uint32:
		return Uint("uint32", uint64(t))
	case uint64:
		return Uint("uint64", t)
	case float32:
		return Float("float32", float64(t))
	case float64:
		return Float("float64", t)
	case string:
		return Str(t)
	case MyStr:
		return V{T: "mystr", S: string(t)}
	case []byte:
		return V{T: "bytes", S: string(t)}
	case *regexp.Regexp:
		if t == nil {
			return V{T: "nilregexp"}
		}
		return V{T: "regexp", S: t.String()}
	case []any:
		l := make([]V, len(t))
		for i, e := range t {
			l[i] = Describe(e)
		}
		return V{T: "[]any", L: l}
	case map[string]any:
		keys := make([]string, 0, len(t))
		for k := range t {
			keys = append(keys, k)
		}
		sort.Strings(keys)
		m := make([]KV, 0, len(t))
		for _, k := range keys {
			m = append(m, KV{Str(k), Describe(t[k])})
		}
		return V{T: "map[string]any", M: m}
	case map[any]any:
		m := make([]KV, 0, len(t))
		for k, e := range t {
			m = append(m, KV{Describe(k), Describe(e)})
		}
		sort.Slice(m, func(i, j int) bool { return m[i].K.T+m[i].K.S < m[j].K.T+m[j].K.S })
		return V{T: "map[any]any", M: m}
	}
	switch t := x.(type) {
	case time.Time:
		return V{T: "time", S: strconv.FormatInt(t.Unix(), 10)}
	case big.Int:
		return V{T: "bigint", S: t.String()}
	case *big.Int:
		if t != nil {
			return V{T: "bigint", S: t.String()}
		}
	case cbor.Tag:
		return V{T: "tag", S: strconv.FormatUint(t.Number, 10), L: []V{Describe(t.Content)}}
	case cbor.SimpleValue:
		return V{T: "simple", S: strconv.FormatUint(uint64(t), 10)}
	case cbor.ByteString:
		return V{T: "bytestring", S: string(t)}
	}
	if rv := reflect.ValueOf(x); rv.Kind() == reflect.Array && rv.Type().Elem().Kind() == reflect.Interface {
		l := make([]V, rv.Len())
		for i := range l {
			l[i] = Describe(rv.Index(i).Interface())
		}
		return V{T: "array", L: l}
	}
	return V{T: "?", S: fmt.Sprintf("%#v", x)}
}

// ---------------------------------------------------------------------------------------------------------------
// Equality

// Opts configure Equal.
type Opts struct {
	// EmptyIsAbsent applies the documented treat-empty-as-default identification: a nil pointer equals a pointer
	// to the zero value, a nil/absent slice or map equals an empty one, an absent map key equals a key holding
	// the zero value of the other side's dynamic type.
	EmptyIsAbsent bool
}

// Equal is a deep comparison: NaN equals NaN, *regexp.Regexp compare by source, nil and empty slices/maps are
// distinguished unless EmptyIsAbsent.
func Equal(a, b any, o Opts) bool {
	return eq(reflect.ValueOf(a), reflect.ValueOf(b), o, 0)
}

var regexpType = reflect.TypeOf(&regexp.Regexp{})

func isZeroish(v reflect.Value) bool {
	if !v.IsValid() {
		return true
	}
	switch v.Kind() {
	case reflect.Pointer, reflect.Interface:
		if v.IsNil() {
			return true
		}
		return isZeroish(v.Elem())
	case reflect.Slice, reflect.Map:
		return v.Len() == 0
	}
	return v.IsZero()
}

func eq(a, b reflect.Value, o Opts, depth int) bool {
	if depth > 20000 {
		return false
	}
	for a.IsValid() && a.Kind() == reflect.Interface && !a.IsNil() {
		a = a.Elem()
	}
	for b.IsValid() && b.Kind() == reflect.Interface && !b.IsNil() {
		b = b.Elem()
	}
	if !a.IsValid() || !b.IsValid() {
		if o.EmptyIsAbsent {
			return isZeroish(a) && isZeroish(b)
		}
		if a.IsValid() && (a.Kind() == reflect.Interface || a.Kind() == reflect.Pointer) && a.IsNil() && !b.IsValid() {
			return true
		}
		if b.IsValid() && (b.Kind() == reflect.Interface || b.Kind() == reflect.Pointer) && b.IsNil() && !a.IsValid() {
			return true
		}
		return a.IsValid() == b.IsValid()
	}
	if a.Type() != b.Type() {
		return false
	}
	if a.Type() == regexpType {
		if a.IsNil() || b.IsNil() {
			return a.IsNil() == b.IsNil()
		}
		return a.Interface().(*regexp.Regexp).String() == b.Interface().(*regexp.Regexp).String()
	}
	switch a.Kind() {
	case reflect.Float32, reflect.Float64:
		x, y := a.Float(), b.Float()
		if math.IsNaN(x) || math.IsNaN(y) {
			return math.IsNaN(x) && math.IsNaN(y)
		}
		return x == y
	case reflect.Pointer:
		if a.IsNil() || b.IsNil() {
			if a.IsNil() && b.IsNil() {
				return true
			}
			if o.EmptyIsAbsent {
				return isZeroish(a) && isZeroish(b)
			}
			return false
		}
		return eq(a.Elem(), b.Elem(), o, depth+1)
	case reflect.Interface:
		if a.IsNil() || b.IsNil() {
			return a.IsNil() && b.IsNil()
		}
		return eq(a.Elem(), b.Elem(), o, depth+1)
	case reflect.Slice, reflect.Array:
		if a.Kind() == reflect.Slice && a.IsNil() != b.IsNil() && !o.EmptyIsAbsent {
			if a.Len() != 0 || b.Len() != 0 {
				return false
			}
			// nil vs empty slice: the wire cannot tell them apart; treated as equal
		}
		if a.Len() != b.Len() {
			return false
		}
		for i := 0; i < a.Len(); i++ {
			if !eq(a.Index(i), b.Index(i), o, depth+1) {
				return false
			}
		}
		return true
	case reflect.Map:
		if !o.EmptyIsAbsent && a.Len() != b.Len() {
			return false
		}
		for _, k := range a.MapKeys() {
			bv := b.MapIndex(k)
			if !bv.IsValid() {
				// NaN keys never compare equal; not produced by the generators
				if o.EmptyIsAbsent && isZeroish(a.MapIndex(k)) {
					continue
				}
				return false
			}
			if !eq(a.MapIndex(k), bv, o, depth+1) {
				return false
			}
		}
		if o.EmptyIsAbsent {
			for _, k := range b.MapKeys() {
				if !a.MapIndex(k).IsValid() && !isZeroish(b.MapIndex(k)) {
					return false
				}
			}
		}
		return true
	case reflect.Struct:
		for i := 0; i < a.NumField(); i++ {
			if !a.Type().Field(i).IsExported() {
				continue
			}
			if !eq(a.Field(i), b.Field(i), o, depth+1) {
				return false
			}
		}
		return true
	case reflect.Func, reflect.Chan, reflect.UnsafePointer:
		return a.Pointer() == b.Pointer()
	}
	return a.Interface() == b.Interface()
}

// DeepCopy copies maps, slices, pointers and structs (exported fields); *regexp.Regexp, funcs and chans are shared.
func DeepCopy(x any) any {
	if x == nil {
		return nil
	}
	return dc(reflect.ValueOf(x)).Interface()
}

func dc(v reflect.Value) reflect.Value {
	switch v.Kind() {
	case reflect.Pointer:
		if v.IsNil() || v.Type() == regexpType {
			return v
		}
		n := reflect.New(v.Type().Elem())
		n.Elem().Set(dc(v.Elem()))
		return n
	case reflect.Interface:
		if v.IsNil() {
			return v
		}
		n := reflect.New(v.Type()).Elem()
		n.Set(dc(v.Elem()))
		return n
	case reflect.Slice:
		if v.IsNil() {
			return v
		}
		n := reflect.MakeSlice(v.Type(), v.Len(), v.Len())
		for i := 0; i < v.Len(); i++ {
			n.Index(i).Set(dc(v.Index(i)))
		}
		return n
	case reflect.Array:
		n := reflect.New(v.Type()).Elem()
		for i := 0; i < v.Len(); i++ {
			n.Index(i).Set(dc(v.Index(i)))
		}
		return n
	case reflect.Map:
		if v.IsNil() {
			return v
		}
		n := reflect.MakeMapWithSize(v.Type(), v.Len())
		for _, k := range v.MapKeys() {
			n.SetMapIndex(dc(k), dc(v.MapIndex(k)))
		}
		return n
	case reflect.Struct:
		n := reflect.New(v.Type()).Elem()
		n.Set(v)
		for i := 0; i < v.NumField(); i++ {
			if v.Type().Field(i).IsExported() {
				n.Field(i).Set(dc(v.Field(i)))
			}
		}
		return n
	}
	return v
}

// WireProblem returns "" if w consists only of what Serialize may emit (int64, float64, string, bool, []any,
// map[any]any, map[string]any - no nil), else a description of the first offending element.
func WireProblem(w any) string {
	switch t := w.(type) {
	case int64, float64, string, bool:
		return ""
	case []any:
		for i, e := range t {
			if p := WireProblem(e); p != "" {
				return fmt.Sprintf("[%d]: %s", i, p)
			}
		}
		return ""
	case map[string]any:
		for k, e := range t {
			if p := WireProblem(e); p != "" {
				return fmt.Sprintf("%q: %s", k, p)
			}
		}
		return ""
	case map[any]any:
		for k, e := range t {
			switch k.(type) {
			case int64, string, bool, float64:
			default:
				return fmt.Sprintf("map key %#v of type %T", k, k)
			}
			if p := WireProblem(e); p != "" {
				return fmt.Sprintf("%v: %s", k, p)
			}
		}
		return ""
	}
	return fmt.Sprintf("%T is not a wire type", w)
}
