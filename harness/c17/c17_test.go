package c17

import (
	"encoding/json"
	"errors"
	"fmt"
	"regexp"
	"strings"
	"testing"

	"go.flow.arcalot.io/pluginsdk/schema"
	"pgregory.net/rapid"
	"verif/harness/ev"
	"verif/harness/gen"
	"verif/harness/model"
	"verif/harness/oracle"
	"verif/harness/spec"
	"verif/harness/val"
)

func TestMain(m *testing.M) {
	ev.Note("rule", "C17: rapid-generated nested schemas (objects in lists in maps in one-of ..., depth<=4, map-based and struct-mapped) with a valid input rendered canonically; then every applicable single corruption of that input is enumerated, one at a time: a leaf replaced by each of several wrong Go types, a number one step below min / above max, a string breaking its length bound or pattern, a non-member enum value, a bad map key, a list or map one element too short / too long, an undeclared key, a missing required property, a violated conflicts / required_if / required_if_not rule. The harness knows the path it corrupted and uses the reference interpreter to confirm that the corrupted input is rejected and the uncorrupted one accepted. Oracle: Unserialize (and Validate on the native form where the corruption is expressible natively) fails with an error for which errors.As(*ConstraintError) holds and whose Path, after stripping the SDK's segment decoration ([i], [k], {k}, {oneof[..]}), equals the corrupted path (for an undeclared key: the path of the object, with the key either in the path or in the message). Non-trivial: the corrupted element is at depth >= 2; distinct by (schema, path, corruption).")
	ev.RegisterReplay("path", func(t *testing.T, raw json.RawMessage) {
		var c Case
		if err := json.Unmarshal(raw, &c); err != nil {
			t.Fatal(err)
		}
		if msg := run(c); msg != "" {
			t.Fatal(msg)
		}
	})
	ev.Main(m, "C17")
}

func TestReplay(t *testing.T) { ev.RunReplay(t) }

// Case: the corrupted raw input, the operation and the acceptable paths.
type Case struct {
	Spec   *spec.Spec `json:"spec"`
	Raw    val.V      `json:"raw"`
	Op     string     `json:"op"` // unserialize | validate
	Paths  [][]string `json:"paths"`
	Kind   string     `json:"kind"`
	KeyMsg string     `json:"key_in_message,omitempty"` // undeclared key: must appear in the path or the message
}

type step struct {
	kind string // list, mapval, mapkey, prop
	idx  int
}

func modifyAt(root val.V, steps []step, f func(val.V) val.V) val.V {
	if len(steps) == 0 {
		return f(root)
	}
	c := root
	s := steps[0]
	switch s.kind {
	case "list":
		c.L = append([]val.V(nil), root.L...)
		c.L[s.idx] = modifyAt(root.L[s.idx], steps[1:], f)
	case "mapval", "prop":
		c.M = append([]val.KV(nil), root.M...)
		c.M[s.idx].V = modifyAt(root.M[s.idx].V, steps[1:], f)
	case "mapkey":
		c.M = append([]val.KV(nil), root.M...)
		c.M[s.idx].K = modifyAt(root.M[s.idx].K, steps[1:], f)
	}
	return c
}

type corruption struct {
	steps  []step
	paths  [][]string
	kind   string
	f      func(val.V) val.V
	native bool // expressible on a native value (type-correct)
	keyMsg string
}

func cp(p []string, more ...string) []string {
	return append(append([]string(nil), p...), more...)
}

func cs(s []step, more ...step) []step {
	return append(append([]step(nil), s...), more...)
}

func wrongTypes(k string) []val.V {
	switch k {
	case spec.KInt, spec.KEnumI:
		return []val.V{val.Str("abc"), val.Nil(), {T: "[]any"}, {T: "map[string]any"}, val.Float("float64", 0.5), {T: "bytes", S: "1"}}
	case spec.KFloat:
		return []val.V{val.Str("abc"), val.Nil(), {T: "[]any"}, {T: "map[string]any"}}
	case spec.KString, spec.KEnumS, spec.KTypedEnumS, spec.KPattern:
		return []val.V{val.Nil(), {T: "[]any"}, {T: "map[string]any"}, val.Bool(true)}
	case spec.KBool:
		return []val.V{val.Str("maybe"), val.Nil(), {T: "[]any"}, val.Int("int64", 2), val.Float("float64", 1)}
	case spec.KList:
		return []val.V{val.Str("abc"), val.Nil(), {T: "map[string]any"}, val.Int("int64", 1)}
	case spec.KMap:
		return []val.V{val.Str("abc"), val.Nil(), {T: "[]any"}, val.Int("int64", 1)}
	case spec.KAny:
		return []val.V{val.Nil(), {T: "time", S: "1700000000"}}
	}
	return nil
}

// collect enumerates the single corruptions of raw value v (canonical rendering of a valid value of s).
func collect(s *spec.Spec, env *model.Env, v val.V, path []string, steps []step, out *[]corruption) {
	add := func(kind string, native bool, f func(val.V) val.V) {
		*out = append(*out, corruption{steps: steps, paths: [][]string{cp(path)}, kind: kind, f: f, native: native})
	}
	for _, w := range wrongTypes(s.Kind) {
		w := w
		add("wrong_type:"+s.Kind+"<-"+w.T, false, func(val.V) val.V { return w })
	}
	if (s.Kind == spec.KInt || s.Kind == spec.KFloat || s.Kind == spec.KEnumI) && s.Units != nil {
		// unit notation that the grammar matches but the number behind it cannot be taken: a fraction for an integer,
		// a count beyond 64 bits - and strings that are no unit sentence at all
		base := s.Units.Base[0]
		for _, str := range []string{"1.5" + base, "99999999999999999999999" + base, "1.5", "-", "5" + base + "x", "+5" + base} {
			str := str
			add("refused_unit_string", false, func(val.V) val.V { return val.Str(str) })
		}
	}
	switch s.Kind {
	case spec.KInt:
		if s.Min != nil && *s.Min > -(1<<62) {
			x := *s.Min - 1
			add("below_min", true, func(val.V) val.V { return val.Int("int64", x) })
		}
		if s.Max != nil && *s.Max < 1<<62 {
			x := *s.Max + 1
			add("above_max", true, func(val.V) val.V { return val.Int("int64", x) })
		}
	case spec.KFloat:
		if s.FMin != nil && *s.FMin > -1e300 {
			x := *s.FMin - 1 - 1e-9*abs(*s.FMin)
			add("below_min", true, func(val.V) val.V { return val.Float("float64", x) })
		}
		if s.FMax != nil && *s.FMax < 1e300 {
			x := *s.FMax + 1 + 1e-9*abs(*s.FMax)
			add("above_max", true, func(val.V) val.V { return val.Float("float64", x) })
		}
	case spec.KString:
		if s.Min != nil && *s.Min > 0 && s.Pattern == nil {
			n := int(*s.Min) - 1
			add("too_short", true, func(val.V) val.V { return val.Str(strings.Repeat("a", n)) })
		}
		if s.Max != nil && *s.Max < 40 && s.Pattern == nil {
			n := int(*s.Max) + 1
			add("too_long", true, func(val.V) val.V { return val.Str(strings.Repeat("a", n)) })
		}
		if s.Pattern != nil {
			add("pattern_miss", true, func(o val.V) val.V { return val.Str(o.S + "\n#") })
		}
	case spec.KEnumS, spec.KTypedEnumS:
		add("not_in_enum", true, func(o val.V) val.V { return val.Str(o.S + "_nope") })
	case spec.KEnumI:
		add("not_in_enum", true, func(val.V) val.V { return val.Int("int64", 424242) })
	case spec.KPattern:
		add("invalid_pattern", false, func(val.V) val.V { return val.Str("a(") })
	case spec.KList:
		if s.Min != nil && *s.Min > 0 && int64(len(v.L)) >= *s.Min {
			n := int(*s.Min) - 1
			add("list_too_short", true, func(o val.V) val.V { c := o; c.L = append([]val.V(nil), o.L[:n]...); return c })
		}
		if s.Max != nil && len(v.L) > 0 && *s.Max < 16 {
			n := int(*s.Max) + 1
			add("list_too_long", true, func(o val.V) val.V {
				c := o
				c.L = append([]val.V(nil), o.L...)
				for len(c.L) < n {
					c.L = append(c.L, o.L[0])
				}
				return c
			})
		}
		for i := range v.L {
			collect(s.Items, env, v.L[i], cp(path, fmt.Sprint(i)), cs(steps, step{"list", i}), out)
		}
	case spec.KMap:
		if s.Min != nil && *s.Min > 0 && int64(len(v.M)) >= *s.Min {
			n := int(*s.Min) - 1
			add("map_too_small", true, func(o val.V) val.V { c := o; c.M = append([]val.KV(nil), o.M[:n]...); return c })
		}
		for i := range v.M {
			keyStr := fmt.Sprint(v.M[i].K.Go())
			collect(s.Values, env, v.M[i].V, cp(path, keyStr), cs(steps, step{"mapval", i}), out)
			// a key of a type the key schema cannot take: the element is the key itself, named as written
			{
				var bad val.V
				switch s.Keys.Kind {
				case spec.KInt, spec.KEnumI:
					bad = val.Str("seven")
				default:
					bad = val.V{T: "[]any"}
				}
				if bad.T == "string" {
					*out = append(*out, corruption{steps: cs(steps, step{"mapkey", i}), paths: [][]string{cp(path, fmt.Sprint(bad.Go()))}, kind: "map_key_of_wrong_type", f: func(val.V) val.V { return bad }})
				}
			}
			// a bad key: the element is the key itself
			switch s.Keys.Kind {
			case spec.KEnumS, spec.KEnumI:
				bad := val.Str("zz_not_a_member")
				if s.Keys.Kind == spec.KEnumI {
					bad = val.Int("int64", 424242)
				}
				*out = append(*out, corruption{steps: cs(steps, step{"mapkey", i}), paths: [][]string{cp(path, fmt.Sprint(bad.Go()))}, kind: "bad_map_key", f: func(val.V) val.V { return bad }, native: true})
			case spec.KInt:
				if s.Keys.Min != nil || s.Keys.Max != nil {
					var bad int64
					if s.Keys.Min != nil && *s.Keys.Min > -(1<<62) {
						bad = *s.Keys.Min - 1
					} else if s.Keys.Max != nil && *s.Keys.Max < 1<<62 {
						bad = *s.Keys.Max + 1
					} else {
						break
					}
					bv := val.Int("int64", bad)
					*out = append(*out, corruption{steps: cs(steps, step{"mapkey", i}), paths: [][]string{cp(path, fmt.Sprint(bad))}, kind: "bad_map_key", f: func(val.V) val.V { return bv }, native: true})
				}
			}
		}
	case spec.KObject, spec.KRef, spec.KScope:
		o, oenv := model.Resolve(s, env)
		if o != nil {
			collectObject(o, oenv, v, path, steps, out, "")
		}
	case spec.KOneOfI, spec.KOneOfS:
		var member *spec.Spec
		for _, e := range v.M {
			if e.K.S == s.Discriminator {
				for j := range s.Members {
					if (s.Kind == spec.KOneOfS && e.V.S == s.Members[j].KeyS) || (s.Kind == spec.KOneOfI && e.V.S == fmt.Sprint(s.Members[j].KeyI)) {
						member = s.Members[j].Type
					}
				}
			}
		}
		if member != nil {
			o, oenv := model.Resolve(member, env)
			if o != nil {
				// the discriminator is dispatch data, not one of the statement's three fault classes: not corrupted
				collectObject(o, oenv, v, path, steps, out, s.Discriminator)
			}
		}
	}
}

func abs(f float64) float64 {
	if f < 0 {
		return -f
	}
	return f
}

// curT lets collectObject draw values for added properties.
var curT *rapid.T

func collectObject(o *spec.Spec, env *model.Env, v val.V, path []string, steps []step, out *[]corruption, skipKey string) {
	if len(v.T) < 3 || v.T[:3] != "map" {
		return
	}
	present := map[string]int{}
	for i, e := range v.M {
		present[e.K.S] = i
	}
	// undeclared key
	*out = append(*out, corruption{steps: steps, paths: [][]string{cp(path), cp(path, "zz_undeclared")}, kind: "undeclared_key", native: o.Struct == "", keyMsg: "zz_undeclared",
		f: func(ov val.V) val.V {
			c := ov
			c.M = append(append([]val.KV(nil), ov.M...), val.KV{K: val.Str("zz_undeclared"), V: val.Int("int64", 1)})
			return c
		}})
	// supplying a property that another (or its own) conflicts rule forbids
	for i := range o.Props {
		q := &o.Props[i]
		if _, has := present[q.Name]; has || q.Disabled || q.Name == skipKey || curT == nil {
			continue
		}
		if _, d := model.DefaultRaw(q); d {
			continue
		}
		afterAdd := func(n string) bool {
			if n == q.Name {
				return true
			}
			if _, ok := present[n]; ok {
				return true
			}
			if r := o.PropByName(n); r != nil {
				_, d := model.DefaultRaw(r)
				return d
			}
			return false
		}
		violated := model.ViolatedRules(o, afterAdd)
		if len(violated) == 0 {
			continue
		}
		qv, ok := gen.ValueFor(curT, q.Type, env, 2)
		if !ok {
			continue
		}
		qraw := gen.RenderCanonical(curT, q.Type, env, qv)
		// single fault only: the added value must itself be acceptable (a declared default deep inside its type can be
		// invalid - e.g. it became so when a property of a referenced object received a default of its own - and then
		// the added member carries a second fault)
		if _, verdict := model.Denote(q.Type, env, qraw.Go()); verdict != model.Accept {
			continue
		}
		var paths [][]string
		for _, vn := range violated {
			paths = append(paths, cp(path, vn))
		}
		name := q.Name
		*out = append(*out, corruption{steps: steps, paths: paths, kind: "conflict_added", native: o.Struct == "",
			f: func(ov val.V) val.V {
				c := ov
				c.M = append(append([]val.KV(nil), ov.M...), val.KV{K: val.Str(name), V: qraw})
				return c
			}})
	}
	for i := range o.Props {
		p := &o.Props[i]
		idx, has := present[p.Name]
		if has && p.Name != skipKey {
			collect(p.Type, env, v.M[idx].V, cp(path, p.Name), cs(steps, step{"prop", idx}), out)
		}
		_, hasDefault := model.DefaultRaw(p)
		// missing required: only where dropping the property violates exactly that property's rule
		materialised := false
		if o.Struct != "" && (p.Type.Kind == spec.KObject || p.Type.Kind == spec.KRef) {
			// an absent by-value member of a struct-mapped object is re-created from its properties' defaults:
			// dropping it is then not a single "missing" fault
			if sub, senv := model.Resolve(p.Type, env); sub != nil && !strings.HasPrefix(sub.Struct, "*") && model.SubDefaults(sub, senv, 0) != nil {
				materialised = true
			}
		}
		// single fault only: with the property dropped, its own rule must be the only violated one
		afterDrop := func(n string) bool {
			if n == p.Name {
				return false
			}
			if _, ok := present[n]; ok {
				return true
			}
			if q := o.PropByName(n); q != nil {
				_, d := model.DefaultRaw(q)
				return d
			}
			return false
		}
		violated := model.ViolatedRules(o, afterDrop)
		if has && !hasDefault && !materialised && p.Name != skipKey && len(violated) == 1 && violated[0] == p.Name {
			name := p.Name
			kind := "missing_required"
			if !p.Required {
				kind = "missing_required_if"
			}
			*out = append(*out, corruption{steps: steps, paths: [][]string{cp(path, name)}, kind: kind, native: o.Struct == "",
				f: func(ov val.V) val.V {
					c := ov
					c.M = nil
					for _, e := range ov.M {
						if e.K.S != name {
							c.M = append(c.M, e)
						}
					}
					return c
				}})
		}
	}
}

func normalise(path []string) []string {
	var out []string
	oneofRe := regexp.MustCompile(`^\{oneof\[.*\]\}$`)
	for _, seg := range path {
		if oneofRe.MatchString(seg) {
			continue
		}
		if len(seg) >= 2 && ((seg[0] == '[' && seg[len(seg)-1] == ']') || (seg[0] == '{' && seg[len(seg)-1] == '}')) {
			seg = seg[1 : len(seg)-1]
		}
		out = append(out, seg)
	}
	return out
}

func samePath(a, b []string) bool {
	if len(a) != len(b) {
		return false
	}
	for i := range a {
		if a[i] != b[i] {
			return false
		}
	}
	return true
}

func run(c Case) string {
	sch, err := spec.Build(c.Spec)
	if err != nil {
		return ""
	}
	// The same rejection is provoked three times on the one schema instance: the error a workflow author reads must
	// not depend on what the schema rejected before (an error value kept and extended across calls would show here).
	for rep := 1; rep <= 3; rep++ {
		var operr error
		var desc string
		switch c.Op {
		case "unserialize":
			if p := oracle.Safely(func() { _, operr = sch.Unserialize(c.Raw.Go()) }); p != nil {
				return "" // totality is C04's concern
			}
			desc = fmt.Sprintf("Unserialize(%s)", c.Raw)
		case "validate":
			mv, v := model.Convert(c.Spec, nil, c.Raw.Go())
			if v != model.Accept {
				return ""
			}
			native := model.ToNative(c.Spec, nil, mv)
			if p := oracle.Safely(func() { operr = sch.Validate(native) }); p != nil {
				return ""
			}
			desc = fmt.Sprintf("Validate(%#v)", native)
		}
		if rep > 1 {
			desc = fmt.Sprintf("%s (repetition %d on the same schema instance)", desc, rep)
		}
		if msg := judgeErr(c, operr, desc); msg != "" {
			return msg
		}
	}
	return ""
}

func judgeErr(c Case, operr error, desc string) string {
	if operr == nil {
		return "" // acceptance questions are C02/C03's concern; only rejections are judged here
	}
	var ce *schema.ConstraintError
	if !errors.As(operr, &ce) {
		if len(c.Paths[0]) == 0 {
			return "" // the offending element is the root itself: any error identifies it
		}
		return fmt.Sprintf("%s was rejected because of the single fault %q at path %v, but the error is not a constraint error and carries no path: %T %v", desc, c.Kind, c.Paths[0], operr, operr)
	}
	got := normalise(ce.Path)
	for _, want := range c.Paths {
		if samePath(got, want) {
			if c.KeyMsg != "" && len(got) == len(c.Paths[0]) && !strings.Contains(operr.Error(), c.KeyMsg) {
				return fmt.Sprintf("%s: the error for the undeclared key %q names neither the key in its path %v nor in its message: %v", desc, c.KeyMsg, ce.Path, operr)
			}
			return ""
		}
	}
	return fmt.Sprintf("%s was rejected because of the single fault %q at path %v, but the error's path is %v (%v)", desc, c.Kind, c.Paths[0], ce.Path, operr)
}

// rewriteKeys renders the integer keys of maps in another accepted notation: a unit sentence where the key type has
// units, the decimal text otherwise. The container becomes a map[any]any / map[string]any as needed by the key.
func rewriteKeys(t *rapid.T, s *spec.Spec, env *model.Env, v val.V) val.V {
	if s == nil {
		return v
	}
	switch s.Kind {
	case spec.KList:
		c := v
		c.L = append([]val.V(nil), v.L...)
		for i := range c.L {
			c.L[i] = rewriteKeys(t, s.Items, env, c.L[i])
		}
		return c
	case spec.KMap:
		c := v
		c.M = append([]val.KV(nil), v.M...)
		rewritten := false
		for i := range c.M {
			c.M[i].V = rewriteKeys(t, s.Values, env, c.M[i].V)
			if s.Keys.Kind == spec.KInt && c.M[i].K.T == "int64" {
				x, _ := c.M[i].K.Go().(int64)
				if s.Keys.Units != nil {
					if str, ok := gen.UnitString(t, s.Keys.Units, x); ok {
						c.M[i].K = val.Str(str)
						rewritten = true
						ev.Class("map_key_as_unit_sentence", 1)
						continue
					}
				}
				c.M[i].K = val.Str(fmt.Sprint(x))
				rewritten = true
				ev.Class("map_key_as_text", 1)
			}
		}
		if rewritten {
			c.T = "map[any]any"
		}
		return c
	case spec.KObject, spec.KRef, spec.KScope:
		o, oenv := model.Resolve(s, env)
		if o == nil {
			return v
		}
		c := v
		c.M = append([]val.KV(nil), v.M...)
		for i := range c.M {
			if p := o.PropByName(c.M[i].K.S); p != nil {
				c.M[i].V = rewriteKeys(t, p.Type, oenv, c.M[i].V)
			}
		}
		return c
	}
	return v
}

func c17Opts(depth int) gen.Opts {
	o := gen.Full(depth)
	o.Disabled = false
	return o
}

func TestErrorPaths(t *testing.T) {
	depth := ev.N(3, 4)
	ev.Check(t, "paths", 1500, 20000, func(rt *rapid.T) {
		o := c17Opts(depth)
		s := gen.Spec(o).Draw(rt, "spec")
		gen.AddDefaults(rt, s, o)
		mv, ok := gen.ValueFor(rt, s, nil, 4)
		if !ok {
			rt.Skip("no valid value")
		}
		raw := gen.RenderCanonical(rt, s, nil, mv)
		if rapid.Bool().Draw(rt, "keysAsWritten") {
			// map keys in another notation than the canonical one (a unit sentence, a number as text): the path names
			// the key as the author wrote it
			raw = rewriteKeys(rt, s, nil, raw)
		}
		sch, err := spec.Build(s)
		if err != nil {
			rt.Skip("build")
		}
		// premise: the uncorrupted input is accepted by both the model and the SDK
		if _, v := model.Denote(s, nil, raw.Go()); v != model.Accept {
			rt.Skip("model does not accept the base input")
		}
		var baseErr error
		if p := oracle.Safely(func() { _, baseErr = sch.Unserialize(raw.Go()) }); p != nil || baseErr != nil {
			rt.Skip("SDK does not accept the base input")
		}
		var cors []corruption
		curT = rt
		collect(s, nil, raw, nil, nil, &cors)
		curT = nil
		ev.Class("corruptions_per_input", int64(len(cors)))
		for _, cor := range cors {
			craw := modifyAt(raw, cor.steps, cor.f)
			// the corruption must be the only fault: the model must reject the corrupted input
			if _, v := model.Denote(s, nil, craw.Go()); v != model.Reject {
				ev.Class("corruption_not_rejected_by_model:"+strings.SplitN(cor.kind, ":", 2)[0], 1)
				continue
			}
			ops := []string{"unserialize"}
			if cor.native {
				ops = append(ops, "validate")
			}
			for _, op := range ops {
				c := Case{Spec: s, Raw: craw, Op: op, Paths: cor.paths, Kind: cor.kind, KeyMsg: cor.keyMsg}
				depthOfFault := len(cor.paths[0])
				ev.Case(ev.FP(oracle.SpecJSON(s), craw.String(), op, cor.kind), depthOfFault >= 2, "corruption:"+strings.SplitN(cor.kind, ":", 2)[0], "op:"+op, fmt.Sprintf("fault_depth=%d", depthOfFault))
				if depthOfFault >= 2 && ev.WantSample(strings.SplitN(cor.kind, ":", 2)[0]) {
					ev.Sample(strings.SplitN(cor.kind, ":", 2)[0], c)
				}
				if msg := run(c); msg != "" {
					ev.Fail(rt, "path", c, "%s\nschema: %s", msg, oracle.SpecJSON(s))
				}
			}
		}
	})
}
