// Package spec describes schemas as data (Spec, JSON-serialisable) and builds them through the SDK's public
// constructors only. It also holds the struct catalogue that generic constructors need.
package spec

import (
	"encoding/json"
	"fmt"
	"strconv"
	"reflect"
	"regexp"
	"sort"

	"go.flow.arcalot.io/pluginsdk/schema"
	"verif/harness/units"
	"verif/harness/val"
)

// Kinds
const (
	KInt         = "integer"
	KFloat       = "float"
	KString      = "string"
	KBool        = "bool"
	KPattern     = "pattern"
	KEnumS       = "enum_string"
	KEnumI       = "enum_integer"
	KTypedEnumS  = "typed_enum_string" // TypedStringEnumSchema[val.MyStr]
	KList        = "list"
	KMap         = "map"
	KAny         = "any"
	KObject      = "object"
	KRef         = "ref"
	KScope       = "scope"
	KOneOfS      = "one_of_string"
	KOneOfI      = "one_of_int"
)

// DisplaySpec mirrors schema.DisplayValue.
type DisplaySpec struct {
	Name *string `json:"name,omitempty"`
	Desc *string `json:"desc,omitempty"`
	Icon *string `json:"icon,omitempty"`
}

func (d *DisplaySpec) build() *schema.DisplayValue {
	if d == nil {
		return nil
	}
	return schema.NewDisplayValue(d.Name, d.Desc, d.Icon)
}

func (d *DisplaySpec) buildDisplay() schema.Display {
	if d == nil {
		return nil
	}
	return schema.NewDisplayValue(d.Name, d.Desc, d.Icon)
}

// EnumVal is one enum member.
type EnumVal struct {
	S       string       `json:"s,omitempty"`
	I       int64        `json:"i,omitempty"`
	Display *DisplaySpec `json:"display,omitempty"`
}

// Prop is one property of an object.
type Prop struct {
	Name           string       `json:"name"`
	Type           *Spec        `json:"type"`
	Required       bool         `json:"required,omitempty"`
	RequiredIf     []string     `json:"required_if,omitempty"`
	RequiredIfNot  []string     `json:"required_if_not,omitempty"`
	Conflicts      []string     `json:"conflicts,omitempty"`
	Default        *string      `json:"default,omitempty"`
	Disabled       bool         `json:"disabled,omitempty"`
	DisabledReason string       `json:"disabled_reason,omitempty"`
	EmptyIsDefault bool         `json:"empty_is_default,omitempty"`
	Display        *DisplaySpec `json:"display,omitempty"`
	Examples       []string     `json:"examples,omitempty"`
}

// Member is one one-of alternative.
type Member struct {
	KeyS string `json:"key_s,omitempty"`
	KeyI int64  `json:"key_i,omitempty"`
	Type *Spec  `json:"type"` // object, ref or scope
}

// Spec is one schema node.
type Spec struct {
	Kind string `json:"kind"`
	// bounds: integer min/max, string length, list/map size
	Min *int64 `json:"min,omitempty"`
	Max *int64 `json:"max,omitempty"`
	// float bounds
	FMin *float64 `json:"fmin,omitempty"`
	FMax *float64 `json:"fmax,omitempty"`
	// integer/float/enum_integer
	Units *units.Def `json:"units,omitempty"`
	// string
	Pattern *string `json:"pattern,omitempty"`
	// enums
	Enum []EnumVal `json:"enum,omitempty"`
	// list / map
	Items  *Spec `json:"items,omitempty"`
	Keys   *Spec `json:"keys,omitempty"`
	Values *Spec `json:"values,omitempty"`
	// object
	ID           string `json:"id,omitempty"`
	IDUnenforced bool   `json:"id_unenforced,omitempty"`
	Props        []Prop `json:"props,omitempty"`
	Struct       string `json:"struct,omitempty"` // catalogue type name ("" = map-based); "*Leaf" = pointer form
	// ref
	RefID     string       `json:"ref_id,omitempty"`
	Namespace string       `json:"namespace,omitempty"`
	Display   *DisplaySpec `json:"display,omitempty"`
	// scope
	Root    string  `json:"root,omitempty"`
	Objects []*Spec `json:"objects,omitempty"`
	// Typed: a list / map of scalars built with the typed constructor (NewTypedListSchema[T], NewTypedMapSchema[K, V])
	Typed bool `json:"typed,omitempty"`
	// one-of
	Discriminator string   `json:"discriminator,omitempty"`
	Inlined       bool     `json:"inlined,omitempty"`
	Members       []Member `json:"members,omitempty"`
}

// ---------------------------------------------------------------------------------------------------------------
// Struct catalogue

type Leaf struct {
	I     int64            `json:"i"`
	PI    *int64           `json:"pi"`
	F     float64          `json:"f"`
	PF    *float64         `json:"pf"`
	S     string           `json:"s"`
	PS    *string          `json:"ps"`
	B     bool             `json:"b"`
	PB    *bool            `json:"pb"`
	MS    val.MyStr        `json:"ms"`
	PMS   *val.MyStr       `json:"pms"`
	RE    *regexp.Regexp   `json:"re"`
	LI    []int64          `json:"li"`
	LS    []string         `json:"ls"`
	MSI   map[string]int64 `json:"msi"`
	MIS   map[int64]string `json:"mis"`
	A     any              `json:"a"`
	MO    map[string]any   `json:"mo"`
	Plain int64            // no tag: property "Plain"
	K     string           `json:"k"`  // discriminator slot for inlined one-of (string)
	KI    int64            `json:"ki"` // discriminator slot for inlined one-of (int)
}

type Mid struct {
	X   int64           `json:"x"`
	PX  *string         `json:"px"`
	L   Leaf            `json:"l"`
	PL  *Leaf           `json:"plf"`
	LL  []Leaf          `json:"ll"`
	ML  map[string]Leaf `json:"ml"`
	O   any             `json:"o"`
	LO  []any           `json:"lo"`
	K   string          `json:"k"`
	KI  int64           `json:"ki"`
}

type Top struct {
	T  string `json:"t"`
	M  Mid    `json:"m"`
	PM *Mid   `json:"pm"`
	L  Leaf   `json:"l"`
	PL *Leaf  `json:"pl"`
	O  any    `json:"o"`
	N  *Node  `json:"n"`
	K  string `json:"k"`
	KI int64  `json:"ki"`
}

type Node struct {
	V    int64  `json:"v"`
	Next *Node  `json:"next"`
	Kids []Node `json:"kids"`
	K    string `json:"k"`
	KI   int64  `json:"ki"`
}

// PairA and PairB refer to each other: object graphs with a cycle of length two (and, through the containers, longer
// ones) are built from them.
type PairA struct {
	V  int64   `json:"v"`
	B  *PairB  `json:"b"`
	LB []PairB `json:"lb"`
	K  string  `json:"k"`
	KI int64   `json:"ki"`
}

type PairB struct {
	S  string           `json:"s"`
	A  *PairA           `json:"a"`
	N  *Node            `json:"n"`
	MA map[string]PairA `json:"ma"`
	K  string           `json:"k"`
	KI int64            `json:"ki"`
}

type AltA struct {
	A  int64  `json:"a"`
	PA *int64 `json:"pa"`
	K  string `json:"k"`
	KI int64  `json:"ki"`
}

type AltB struct {
	B  string  `json:"b"`
	PB *string `json:"pb"`
	K  string  `json:"k"`
	KI int64   `json:"ki"`
}

type structEntry struct {
	typ     reflect.Type
	build   func(id string, props map[string]*schema.PropertySchema) *schema.ObjectSchema
	buildP  func(id string, props map[string]*schema.PropertySchema) *schema.ObjectSchema
}

var catalogue = map[string]structEntry{
	"Leaf": {reflect.TypeOf(Leaf{}), schema.NewStructMappedObjectSchema[Leaf], schema.NewStructMappedObjectSchema[*Leaf]},
	"Mid":  {reflect.TypeOf(Mid{}), schema.NewStructMappedObjectSchema[Mid], schema.NewStructMappedObjectSchema[*Mid]},
	"Top":  {reflect.TypeOf(Top{}), schema.NewStructMappedObjectSchema[Top], schema.NewStructMappedObjectSchema[*Top]},
	"Node": {reflect.TypeOf(Node{}), schema.NewStructMappedObjectSchema[Node], schema.NewStructMappedObjectSchema[*Node]},
	"PairA": {reflect.TypeOf(PairA{}), schema.NewStructMappedObjectSchema[PairA], schema.NewStructMappedObjectSchema[*PairA]},
	"PairB": {reflect.TypeOf(PairB{}), schema.NewStructMappedObjectSchema[PairB], schema.NewStructMappedObjectSchema[*PairB]},
	"AltA": {reflect.TypeOf(AltA{}), schema.NewStructMappedObjectSchema[AltA], schema.NewStructMappedObjectSchema[*AltA]},
	"AltB": {reflect.TypeOf(AltB{}), schema.NewStructMappedObjectSchema[AltB], schema.NewStructMappedObjectSchema[*AltB]},
}

// StructNames lists the catalogue in fixed order.
var StructNames = []string{"Leaf", "Mid", "Top", "Node", "AltA", "AltB", "PairA", "PairB"}

// Field is one field of a catalogue struct as seen by the schema layer.
type Field struct {
	Prop string       // property name (json tag, or field name when untagged)
	Type reflect.Type // Go field type
}

// StructType returns the Go type of a catalogue struct ("Leaf" or "*Leaf").
func StructType(name string) reflect.Type {
	if len(name) > 0 && name[0] == '*' {
		return reflect.PointerTo(catalogue[name[1:]].typ)
	}
	return catalogue[name].typ
}

// Fields lists the fields of a catalogue struct in declaration order.
func Fields(name string) []Field {
	if len(name) > 0 && name[0] == '*' {
		name = name[1:]
	}
	t := catalogue[name].typ
	var fs []Field
	for i := 0; i < t.NumField(); i++ {
		f := t.Field(i)
		p := f.Tag.Get("json")
		if p == "" {
			p = f.Name
		}
		fs = append(fs, Field{Prop: p, Type: f.Type})
	}
	return fs
}

// FieldType returns the Go type of the field mapped to the property.
func FieldType(structName, prop string) (reflect.Type, bool) {
	for _, f := range Fields(structName) {
		if f.Prop == prop {
			return f.Type, true
		}
	}
	return nil, false
}

// CatalogueNameOf returns the catalogue name of a struct type (without pointer), or "".
func CatalogueNameOf(t reflect.Type) string {
	for t.Kind() == reflect.Pointer {
		t = t.Elem()
	}
	for n, e := range catalogue {
		if e.typ == t {
			return n
		}
	}
	return ""
}

// ---------------------------------------------------------------------------------------------------------------
// Build

// BuildError is returned when a Spec cannot be built (a generator bug, never a finding).
type BuildError struct{ Msg string }

func (b BuildError) Error() string { return "spec build: " + b.Msg }

// Build constructs the schema through the public constructors. Constructor panics are returned as BuildError.
func Build(s *Spec) (t schema.Type, err error) {
	defer func() {
		if e := recover(); e != nil {
			t = nil
			err = BuildError{fmt.Sprintf("constructor panicked: %v", e)}
		}
	}()
	return build(s), nil
}

// MustBuild is Build that panics with BuildError.
func MustBuild(s *Spec) schema.Type {
	t, err := Build(s)
	if err != nil {
		panic(err)
	}
	return t
}

func buildUnits(d *units.Def) *schema.UnitsDefinition {
	if d == nil {
		return nil
	}
	return d.Build()
}

func build(s *Spec) schema.Type {
	switch s.Kind {
	case KInt:
		return schema.NewIntSchema(s.Min, s.Max, buildUnits(s.Units))
	case KFloat:
		return schema.NewFloatSchema(s.FMin, s.FMax, buildUnits(s.Units))
	case KString:
		var re *regexp.Regexp
		if s.Pattern != nil {
			re = regexp.MustCompile(*s.Pattern)
		}
		return schema.NewStringSchema(s.Min, s.Max, re)
	case KBool:
		return schema.NewBoolSchema()
	case KPattern:
		return schema.NewPatternSchema()
	case KEnumS:
		m := map[string]*schema.DisplayValue{}
		for _, e := range s.Enum {
			m[e.S] = e.Display.build()
		}
		return schema.NewStringEnumSchema(m)
	case KTypedEnumS:
		m := map[val.MyStr]*schema.DisplayValue{}
		for _, e := range s.Enum {
			m[val.MyStr(e.S)] = e.Display.build()
		}
		return schema.NewTypedStringEnumSchema[val.MyStr](m)
	case KEnumI:
		m := map[int64]*schema.DisplayValue{}
		for _, e := range s.Enum {
			m[e.I] = e.Display.build()
		}
		return schema.NewIntEnumSchema(m, buildUnits(s.Units))
	case KList:
		if s.Typed {
			if t := buildTypedList(s); t != nil {
				return t
			}
		}
		return schema.NewListSchema(build(s.Items), s.Min, s.Max)
	case KMap:
		if s.Typed {
			if t := buildTypedMap(s); t != nil {
				return t
			}
		}
		return schema.NewMapSchema(build(s.Keys), build(s.Values), s.Min, s.Max)
	case KAny:
		return schema.NewAnySchema()
	case KObject:
		return buildObject(s)
	case KRef:
		return schema.NewNamespacedRefSchema(s.RefID, s.Namespace, s.Display.buildDisplay())
	case KScope:
		return buildScope(s)
	case KOneOfS:
		types := map[string]schema.Object{}
		for _, m := range s.Members {
			types[m.KeyS] = build(m.Type).(schema.Object)
		}
		return schema.NewOneOfStringSchema[any](types, s.Discriminator, s.Inlined)
	case KOneOfI:
		types := map[int64]schema.Object{}
		for _, m := range s.Members {
			types[m.KeyI] = build(m.Type).(schema.Object)
		}
		return schema.NewOneOfIntSchema[any](types, s.Discriminator, s.Inlined)
	}
	panic(BuildError{"unknown kind " + s.Kind})
}

// TypedContainer tells if a list / map spec has a typed form in the builder (scalar elements of a few kinds).
func TypedContainer(s *Spec) bool {
	scalar := func(x *Spec) bool {
		return x != nil && (x.Kind == KInt || x.Kind == KString || x.Kind == KFloat || x.Kind == KBool)
	}
	switch s.Kind {
	case KList:
		return scalar(s.Items)
	case KMap:
		return s.Keys != nil && (s.Keys.Kind == KString || s.Keys.Kind == KInt) && scalar(s.Values)
	}
	return false
}

func buildTypedList(s *Spec) schema.Type {
	switch s.Items.Kind {
	case KInt:
		return schema.NewTypedListSchema[int64](build(s.Items).(*schema.IntSchema), s.Min, s.Max)
	case KString:
		return schema.NewTypedListSchema[string](build(s.Items).(*schema.StringSchema), s.Min, s.Max)
	case KFloat:
		return schema.NewTypedListSchema[float64](build(s.Items).(*schema.FloatSchema), s.Min, s.Max)
	case KBool:
		return schema.NewTypedListSchema[bool](build(s.Items).(*schema.BoolSchema), s.Min, s.Max)
	}
	return nil
}

func typedMapFor[K comparable](keys schema.TypedType[K], s *Spec) schema.Type {
	switch s.Values.Kind {
	case KInt:
		return schema.NewTypedMapSchema[K, int64](keys, build(s.Values).(*schema.IntSchema), s.Min, s.Max)
	case KString:
		return schema.NewTypedMapSchema[K, string](keys, build(s.Values).(*schema.StringSchema), s.Min, s.Max)
	case KFloat:
		return schema.NewTypedMapSchema[K, float64](keys, build(s.Values).(*schema.FloatSchema), s.Min, s.Max)
	case KBool:
		return schema.NewTypedMapSchema[K, bool](keys, build(s.Values).(*schema.BoolSchema), s.Min, s.Max)
	}
	return nil
}

func buildTypedMap(s *Spec) schema.Type {
	switch s.Keys.Kind {
	case KString:
		return typedMapFor[string](build(s.Keys).(*schema.StringSchema), s)
	case KInt:
		return typedMapFor[int64](build(s.Keys).(*schema.IntSchema), s)
	}
	return nil
}

func buildProps(s *Spec) map[string]*schema.PropertySchema {
	props := map[string]*schema.PropertySchema{}
	for _, p := range s.Props {
		ps := schema.NewPropertySchema(build(p.Type), p.Display.buildDisplay(), p.Required, p.RequiredIf, p.RequiredIfNot, p.Conflicts, p.Default, p.Examples)
		if p.EmptyIsDefault {
			ps.TreatEmptyAsDefaultValue()
		}
		if p.Disabled {
			if p.DisabledReason == "" {
				ps.Disabled = true // disabled without a reason (what a description without disabled_reason rebuilds to)
			} else {
				ps.Disable(p.DisabledReason)
			}
		}
		props[p.Name] = ps
	}
	return props
}

func buildObject(s *Spec) *schema.ObjectSchema {
	props := buildProps(s)
	if s.Struct == "" {
		if s.IDUnenforced {
			return schema.NewUnenforcedIDObjectSchema(s.ID, props)
		}
		return schema.NewObjectSchema(s.ID, props)
	}
	name := s.Struct
	ptr := false
	if name[0] == '*' {
		ptr, name = true, name[1:]
	}
	e, ok := catalogue[name]
	if !ok {
		panic(BuildError{"unknown catalogue struct " + s.Struct})
	}
	var o *schema.ObjectSchema
	if ptr {
		o = e.buildP(s.ID, props)
	} else {
		o = e.build(s.ID, props)
	}
	o.IDUnenforcedValue = s.IDUnenforced
	return o
}

func buildScope(s *Spec) *schema.ScopeSchema {
	var root *schema.ObjectSchema
	var others []*schema.ObjectSchema
	objs := append([]*Spec(nil), s.Objects...)
	sort.SliceStable(objs, func(i, j int) bool { return objs[i].ID < objs[j].ID })
	for _, o := range objs {
		b := buildObject(o)
		if o.ID == s.Root && root == nil {
			root = b
		} else {
			others = append(others, b)
		}
	}
	if root == nil {
		panic(BuildError{"scope root " + s.Root + " not among objects"})
	}
	return schema.NewScopeSchema(root, others...)
}

// ---------------------------------------------------------------------------------------------------------------
// helpers over Spec

// Walk visits every node (pre-order), including scope objects, members and property types.
func Walk(s *Spec, f func(*Spec)) {
	if s == nil {
		return
	}
	f(s)
	Walk(s.Items, f)
	Walk(s.Keys, f)
	Walk(s.Values, f)
	for i := range s.Props {
		Walk(s.Props[i].Type, f)
	}
	for _, o := range s.Objects {
		Walk(o, f)
	}
	for i := range s.Members {
		Walk(s.Members[i].Type, f)
	}
}

// Kinds returns the set of kinds used in the tree.
func Kinds(s *Spec) map[string]bool {
	k := map[string]bool{}
	Walk(s, func(n *Spec) { k[n.Kind] = true })
	return k
}

// HasEmptyIsDefault reports whether any property is marked treat-empty-as-default.
func HasEmptyIsDefault(s *Spec) bool {
	found := false
	Walk(s, func(n *Spec) {
		for _, p := range n.Props {
			if p.EmptyIsDefault {
				found = true
			}
		}
	})
	return found
}

// PropByName finds a property.
func (s *Spec) PropByName(name string) *Prop {
	for i := range s.Props {
		if s.Props[i].Name == name {
			return &s.Props[i]
		}
	}
	return nil
}

// ObjectByID finds an object of a scope.
func (s *Spec) ObjectByID(id string) *Spec {
	for _, o := range s.Objects {
		if o.ID == id {
			return o
		}
	}
	return nil
}

// P returns a pointer to v.
func P[T any](v T) *T { return &v }

// jsonFloat writes non-finite floats as strings so that specs with infinite bounds stay serialisable.
type jsonFloat float64

func (f jsonFloat) MarshalJSON() ([]byte, error) {
	v := float64(f)
	switch {
	case v != v:
		return []byte(`"NaN"`), nil
	case v > 1.7976931348623157e308:
		return []byte(`"Inf"`), nil
	case v < -1.7976931348623157e308:
		return []byte(`"-Inf"`), nil
	}
	return json.Marshal(v)
}

func (f *jsonFloat) UnmarshalJSON(b []byte) error {
	var s string
	if json.Unmarshal(b, &s) == nil {
		v, err := strconv.ParseFloat(s, 64)
		if err != nil {
			return err
		}
		*f = jsonFloat(v)
		return nil
	}
	var v float64
	if err := json.Unmarshal(b, &v); err != nil {
		return err
	}
	*f = jsonFloat(v)
	return nil
}

type specAlias Spec

type specJSON struct {
	specAlias
	FMin *jsonFloat `json:"fmin,omitempty"`
	FMax *jsonFloat `json:"fmax,omitempty"`
}

// MarshalJSON keeps infinite float bounds representable.
func (s Spec) MarshalJSON() ([]byte, error) {
	j := specJSON{specAlias: specAlias(s)}
	j.specAlias.FMin, j.specAlias.FMax = nil, nil
	if s.FMin != nil {
		j.FMin = P(jsonFloat(*s.FMin))
	}
	if s.FMax != nil {
		j.FMax = P(jsonFloat(*s.FMax))
	}
	return json.Marshal(j)
}

// UnmarshalJSON is the inverse of MarshalJSON.
func (s *Spec) UnmarshalJSON(b []byte) error {
	var j specJSON
	if err := json.Unmarshal(b, &j); err != nil {
		return err
	}
	*s = Spec(j.specAlias)
	if j.FMin != nil {
		s.FMin = P(float64(*j.FMin))
	}
	if j.FMax != nil {
		s.FMax = P(float64(*j.FMax))
	}
	return nil
}
