package c16

import (
	"encoding/json"
	"fmt"
	"math"
	"math/big"
	"strings"
	"testing"

	"go.flow.arcalot.io/pluginsdk/schema"
	"pgregory.net/rapid"
	"verif/harness/ev"
	"verif/harness/units"
)

func TestMain(m *testing.M) {
	ev.Note("rule", "C16: (a) every integer in [0,200000] on the five built-in unit sets, short and long form, format->parse round trip (enumerated, sharded); (b) rapid-generated unit definitions (1-6 multipliers, names incl. regexp metacharacters and prefix-related names) x boundary-biased 63-bit integers and floats: format->parse round trip judged through an independent backtracking reference parser of the stated grammar; (c) grammar-generated sentences and one-edit near-misses: SDK ParseInt/ParseFloat/IntSchema/FloatSchema vs all readings enumerated by the reference parser (unique value => must match, no reading => must be rejected, value beyond int64 => must be rejected, several values => unspecified, counted). Non-trivial: the quantity decomposes into >=2 components or a component has a trailing zero, or the sentence is a near-miss; distinct by (definition, quantity or sentence).")
	ev.RegisterReplay("int_roundtrip", func(t *testing.T, raw json.RawMessage) {
		var c intCase
		mustUnmarshal(t, raw, &c)
		if msg := runIntRoundTrip(c); msg != "" {
			t.Fatal(msg)
		}
	})
	ev.RegisterReplay("float_roundtrip", func(t *testing.T, raw json.RawMessage) {
		var c floatCase
		mustUnmarshal(t, raw, &c)
		if msg := runFloatRoundTrip(c); msg != "" {
			t.Fatal(msg)
		}
	})
	ev.RegisterReplay("sentence", func(t *testing.T, raw json.RawMessage) {
		var c sentenceCase
		mustUnmarshal(t, raw, &c)
		if msg, _ := runSentence(c); msg != "" {
			t.Fatal(msg)
		}
	})
	ev.Main(m, "C16")
}

func mustUnmarshal(t *testing.T, raw json.RawMessage, v any) {
	if err := json.Unmarshal(raw, v); err != nil {
		t.Fatalf("bad replay case: %v", err)
	}
}

func TestReplay(t *testing.T) { ev.RunReplay(t) }

// ---------------------------------------------------------------------------------------------------------------
// cases

type intCase struct {
	Def  units.Def `json:"def"`
	X    int64     `json:"x"`
	Long bool      `json:"long"`
}

type floatCase struct {
	Def  units.Def `json:"def"`
	X    float64   `json:"x"`
	Long bool      `json:"long"`
}

type sentenceCase struct {
	Def      units.Def `json:"def"`
	Sentence string    `json:"sentence"`
	Edit     string    `json:"edit,omitempty"`
}

func safely(f func()) (panicked any) {
	defer func() {
		if e := recover(); e != nil {
			panicked = e
		}
	}()
	f()
	return nil
}

// judgeInt compares SDK ParseInt on s with the reference readings. Returns (message, unspecified).
func judgeInt(d units.Def, u *schema.UnitsDefinition, s string) (string, bool) {
	var got int64
	var err error
	if p := safely(func() { got, err = u.ParseInt(s) }); p != nil {
		return fmt.Sprintf("ParseInt(%q) panicked: %v", s, p), false
	}
	readings := d.ParseAll(s)
	switch {
	case len(readings) == 0:
		if err == nil {
			return fmt.Sprintf("ParseInt(%q) = %d, but the string is not a sentence of the unit grammar (must be rejected)", s, got), false
		}
		return "", false
	case len(readings) > 1:
		return "", true
	}
	r := readings[0]
	if r.Decimal {
		// a fractional sentence read as integer: rejection is right; an exact integral value is tolerated
		if err == nil && !(r.Value.IsInt() && r.Value.Num().IsInt64() && r.Value.Num().Int64() == got) {
			return fmt.Sprintf("ParseInt(%q) = %d, but the sentence denotes %s", s, got, r.Value.FloatString(6)), false
		}
		return "", false
	}
	v := r.Value.Num()
	if !v.IsInt64() {
		if err == nil {
			return fmt.Sprintf("ParseInt(%q) = %d, but the sentence denotes %s which does not fit in 64 bits (must be rejected)", s, got, v.String()), false
		}
		return "", false
	}
	if err != nil {
		return fmt.Sprintf("ParseInt(%q) failed (%v), but the sentence denotes %s", s, err, v.String()), false
	}
	if got != v.Int64() {
		return fmt.Sprintf("ParseInt(%q) = %d, but the sentence denotes %s", s, got, v.String()), false
	}
	return "", false
}

func ratToFloat(r *big.Rat) float64 {
	f, _ := r.Float64()
	return f
}

func judgeFloat(d units.Def, u *schema.UnitsDefinition, s string) (string, bool) {
	var got float64
	var err error
	if p := safely(func() { got, err = u.ParseFloat(s) }); p != nil {
		return fmt.Sprintf("ParseFloat(%q) panicked: %v", s, p), false
	}
	readings := d.ParseAll(s)
	switch {
	case len(readings) == 0:
		if err == nil {
			return fmt.Sprintf("ParseFloat(%q) = %v, but the string is not a sentence of the unit grammar (must be rejected)", s, got), false
		}
		return "", false
	case len(readings) > 1:
		return "", true
	}
	r := readings[0]
	want := ratToFloat(r.Value)
	if err != nil {
		if r.CountOverflow || r.Value.Cmp(new(big.Rat).SetInt(big.NewInt(math.MaxInt64))) > 0 {
			return "", false // beyond 64 bits: rejection is right
		}
		return fmt.Sprintf("ParseFloat(%q) failed (%v), but the sentence denotes %v", s, err, want), false
	}
	tol := 1e-9*math.Abs(want) + 1e-9
	if math.IsNaN(got) || math.Abs(got-want) > tol {
		return fmt.Sprintf("ParseFloat(%q) = %v, but the sentence denotes %v", s, got, want), false
	}
	return "", false
}

func runIntRoundTrip(c intCase) string {
	u := c.Def.Build()
	var s string
	if p := safely(func() {
		if c.Long {
			s = u.FormatLongInt(c.X)
		} else {
			s = u.FormatShortInt(c.X)
		}
	}); p != nil {
		return fmt.Sprintf("formatting %d panicked: %v", c.X, p)
	}
	form := "FormatShortInt"
	if c.Long {
		form = "FormatLongInt"
	}
	readings := c.Def.ParseAll(s)
	if len(readings) > 1 {
		ev.Class("unspecified_ambiguous_format", 1)
		return ""
	}
	if len(readings) == 0 {
		return fmt.Sprintf("%s(%d) = %q is not a sentence of the unit grammar", form, c.X, s)
	}
	if readings[0].Decimal || readings[0].Value.Cmp(new(big.Rat).SetInt64(c.X)) != 0 {
		return fmt.Sprintf("%s(%d) = %q, which denotes %s", form, c.X, s, readings[0].Value.FloatString(3))
	}
	var got int64
	var err error
	if p := safely(func() { got, err = u.ParseInt(s) }); p != nil {
		return fmt.Sprintf("ParseInt(%q) panicked: %v", s, p)
	}
	if err != nil {
		return fmt.Sprintf("ParseInt(%s(%d) = %q) failed: %v", form, c.X, s, err)
	}
	if got != c.X {
		return fmt.Sprintf("ParseInt(%s(%d) = %q) = %d", form, c.X, s, got)
	}
	return ""
}

func runFloatRoundTrip(c floatCase) string {
	u := c.Def.Build()
	var s string
	if p := safely(func() {
		if c.Long {
			s = u.FormatLongFloat(c.X)
		} else {
			s = u.FormatShortFloat(c.X)
		}
	}); p != nil {
		return fmt.Sprintf("formatting %v panicked: %v", c.X, p)
	}
	form := "FormatShortFloat"
	if c.Long {
		form = "FormatLongFloat"
	}
	tol := 1e-6 + 1e-9*math.Abs(c.X)
	readings := c.Def.ParseAll(s)
	if len(readings) > 1 {
		ev.Class("unspecified_ambiguous_format", 1)
		return ""
	}
	if len(readings) == 0 {
		return fmt.Sprintf("%s(%v) = %q is not a sentence of the unit grammar", form, c.X, s)
	}
	if math.Abs(ratToFloat(readings[0].Value)-c.X) > tol {
		return fmt.Sprintf("%s(%v) = %q, which denotes %v", form, c.X, s, ratToFloat(readings[0].Value))
	}
	var got float64
	var err error
	if p := safely(func() { got, err = u.ParseFloat(s) }); p != nil {
		return fmt.Sprintf("ParseFloat(%q) panicked: %v", s, p)
	}
	if err != nil {
		return fmt.Sprintf("ParseFloat(%s(%v) = %q) failed: %v", form, c.X, s, err)
	}
	if math.IsNaN(got) || math.Abs(got-c.X) > tol {
		return fmt.Sprintf("ParseFloat(%s(%v) = %q) = %v", form, c.X, s, got)
	}
	return ""
}

// runSentence judges ParseInt, ParseFloat and the schema entry points on one sentence.
func runSentence(c sentenceCase) (string, bool) {
	u := c.Def.Build()
	msg, unspec := judgeInt(c.Def, u, c.Sentence)
	if msg != "" {
		return msg, false
	}
	msg, unspec2 := judgeFloat(c.Def, u, c.Sentence)
	if msg != "" {
		return msg, false
	}
	// schema entry points must agree with the parser they are documented to use
	var si, sf any
	var ei, ef error
	if p := safely(func() {
		si, ei = schema.NewIntSchema(nil, nil, u).Unserialize(c.Sentence)
		sf, ef = schema.NewFloatSchema(nil, nil, u).Unserialize(c.Sentence)
	}); p != nil {
		return fmt.Sprintf("schema Unserialize(%q) panicked: %v", c.Sentence, p), false
	}
	pi, pei := u.ParseInt(c.Sentence)
	pf, pef := u.ParseFloat(c.Sentence)
	if (ei == nil) != (pei == nil) || (ei == nil && si != any(pi)) {
		return fmt.Sprintf("IntSchema.Unserialize(%q) = (%v, %v) but ParseInt = (%v, %v)", c.Sentence, si, ei, pi, pei), false
	}
	if (ef == nil) != (pef == nil) || (ef == nil && !(sf == any(pf) || (math.IsNaN(pf) && math.IsNaN(sf.(float64))))) {
		return fmt.Sprintf("FloatSchema.Unserialize(%q) = (%v, %v) but ParseFloat = (%v, %v)", c.Sentence, sf, ef, pf, pef), false
	}
	return "", unspec || unspec2
}

// ---------------------------------------------------------------------------------------------------------------
// non-triviality

func components(d units.Def, x int64) (n int, trailingZero bool) {
	rem := x
	for _, m := range d.Sorted() {
		c := rem / m.M
		rem -= c * m.M
		if c != 0 {
			n++
			if c%10 == 0 {
				trailingZero = true
			}
		}
	}
	if rem != 0 {
		n++
		if rem%10 == 0 {
			trailingZero = true
		}
	}
	return
}

// ---------------------------------------------------------------------------------------------------------------
// (a) enumeration on the built-in sets

func TestEnumBuiltin(t *testing.T) {
	if ev.Replaying() {
		t.Skip()
	}
	const limit = 200000
	for _, name := range units.BuiltinNames {
		d := units.BuiltinDef(name)
		for x := 0; x <= limit; x++ {
			if !ev.Mine(x) {
				continue
			}
			n, tz := components(d, int64(x))
			for _, long := range []bool{false, true} {
				c := intCase{Def: units.Def{Builtin: name, Base: d.Base, Mults: d.Mults}, X: int64(x), Long: long}
				ev.Case(ev.FP("enum", name, x, long), n >= 2 || tz, "enum_builtin")
				if msg := runIntRoundTrip(c); msg != "" {
					ev.Fail(t, "int_roundtrip", c, "%s [units=%s]", msg, name)
				}
			}
			if x%40000 == 7 {
				ev.Sample("int_roundtrip", intCase{Def: units.Def{Builtin: name}, X: int64(x)})
			}
		}
	}
	ev.Exhaustive("integers 0..200000 x 5 built-in unit sets x {short,long}")
}

// ---------------------------------------------------------------------------------------------------------------
// generators

var nameAlphabet = []rune("abcdmsHBkMGTPxyz%μ.*+?()[]{}|^$\\-/_'\"é")

func genName() *rapid.Generator[string] {
	return rapid.Custom(func(t *rapid.T) string {
		if rapid.IntRange(0, 3).Draw(t, "nameKind") == 0 {
			return rapid.SampledFrom([]string{"m", "ms", "mo", "s", "min", "μs", "us", "h", "H", "d", ".", "+", "(", "s.", "k"}).Draw(t, "fixedName")
		}
		n := rapid.IntRange(1, 4).Draw(t, "nameLen")
		var sb strings.Builder
		for i := 0; i < n; i++ {
			sb.WriteRune(rapid.SampledFrom(nameAlphabet).Draw(t, "ch"))
		}
		return sb.String()
	})
}

func genNames() *rapid.Generator[units.Names] {
	return rapid.Custom(func(t *rapid.T) units.Names {
		a := genName().Draw(t, "short")
		switch rapid.IntRange(0, 2).Draw(t, "namesShape") {
		case 0:
			return units.Names{a, a, a + "x", a + "xs"}
		case 1:
			return units.Names{a, a + "s", genName().Draw(t, "long"), genName().Draw(t, "longp")}
		}
		return units.Names{a, genName().Draw(t, "sp"), genName().Draw(t, "ls"), genName().Draw(t, "lp")}
	})
}

var multPool = []int64{2, 3, 7, 10, 12, 24, 60, 100, 1000, 1024, 3600, 86400, 1000000, 1048576, 1000000000, 1 << 40, 1000000000000000}

func genDef() *rapid.Generator[units.Def] {
	return rapid.Custom(func(t *rapid.T) units.Def {
		if rapid.IntRange(0, 2).Draw(t, "builtin") == 0 {
			return units.BuiltinDef(rapid.SampledFrom(units.BuiltinNames).Draw(t, "builtinName"))
		}
		d := units.Def{Base: genNames().Draw(t, "base")}
		n := rapid.IntRange(0, 6).Draw(t, "nMults")
		used := map[int64]bool{}
		for i := 0; i < n; i++ {
			var m int64
			if rapid.Bool().Draw(t, "poolMult") {
				m = rapid.SampledFrom(multPool).Draw(t, "mult")
			} else {
				m = rapid.Int64Range(2, 1000000000000000).Draw(t, "mult")
			}
			if used[m] {
				continue
			}
			used[m] = true
			d.Mults = append(d.Mults, units.Mult{M: m, N: genNames().Draw(t, "mnames")})
		}
		return d
	})
}

func genQuantity(d units.Def) *rapid.Generator[int64] {
	return rapid.Custom(func(t *rapid.T) int64 {
		ms := d.Sorted()
		switch rapid.IntRange(0, 6).Draw(t, "qKind") {
		case 0:
			return rapid.Int64Range(0, 200000).Draw(t, "small")
		case 1:
			p := int64(1)
			for i := rapid.IntRange(0, 18).Draw(t, "pow"); i > 0; i-- {
				p *= 10
			}
			return p
		case 2:
			if len(ms) == 0 {
				return 1
			}
			m := rapid.SampledFrom(ms).Draw(t, "m").M
			k := rapid.Int64Range(1, 9).Draw(t, "k")
			if m > math.MaxInt64/k-1 {
				k = 1
			}
			return m*k + rapid.Int64Range(-1, 1).Draw(t, "delta")
		case 3:
			var sum int64 = 1
			for _, m := range ms {
				if sum > math.MaxInt64-m.M {
					break
				}
				sum += m.M
			}
			return sum
		case 4:
			// values whose float64 image rounds up across a multiple of a multiplier
			e := rapid.IntRange(54, 62).Draw(t, "exp")
			return (int64(1) << e) - rapid.Int64Range(0, 3).Draw(t, "below")
		case 5:
			return math.MaxInt64 - rapid.Int64Range(0, 1000).Draw(t, "fromTop")
		}
		return rapid.Int64Range(0, math.MaxInt64).Draw(t, "any")
	})
}

func TestGenIntRoundTrip(t *testing.T) {
	ev.Check(t, "intrt", 6000, 150000, func(rt *rapid.T) {
		d := genDef().Draw(rt, "def")
		x := genQuantity(d).Draw(rt, "x")
		long := rapid.Bool().Draw(rt, "long")
		c := intCase{Def: d, X: x, Long: long}
		n, tz := components(d, x)
		ev.Case(ev.FP("gen", fmt.Sprint(d), x, long), n >= 2 || tz, "gen_int", fmt.Sprintf("mults=%d", len(d.Mults)))
		if ev.WantSample("gen_int_roundtrip") {
			ev.Sample("gen_int_roundtrip", c)
		}
		if msg := runIntRoundTrip(c); msg != "" {
			ev.Fail(rt, "int_roundtrip", c, "%s", msg)
		}
	})
}

func genFloat(d units.Def) *rapid.Generator[float64] {
	return rapid.Custom(func(t *rapid.T) float64 {
		switch rapid.IntRange(0, 4).Draw(t, "fKind") {
		case 0:
			// up to 6 decimals
			return float64(rapid.Int64Range(0, 1<<40).Draw(t, "i")) + float64(rapid.IntRange(0, 999999).Draw(t, "frac"))/1e6
		case 1:
			ms := d.Sorted()
			if len(ms) == 0 {
				return 0.5
			}
			m := rapid.SampledFrom(ms).Draw(t, "m").M
			return float64(m) + rapid.SampledFrom([]float64{0, 1e-10, -1e-10, 0.5, -0.5, 1e-7, 0.1}).Draw(t, "eps")
		case 2:
			return float64(rapid.Int64Range(0, 1<<50).Draw(t, "whole"))
		case 3:
			return rapid.Float64Range(0, 1e6).Draw(t, "f")
		}
		return rapid.Float64Range(0, float64(1<<62)).Draw(t, "big")
	})
}

func TestGenFloatRoundTrip(t *testing.T) {
	ev.Check(t, "floatrt", 4000, 100000, func(rt *rapid.T) {
		d := genDef().Draw(rt, "def")
		x := genFloat(d).Draw(rt, "x")
		if x < 0 {
			x = 0
		}
		long := rapid.Bool().Draw(rt, "long")
		c := floatCase{Def: d, X: x, Long: long}
		n, _ := components(d, int64(x))
		ev.Case(ev.FP("genf", fmt.Sprint(d), x, long), n >= 2 || x != math.Floor(x), "gen_float")
		if ev.WantSample("gen_float_roundtrip") {
			ev.Sample("gen_float_roundtrip", c)
		}
		if msg := runFloatRoundTrip(c); msg != "" {
			ev.Fail(rt, "float_roundtrip", c, "%s", msg)
		}
	})
}

// ---------------------------------------------------------------------------------------------------------------
// (c) sentences

type token struct {
	count string
	ws1   string
	name  string
	ws2   string
}

func genWS() *rapid.Generator[string] {
	return rapid.SampledFrom([]string{"", "", "", " ", "  ", "\t", " \t"})
}

func genCount() *rapid.Generator[string] {
	return rapid.Custom(func(t *rapid.T) string {
		switch rapid.IntRange(0, 5).Draw(t, "cKind") {
		case 0:
			return "0"
		case 1:
			return fmt.Sprint(rapid.Int64Range(0, 99).Draw(t, "c"))
		case 2:
			return "00" + fmt.Sprint(rapid.Int64Range(0, 9999).Draw(t, "c"))
		case 3:
			return fmt.Sprint(rapid.Int64Range(0, math.MaxInt64).Draw(t, "c"))
		case 4:
			return rapid.SampledFrom([]string{"9223372036854775807", "9223372036854775808", "18446744073709551616", "9999999999999999", "99999999999999999999999", "4611686018427387904"}).Draw(t, "edge")
		}
		return fmt.Sprint(rapid.Int64Range(0, 100000).Draw(t, "c"))
	})
}

func genSentence(d units.Def) *rapid.Generator[sentenceCase] {
	return rapid.Custom(func(t *rapid.T) sentenceCase {
		ms := d.Sorted()
		var toks []token
		for _, m := range ms {
			if rapid.IntRange(0, 2).Draw(t, "useMult") == 0 {
				toks = append(toks, token{genCount().Draw(t, "count"), genWS().Draw(t, "ws"), rapid.SampledFrom(m.N[:]).Draw(t, "name"), genWS().Draw(t, "ws")})
			}
		}
		if rapid.IntRange(0, 3).Draw(t, "useBase") != 0 || len(toks) == 0 {
			cnt := genCount().Draw(t, "count")
			if rapid.IntRange(0, 3).Draw(t, "decimal") == 0 {
				cnt += "." + rapid.StringMatching("[0-9]{1,7}").Draw(t, "frac")
			}
			name := ""
			if rapid.IntRange(0, 3).Draw(t, "bare") != 0 {
				name = rapid.SampledFrom(d.Base[:]).Draw(t, "bname")
			}
			toks = append(toks, token{cnt, genWS().Draw(t, "ws"), name, genWS().Draw(t, "ws")})
		}
		edit := rapid.SampledFrom([]string{"", "", "", "swap", "repeat", "unknown", "nocount", "sign", "decimal_nonbase", "foreign", "dropname", "junk", "empty"}).Draw(t, "edit")
		switch edit {
		case "swap":
			if len(toks) >= 2 {
				i := rapid.IntRange(0, len(toks)-2).Draw(t, "i")
				toks[i], toks[i+1] = toks[i+1], toks[i]
			}
		case "repeat":
			i := rapid.IntRange(0, len(toks)-1).Draw(t, "i")
			toks = append(toks[:i+1], append([]token{toks[i]}, toks[i+1:]...)...)
		case "unknown":
			i := rapid.IntRange(0, len(toks)-1).Draw(t, "i")
			toks[i].name = rapid.SampledFrom([]string{"q", "zz", "parsec", "µ", "S", "M"}).Draw(t, "unk")
		case "nocount":
			i := rapid.IntRange(0, len(toks)-1).Draw(t, "i")
			toks[i].count = ""
		case "sign":
			i := rapid.IntRange(0, len(toks)-1).Draw(t, "i")
			toks[i].count = rapid.SampledFrom([]string{"-", "+"}).Draw(t, "sg") + toks[i].count
		case "decimal_nonbase":
			i := rapid.IntRange(0, len(toks)-1).Draw(t, "i")
			if !strings.Contains(toks[i].count, ".") {
				toks[i].count += ".5"
			}
		case "foreign":
			i := rapid.IntRange(0, len(toks)-1).Draw(t, "i")
			if len(toks[i].count) >= 2 {
				toks[i].count = toks[i].count[:1] + rapid.SampledFrom([]string{"_", ",", "e", "x", " ", "'"}).Draw(t, "fc") + toks[i].count[1:]
			}
		case "dropname":
			i := rapid.IntRange(0, len(toks)-1).Draw(t, "i")
			toks[i].name = ""
		case "junk":
			toks = append(toks, token{count: rapid.SampledFrom([]string{"!", "1e5", "0x10", "NaN", "∞", "1 2"}).Draw(t, "junk")})
		case "empty":
			toks = nil
		}
		var sb strings.Builder
		sb.WriteString(genWS().Draw(t, "lead"))
		for _, tk := range toks {
			sb.WriteString(tk.count + tk.ws1 + tk.name + tk.ws2)
		}
		return sentenceCase{Def: d, Sentence: sb.String(), Edit: edit}
	})
}

func TestSentences(t *testing.T) {
	ev.Check(t, "sentences", 8000, 200000, func(rt *rapid.T) {
		d := genDef().Draw(rt, "def")
		c := genSentence(d).Draw(rt, "sentence")
		msg, unspec := runSentence(c)
		readings := len(d.ParseAll(c.Sentence))
		cls := "sentence_valid"
		if readings == 0 {
			cls = "sentence_invalid"
		}
		if unspec {
			cls = "sentence_unspecified_ambiguous"
		}
		ev.Case(ev.FP("sent", fmt.Sprint(d), c.Sentence), c.Edit != "" || strings.Count(c.Sentence, " ") > 0 || readings == 1, cls, "edit="+c.Edit)
		if ev.WantSample(cls) {
			ev.Sample(cls, c)
		}
		if msg != "" {
			ev.Fail(rt, "sentence", c, "%s", msg)
		}
	})
}
