package c16

import (
	"fmt"
	"testing"

	"verif/harness/ev"
	"verif/harness/units"
)

// fuzzDefs: the five built-in unit sets plus fixed custom definitions with prefix-related names, regexp
// metacharacters in names and awkward multipliers. The fuzzer picks one by index.
var fuzzDefs = func() []units.Def {
	var ds []units.Def
	for _, n := range units.BuiltinNames {
		ds = append(ds, units.BuiltinDef(n))
	}
	ds = append(ds,
		units.Def{Base: units.Names{"m", "m", "meter", "meters"}, Mults: []units.Mult{
			{M: 1000, N: units.Names{"mm", "mm", "millimeter", "millimeters"}},
			{M: 60000, N: units.Names{"min", "min", "minute", "minutes"}}}},
		units.Def{Base: units.Names{"$", "$", "dollar.", "dollars+"}, Mults: []units.Mult{
			{M: 3, N: units.Names{"(x)", "(x)", "a|b", "a|bs"}},
			{M: 1 << 62, N: units.Names{"Q", "Q", "quad", "quads"}}}},
		units.Def{Base: units.Names{"u", "us", "unit", "units"}, Mults: []units.Mult{
			{M: 7, N: units.Names{"w", "ws", "week", "weeks"}},
			{M: 49, N: units.Names{"ww", "wws", "weekweek", "weekweeks"}}}},
	)
	return ds
}()

// FuzzSentence: coverage-guided search over (definition index, string) judged by the same oracle as TestSentences:
// SDK ParseInt / ParseFloat / IntSchema / FloatSchema against every reading the reference parser finds.
func FuzzSentence(f *testing.F) {
	for i, d := range fuzzDefs {
		u := d.Build()
		for _, x := range []int64{0, 1, 59, 60, 61, 3725, 1024, 1023, 1 << 40, 1<<62 + 5, 9223372036854775807} {
			f.Add(uint8(i), u.FormatShortInt(x))
			f.Add(uint8(i), u.FormatLongInt(x))
		}
		f.Add(uint8(i), "1.5"+d.Base[0])
		f.Add(uint8(i), "18014398509481985 "+d.Base[1])
		f.Add(uint8(i), "9223372036854775808"+d.Base[0])
		f.Add(uint8(i), " 1\t"+d.Base[3]+" ")
		f.Add(uint8(i), "+1"+d.Base[0])
		f.Add(uint8(i), "1"+d.Base[0]+"1"+d.Base[0])
	}
	f.Fuzz(func(t *testing.T, sel uint8, s string) {
		if len(s) > 80 {
			return
		}
		d := fuzzDefs[int(sel)%len(fuzzDefs)]
		c := sentenceCase{Def: d, Sentence: s, Edit: "fuzz"}
		if ev.FuzzConvert("sentence", c) {
			return
		}
		msg, unspec := runSentence(c)
		readings := len(d.ParseAll(s))
		cls := "fuzz_sentence_valid"
		if readings == 0 {
			cls = "fuzz_sentence_invalid"
		}
		if unspec {
			cls = "fuzz_sentence_unspecified_ambiguous"
		}
		ev.Case(ev.FP("fuzz", sel, s), readings >= 1, cls)
		if readings >= 1 && ev.WantSample(cls) {
			ev.Sample(cls, c)
		}
		if msg != "" {
			ev.Fail(t, "sentence", c, "%s\n definition: %s", msg, fmt.Sprint(d))
		}
	})
}
