// Package dec turns fuzz bytes into Go values the way the decoders named in the properties do.
package dec

import (
	"bytes"
	"encoding/json"

	"github.com/fxamacker/cbor/v2"
	"gopkg.in/yaml.v3"
)

// Names of the decoders, by selector modulo 4.
var Names = []string{"cbor", "json", "yaml", "text"}

// Any decodes data with the decoder chosen by sel: CBOR exactly as ATP uses it (default options, into `any`),
// encoding/json, yaml.v3, or - selector 3 - the bytes taken as a plain string (what a workflow author types into a
// field). ok is false when the decoder rejects the bytes.
func Any(sel uint8, data []byte) (v any, name string, ok bool) {
	name = Names[sel%4]
	switch sel % 4 {
	case 0:
		if cbor.Unmarshal(data, &v) != nil {
			return nil, name, false
		}
	case 1:
		if json.NewDecoder(bytes.NewReader(data)).Decode(&v) != nil {
			return nil, name, false
		}
	case 2:
		if yaml.Unmarshal(data, &v) != nil {
			return nil, name, false
		}
	default:
		v = string(data)
	}
	return v, name, true
}
