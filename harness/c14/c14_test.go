package c14

import (
	"encoding/json"
	"fmt"
	"sort"
	"strings"
	"testing"

	"go.flow.arcalot.io/pluginsdk/schema"
	"pgregory.net/rapid"
	"verif/harness/ev"
	"verif/harness/gen"
	"verif/harness/model"
	"verif/harness/oracle"
	"verif/harness/spec"
	"verif/harness/val"
)

func TestMain(m *testing.M) {
	ev.Note("rule", "C14: rapid-generated scope trees (depth<=3) whose object IDs are drawn from a 4-letter pool so that the same ID is defined in several scopes with different shapes (every object carries a uniquely named required marker property), with references under properties, lists, map values, one-of members and nested scopes, 0-2 external namespaces with their own object tables, self- and mutually recursive objects; the namespaces are applied in a generated order; plus struct worlds (scopes of struct-mapped objects from the general generator, half of the flat ones with one reference-free hoisted object moved into an external namespace). Oracles: (1) link state: after each ApplyNamespace exactly the references of that namespace (and the already applied ones) report ObjectReady, and ValidateReferences()==nil exactly when every reference is linked; (2) behaviour equals the reference interpreter's lexical resolution (nearest enclosing scope for the self namespace, the external table for a named one) on valid inputs (recursion depth up to 200) and mutations of them; (3) metamorphic: the schema in which every reference is replaced by the object the lexical resolver selects (recursion unrolled 3 levels) accepts/rejects and unserializes/serializes every input identically. Non-trivial: an ID is defined in >= 2 scopes with a reference to it below the inner one, or >= 2 namespaces are applied; distinct by (world, application order, input).")
	ev.RegisterReplay("world", func(t *testing.T, raw json.RawMessage) {
		var c Case
		if err := json.Unmarshal(raw, &c); err != nil {
			t.Fatal(err)
		}
		if msg := run(c); msg != "" {
			t.Fatal(msg)
		}
	})
	ev.Main(m, "C14")
}

func TestReplay(t *testing.T) { ev.RunReplay(t) }

// World is a root scope plus external namespaces and the order in which they are applied.
type World struct {
	Root  *spec.Spec            `json:"root"`
	Ext   map[string]*spec.Spec `json:"ext,omitempty"`
	Order []string              `json:"order,omitempty"` // older replay files: namespaces applied to the root only
	Steps []Apply               `json:"steps,omitempty"`
}

// Apply is one ApplyNamespace call: the objects of the external scope NS are applied, under that name, to the root
// scope (On == "") or to another external scope.
type Apply struct {
	On string `json:"on,omitempty"`
	NS string `json:"ns"`
}

func (w World) steps() []Apply {
	if len(w.Steps) > 0 {
		return w.Steps
	}
	var out []Apply
	for _, ns := range w.Order {
		out = append(out, Apply{NS: ns})
	}
	return out
}

type Case struct {
	World  World   `json:"world"`
	Inputs []val.V `json:"inputs"`
}

func (w World) env() *model.Env {
	return &model.Env{Ext: w.Ext}
}

// ---------------------------------------------------------------------------------------------------------------
// generator

type wgen struct {
	t      *rapid.T
	marker int
	ext    map[string]*spec.Spec
}

var idPool = []string{"A", "AB", "B", "C"} // one ID is a prefix of another

func (g *wgen) leaf() *spec.Spec {
	switch rapid.IntRange(0, 3).Draw(g.t, "leafKind") {
	case 0:
		lo := int64(rapid.IntRange(0, 5).Draw(g.t, "lo")) * 10
		return &spec.Spec{Kind: spec.KInt, Min: spec.P(lo), Max: spec.P(lo + 5)}
	case 1:
		return &spec.Spec{Kind: spec.KString, Pattern: spec.P(rapid.SampledFrom([]string{`^[a-z]+$`, `^[0-9]{2,4}$`, `^(foo|bar|baz)$`}).Draw(g.t, "pat"))}
	case 2:
		return &spec.Spec{Kind: spec.KBool}
	}
	return &spec.Spec{Kind: spec.KEnumS, Enum: []spec.EnumVal{{S: rapid.SampledFrom([]string{"a", "b", "yes"}).Draw(g.t, "ev")}}}
}

func (g *wgen) refTo(ids []string, allowNS bool) *spec.Spec {
	if allowNS && len(g.ext) > 0 && rapid.IntRange(0, 2).Draw(g.t, "nsRef") == 0 {
		var names []string
		for n := range g.ext {
			names = append(names, n)
		}
		sort.Strings(names)
		ns := rapid.SampledFrom(names).Draw(g.t, "ns")
		var eids []string
		for _, o := range g.ext[ns].Objects {
			eids = append(eids, o.ID)
		}
		return &spec.Spec{Kind: spec.KRef, RefID: rapid.SampledFrom(eids).Draw(g.t, "extID"), Namespace: ns}
	}
	return &spec.Spec{Kind: spec.KRef, RefID: rapid.SampledFrom(ids).Draw(g.t, "refID")}
}

// inlineObject is an object that is not registered in any scope: it appears in place of a type and holds a marker
// and one or two references (plain, or under a list) that must resolve in the scope enclosing it.
func (g *wgen) inlineObject(ids []string, allowNS bool) *spec.Spec {
	g.marker++
	o := &spec.Spec{Kind: spec.KObject, ID: fmt.Sprintf("I%d", g.marker)}
	o.Props = append(o.Props, spec.Prop{Name: fmt.Sprintf("k%d", g.marker), Type: &spec.Spec{Kind: spec.KBool}, Required: true})
	o.Props = append(o.Props, spec.Prop{Name: "r", Type: g.refTo(ids, allowNS)})
	if rapid.Bool().Draw(g.t, "inlineSecond") {
		o.Props = append(o.Props, spec.Prop{Name: "rl", Type: &spec.Spec{Kind: spec.KList, Items: g.refTo(ids, allowNS), Max: spec.P(int64(2))}})
	}
	return o
}

func (g *wgen) scope(depth int, allowNS bool) *spec.Spec {
	n := rapid.IntRange(1, 3).Draw(g.t, "nObjects")
	ids := append([]string(nil), idPool...)
	ids = rapid.Permutation(ids).Draw(g.t, "idPerm")[:n]
	sc := &spec.Spec{Kind: spec.KScope, Root: ids[0]}
	for _, id := range ids {
		g.marker++
		o := &spec.Spec{Kind: spec.KObject, ID: id}
		o.Props = append(o.Props, spec.Prop{Name: fmt.Sprintf("k%d", g.marker), Type: &spec.Spec{Kind: spec.KBool}, Required: true})
		np := rapid.IntRange(0, 3).Draw(g.t, "nProps")
		for i := 0; i < np; i++ {
			name := fmt.Sprintf("p%d", i)
			var pt *spec.Spec
			required := false
			switch rapid.IntRange(0, 8).Draw(g.t, "propKind") {
			case 0:
				pt = g.leaf()
				required = rapid.Bool().Draw(g.t, "req")
			case 1, 2:
				pt = g.refTo(ids, allowNS)
			case 3:
				pt = &spec.Spec{Kind: spec.KList, Items: g.refTo(ids, allowNS), Max: spec.P(int64(3))}
			case 4:
				pt = &spec.Spec{Kind: spec.KMap, Keys: &spec.Spec{Kind: spec.KString}, Values: g.refTo(ids, allowNS), Max: spec.P(int64(2))}
			case 5:
				oo := &spec.Spec{Kind: spec.KOneOfS, Discriminator: "_t"}
				for j, key := range []string{"x", "y"} {
					if j == 1 && rapid.Bool().Draw(g.t, "oneMember") {
						break
					}
					// a member is a reference, an object written in place (which may itself hold references), or a
					// nested scope
					var mt *spec.Spec
					switch rapid.IntRange(0, 4).Draw(g.t, "memberKind") {
					case 0:
						mt = g.inlineObject(ids, allowNS)
					case 1:
						if depth+1 < 3 {
							mt = g.scope(depth+1, allowNS)
						} else {
							mt = g.inlineObject(ids, allowNS)
						}
					default:
						mt = g.refTo(ids, allowNS)
					}
					oo.Members = append(oo.Members, spec.Member{KeyS: key, Type: mt})
				}
				pt = oo
			case 6:
				if depth+1 < 3 {
					pt = g.scope(depth+1, allowNS)
				} else {
					pt = g.leaf()
				}
			case 7:
				// an object written in place, directly or as list item / map value
				switch rapid.IntRange(0, 4).Draw(g.t, "inlineWhere") {
				case 3:
					// a one-property wrapper around a reference: the single-property shorthand (a lone non-map value)
					// must work through the reference exactly as it does through the object written in place
					pt = &spec.Spec{Kind: spec.KObject, ID: fmt.Sprintf("W%d", g.marker), Props: []spec.Prop{{Name: "only", Type: g.refTo(ids, allowNS)}}}
				case 4:
					pt = &spec.Spec{Kind: spec.KList, Items: &spec.Spec{Kind: spec.KObject, ID: fmt.Sprintf("W%d", g.marker), Props: []spec.Prop{{Name: "only", Type: g.refTo(ids, allowNS)}}}, Max: spec.P(int64(2))}
				case 0:
					pt = g.inlineObject(ids, allowNS)
				case 1:
					pt = &spec.Spec{Kind: spec.KList, Items: g.inlineObject(ids, allowNS), Max: spec.P(int64(2))}
				default:
					pt = &spec.Spec{Kind: spec.KMap, Keys: &spec.Spec{Kind: spec.KString}, Values: g.inlineObject(ids, allowNS), Max: spec.P(int64(2))}
				}
			default:
				pt = &spec.Spec{Kind: spec.KList, Items: g.leaf(), Max: spec.P(int64(2))}
			}
			o.Props = append(o.Props, spec.Prop{Name: name, Type: pt, Required: required})
		}
		sc.Objects = append(sc.Objects, o)
	}
	return sc
}

func genWorld(t *rapid.T) World {
	g := &wgen{t: t, ext: map[string]*spec.Spec{}}
	nExt := rapid.IntRange(0, 2).Draw(t, "nExt")
	var names []string
	for i := 0; i < nExt; i++ {
		name := []string{"x", "xy"}[i] // one namespace name is a prefix of the other
		// an external scope may itself refer into the external scopes generated before it (a chain of namespaces)
		sc := g.scope(2, i > 0 && rapid.Bool().Draw(t, "chained"))
		g.ext[name] = sc
		names = append(names, name)
	}
	// ... and into later ones or itself: references across scope boundaries that close a cycle
	for _, name := range names {
		if rapid.IntRange(0, 2).Draw(t, "lateRef") != 0 {
			continue
		}
		target := rapid.SampledFrom(names).Draw(t, "lateNS")
		var tids []string
		for _, o := range g.ext[target].Objects {
			tids = append(tids, o.ID)
		}
		ref := &spec.Spec{Kind: spec.KRef, RefID: rapid.SampledFrom(tids).Draw(t, "lateID"), Namespace: target}
		o := g.ext[name].Objects[rapid.IntRange(0, len(g.ext[name].Objects)-1).Draw(t, "lateObject")]
		var pt *spec.Spec
		switch rapid.IntRange(0, 2).Draw(t, "lateShape") {
		case 0:
			pt = ref
		case 1:
			pt = &spec.Spec{Kind: spec.KList, Items: ref, Max: spec.P(int64(2))}
		default:
			pt = &spec.Spec{Kind: spec.KMap, Keys: &spec.Spec{Kind: spec.KString}, Values: ref, Max: spec.P(int64(2))}
		}
		o.Props = append(o.Props, spec.Prop{Name: "late", Type: pt})
	}
	ext := g.ext
	w := World{Ext: ext}
	w.Root = g.scope(0, true)
	// every (scope, namespace) pair is applied once, in a generated order
	var steps []Apply
	for _, on := range append([]string{""}, names...) {
		for _, ns := range names {
			steps = append(steps, Apply{On: on, NS: ns})
		}
	}
	if len(steps) > 1 {
		steps = rapid.Permutation(steps).Draw(t, "order")
	}
	w.Steps = steps
	return w
}

// ---------------------------------------------------------------------------------------------------------------
// building and link state

type refInfo struct {
	ns  string
	ref *schema.RefSchema
}

// collectRefs walks a built schema and returns every RefSchema instance with its namespace.
func collectRefs(t schema.Type, out *[]refInfo, seen map[any]bool) {
	if t == nil || seen[t] {
		return
	}
	switch v := t.(type) {
	case *schema.RefSchema:
		seen[v] = true
		*out = append(*out, refInfo{v.Namespace(), v})
	case *schema.ScopeSchema:
		seen[v] = true
		for _, o := range v.Objects() {
			collectRefs(o, out, seen)
		}
	case *schema.ObjectSchema:
		seen[v] = true
		for _, p := range v.Properties() {
			collectRefs(p.Type(), out, seen)
		}
	case *schema.ListSchema:
		collectRefs(v.Items(), out, seen)
	case *schema.MapSchema[schema.Type, schema.Type]:
		collectRefs(v.Keys(), out, seen)
		collectRefs(v.Values(), out, seen)
	case *schema.OneOfSchema[string]:
		for _, m := range v.Types() {
			collectRefs(m, out, seen)
		}
	case *schema.OneOfSchema[int64]:
		for _, m := range v.Types() {
			collectRefs(m, out, seen)
		}
	}
}

// build constructs the world and checks the link-state model while applying the namespaces.
func build(w World) (schema.Type, string) {
	var root schema.Type
	var err error
	if p := oracle.Safely(func() { root, err = spec.Build(w.Root) }); p != nil || err != nil {
		return nil, fmt.Sprintf("building the root scope failed although every self-namespace reference has its object in its own scope: %v %v", p, err)
	}
	exts := map[string]*schema.ScopeSchema{}
	for ns, s := range w.Ext {
		e, err := spec.Build(s)
		if err != nil {
			return nil, "harness: external scope does not build: " + err.Error()
		}
		exts[ns] = e.(*schema.ScopeSchema)
	}
	// the references of each scope's own tree (a reference is not followed into the object it denotes)
	scopes := map[string]schema.Type{"": root}
	for ns, e := range exts {
		scopes[ns] = e
	}
	var scopeNames []string
	refs := map[string][]refInfo{}
	for name, sc := range scopes {
		scopeNames = append(scopeNames, name)
		var r []refInfo
		collectRefs(sc, &r, map[any]bool{})
		refs[name] = r
	}
	sort.Strings(scopeNames)
	applied := map[string]bool{}
	check := func(stage string) string {
		for _, name := range scopeNames {
			who := "the root scope"
			if name != "" {
				who = fmt.Sprintf("external scope %q", name)
			}
			allLinked := true
			for _, r := range refs[name] {
				want := r.ns == "" || applied[name+"\x00"+r.ns]
				if !want {
					allLinked = false
				}
				if r.ref.ObjectReady() != want {
					return fmt.Sprintf("%s: in %s the reference to %q in namespace %q reports ObjectReady=%v, want %v (applied so far: %v)", stage, who, r.ref.ID(), r.ns, r.ref.ObjectReady(), want, keysOf(applied))
				}
			}
			var verr error
			sc := scopes[name]
			if p := oracle.Safely(func() { verr = sc.ValidateReferences() }); p != nil {
				return fmt.Sprintf("%s: ValidateReferences of %s panicked: %v", stage, who, p)
			}
			if (verr == nil) != allLinked {
				return fmt.Sprintf("%s: ValidateReferences() of %s = %v but all of its references linked = %v (applied so far: %v)", stage, who, verr, allLinked, keysOf(applied))
			}
		}
		return ""
	}
	if msg := check("after construction"); msg != "" {
		return nil, msg
	}
	for _, st := range w.steps() {
		target := scopes[st.On]
		if p := oracle.Safely(func() { target.ApplyNamespace(exts[st.NS].Objects(), st.NS) }); p != nil {
			return nil, fmt.Sprintf("ApplyNamespace(%q) on %q panicked: %v", st.NS, st.On, p)
		}
		applied[st.On+"\x00"+st.NS] = true
		if msg := check(fmt.Sprintf("after ApplyNamespace(%q) on scope %q", st.NS, st.On)); msg != "" {
			return nil, msg
		}
	}
	return root, ""
}

func keysOf(m map[string]bool) []string {
	var k []string
	for n := range m {
		k = append(k, n)
	}
	sort.Strings(k)
	return k
}

// ---------------------------------------------------------------------------------------------------------------
// inlining by the model's lexical resolver

func clone(s *spec.Spec) *spec.Spec {
	b, _ := json.Marshal(s)
	var c spec.Spec
	_ = json.Unmarshal(b, &c)
	return &c
}

// inline returns a copy of s (inside environment env) in which references are replaced by what they denote.
func inline(s *spec.Spec, env *model.Env, depth int) *spec.Spec {
	if s == nil {
		return nil
	}
	switch s.Kind {
	case spec.KRef:
		if depth <= 0 {
			if s.Namespace != "" {
				if o := refFreeObject(env.Ext[s.Namespace], s.RefID); o != nil {
					return clone(o)
				}
				// beyond the unrolling depth a named reference is kept as a nested scope copy of the external scope
				sc := clone(env.Ext[s.Namespace])
				sc.Root = s.RefID
				return sc
			}
			return clone(s)
		}
		if s.Namespace != "" {
			if o := refFreeObject(env.Ext[s.Namespace], s.RefID); o != nil {
				// the denoted object has no references of its own: it is written in place as it is
				return clone(o)
			}
			sc := clone(env.Ext[s.Namespace])
			sc.Root = s.RefID
			return sc
		}
		o := env.Objects[s.RefID]
		return inlineObject(o, env, depth-1)
	case spec.KScope:
		c := *s
		c.Objects = nil
		inner := env.ScopeEnv(s)
		for _, o := range s.Objects {
			c.Objects = append(c.Objects, inlineObject(o, inner, depth))
		}
		return &c
	case spec.KObject:
		return inlineObject(s, env, depth)
	}
	c := *s
	c.Items = inline(s.Items, env, depth)
	c.Keys = inline(s.Keys, env, depth)
	c.Values = inline(s.Values, env, depth)
	if len(s.Members) > 0 {
		c.Members = nil
		for _, m := range s.Members {
			c.Members = append(c.Members, spec.Member{KeyS: m.KeyS, KeyI: m.KeyI, Type: inline(m.Type, env, depth)})
		}
	}
	return &c
}

// refFreeObject returns the object with that ID of the scope if nothing inside it is a reference or a scope.
func refFreeObject(sc *spec.Spec, id string) *spec.Spec {
	if sc == nil {
		return nil
	}
	for _, o := range sc.Objects {
		if o.ID != id {
			continue
		}
		free := true
		spec.Walk(o, func(n *spec.Spec) {
			if n.Kind == spec.KRef || n.Kind == spec.KScope {
				free = false
			}
		})
		if free {
			return o
		}
	}
	return nil
}

func inlineObject(o *spec.Spec, env *model.Env, depth int) *spec.Spec {
	c := *o
	c.Props = nil
	for _, p := range o.Props {
		q := p
		q.Type = inline(p.Type, env, depth)
		c.Props = append(c.Props, q)
	}
	return &c
}

// ---------------------------------------------------------------------------------------------------------------

func specJSON(w World) string {
	b, _ := json.Marshal(w)
	return string(b)
}

var inlineUnbuildable int

func run(c Case) string {
	root, msg := build(c.World)
	if msg != "" {
		return msg + "\nworld: " + specJSON(c.World)
	}
	env := c.World.env()
	// the inlined schema still refers to objects of its scopes beyond the unrolling depth: same external tables apply
	inl := inline(c.World.Root, env, 3)
	inlWorld := World{Root: inl, Ext: c.World.Ext, Order: c.World.Order, Steps: c.World.Steps}
	inlRoot, imsg := build(inlWorld)
	if imsg != "" {
		if !strings.HasPrefix(imsg, "building the root scope failed") && !strings.HasPrefix(imsg, "harness:") {
			// the inlined world is a world like any other (every self-namespace reference still has its object in its
			// own scope): a link-state failure there means that a reference stopped being linked because an object
			// took the place of the reference that led to it
			return "after replacing references by the objects they denote: " + imsg + "\nworld: " + specJSON(c.World) + "\ninlined: " + specJSON(inlWorld)
		}
		inlRoot = nil // the constructors refuse the inlined form; skip the metamorphic part (counted)
		inlineUnbuildable++
	}
	for _, in := range c.Inputs {
		raw := in.Go()
		mv, verdict := model.Denote(c.World.Root, env, raw)
		var got any
		var uerr error
		if p := oracle.Safely(func() { got, uerr = root.Unserialize(in.Go()) }); p != nil {
			return fmt.Sprintf("Unserialize(%s) panicked: %v\nworld: %s", in, p, specJSON(c.World))
		}
		switch verdict {
		case model.Accept:
			if uerr != nil {
				return fmt.Sprintf("Unserialize(%s) was rejected (%v) but under lexical resolution of the references the input is valid\nworld: %s", in, uerr, specJSON(c.World))
			}
			if m := model.Match(c.World.Root, env, mv, got); m != "" {
				return fmt.Sprintf("Unserialize(%s) = %#v differs from the lexically resolved value: %s\nworld: %s", in, got, m, specJSON(c.World))
			}
		case model.Reject:
			if uerr == nil {
				return fmt.Sprintf("Unserialize(%s) = %#v was accepted but under lexical resolution of the references the input is invalid\nworld: %s", in, got, specJSON(c.World))
			}
		}
		if inlRoot != nil {
			var got2 any
			var uerr2 error
			if p := oracle.Safely(func() { got2, uerr2 = inlRoot.Unserialize(in.Go()) }); p != nil {
				continue
			}
			if (uerr == nil) != (uerr2 == nil) {
				return fmt.Sprintf("inlining the references changed the verdict on %s: with references %v, inlined %v\nworld: %s\ninlined: %s", in, uerr, uerr2, specJSON(c.World), specJSON(inlWorld))
			}
			if uerr == nil {
				if !val.Equal(got, got2, val.Opts{}) {
					return fmt.Sprintf("inlining the references changed the unserialized value of %s:\n with references: %#v\n inlined:         %#v\nworld: %s", in, got, got2, specJSON(c.World))
				}
				s1, e1 := root.Serialize(got)
				s2, e2 := inlRoot.Serialize(got2)
				if (e1 == nil) != (e2 == nil) || (e1 == nil && !val.Equal(s1, s2, val.Opts{})) {
					return fmt.Sprintf("inlining the references changed the serialized form of %s: (%#v, %v) vs (%#v, %v)\nworld: %s", in, s1, e1, s2, e2, specJSON(c.World))
				}
			}
		}
	}
	return ""
}

func collisions(w World) (collides bool, shadowedRef bool) {
	count := map[string]int{}
	var walk func(s *spec.Spec, depth int, outer map[string]bool)
	walk = func(s *spec.Spec, depth int, outer map[string]bool) {
		if s == nil {
			return
		}
		if s.Kind == spec.KScope {
			mine := map[string]bool{}
			for _, o := range s.Objects {
				count[o.ID]++
				mine[o.ID] = true
			}
			for _, o := range s.Objects {
				for i := range o.Props {
					var inner func(n *spec.Spec)
					inner = func(n *spec.Spec) {
						if n == nil {
							return
						}
						if n.Kind == spec.KScope {
							walk(n, depth+1, mine)
							return
						}
						if n.Kind == spec.KRef && n.Namespace == "" && outer[n.RefID] {
							shadowedRef = true
						}
						inner(n.Items)
						inner(n.Values)
						for j := range n.Members {
							inner(n.Members[j].Type)
						}
					}
					inner(o.Props[i].Type)
				}
			}
		}
	}
	walk(w.Root, 0, map[string]bool{})
	for _, s := range w.Ext {
		walk(s, 0, map[string]bool{})
	}
	for _, n := range count {
		if n >= 2 {
			collides = true
		}
	}
	return
}

func deepInput(t *rapid.T, w World) (val.V, bool) {
	// a long chain through a self-referential property of the root object, if there is one
	root := w.Root.ObjectByID(w.Root.Root)
	for _, p := range root.Props {
		if p.Type.Kind == spec.KRef && p.Type.Namespace == "" && p.Type.RefID == root.ID {
			base, ok := gen.ValueFor(t, w.Root, w.env(), 0)
			if !ok {
				return val.V{}, false
			}
			depth := rapid.SampledFrom([]int{5, 50, 200}).Draw(t, "chain")
			cur := base
			for i := 0; i < depth; i++ {
				next, ok := gen.ValueFor(t, w.Root, w.env(), 0)
				if !ok {
					break
				}
				nm := next.(map[string]any)
				nm[p.Name] = cur
				cur = nm
			}
			return gen.RenderCanonical(t, w.Root, w.env(), cur), true
		}
	}
	return val.V{}, false
}

func TestWorlds(t *testing.T) {
	ev.Check(t, "worlds", 600, 12000, func(rt *rapid.T) {
		w := genWorld(rt)
		c := Case{World: w}
		env := w.env()
		nIn := ev.N(8, 15)
		for i := 0; i < nIn; i++ {
			mv, ok := gen.ValueFor(rt, w.Root, env, 4)
			if !ok {
				continue
			}
			in := gen.Render(rt, w.Root, env, mv).V
			if rapid.IntRange(0, 2).Draw(rt, "perturbInput") == 0 {
				in = mutateKeys(rt, in)
			}
			c.Inputs = append(c.Inputs, in)
		}
		if d, ok := deepInput(rt, w); ok {
			c.Inputs = append(c.Inputs, d)
			ev.Class("deep_recursive_input", 1)
		}
		collides, shadowed := collisions(w)
		nontrivial := shadowed || len(w.Ext) >= 2
		chained, crossCycle := false, false
		reach := map[string]map[string]bool{}
		for name, e := range w.Ext {
			reach[name] = map[string]bool{}
			spec.Walk(e, func(n *spec.Spec) {
				if n.Kind == spec.KRef && n.Namespace != "" {
					reach[name][n.Namespace] = true
					chained = true
				}
			})
		}
		for a := range reach {
			for b := range reach[a] {
				if a == b || reach[b][a] {
					crossCycle = true
				}
			}
		}
		ev.Case(ev.FP(specJSON(w), fmt.Sprint(c.Inputs)), nontrivial, fmt.Sprintf("namespaces=%d", len(w.Ext)), fmt.Sprintf("id_collision=%v", collides), fmt.Sprintf("shadowed_ref=%v", shadowed), fmt.Sprintf("inputs=%d", len(c.Inputs)), fmt.Sprintf("external_scope_with_named_refs=%v", chained), fmt.Sprintf("cycle_across_namespaces=%v", crossCycle))
		if nontrivial && ev.WantSample("world") {
			ev.Sample("world", c)
		}
		msg := run(c)
		if inlineUnbuildable > 0 {
			ev.Class("inlined_form_refused_by_constructors", int64(inlineUnbuildable))
			inlineUnbuildable = 0
		}
		if msg != "" {
			ev.Fail(rt, "world", c, "%s", msg)
		}
	})
}

// mutateKeys renames / drops a marker key somewhere so that the input fits a *different* object of the same ID.
func mutateKeys(t *rapid.T, v val.V) val.V {
	var paths [][]int
	var walk func(x val.V, p []int)
	walk = func(x val.V, p []int) {
		if strings.HasPrefix(x.T, "map") {
			paths = append(paths, append([]int(nil), p...))
			for i, e := range x.M {
				walk(e.V, append(p, i))
			}
		}
		for i, e := range x.L {
			walk(e, append(p, -1-i))
		}
	}
	walk(v, nil)
	if len(paths) == 0 {
		return v
	}
	target := rapid.SampledFrom(paths).Draw(t, "mutPath")
	var apply func(x val.V, p []int) val.V
	apply = func(x val.V, p []int) val.V {
		c := x
		if len(p) > 0 {
			if p[0] >= 0 {
				c.M = append([]val.KV(nil), x.M...)
				c.M[p[0]].V = apply(x.M[p[0]].V, p[1:])
			} else {
				c.L = append([]val.V(nil), x.L...)
				c.L[-1-p[0]] = apply(x.L[-1-p[0]], p[1:])
			}
			return c
		}
		c.M = append([]val.KV(nil), x.M...)
		for i := range c.M {
			if strings.HasPrefix(c.M[i].K.S, "k") {
				// rename the marker to another object's marker
				c.M[i].K = val.Str(fmt.Sprintf("k%d", rapid.IntRange(1, 12).Draw(t, "otherMarker")))
				return c
			}
		}
		return c
	}
	return apply(v, target)
}

// TestStructWorlds: the same metamorphic check on scopes of struct-mapped objects from the general schema generator
// (references to hoisted objects, recursive and mutually recursive structs held by pointer or by value, defaults,
// one-of members): reference form and inlined form must accept the same inputs and give equal values.
// externalise moves one hoisted object of a flat struct world into an external namespace: the objects reachable from
// it through self-namespace references form the external scope (they also stay in the root table, where the
// remaining self-namespace references keep denoting them), and every reference to it from outside that set is
// rewritten to the namespace. Lexical resolution then gives the same object either way, so the reference form must
// still agree with the inlined form. Worlds with nested scopes, and objects from which the root is reachable, are left.
func externalise(rt *rapid.T, w *World) bool {
	s := w.Root
	if s.Kind != spec.KScope || !rapid.Bool().Draw(rt, "externalise") {
		return false
	}
	nested := 0
	spec.Walk(s, func(n *spec.Spec) {
		if n.Kind == spec.KScope {
			nested++
		}
	})
	if nested != 1 {
		return false
	}
	byID := map[string]*spec.Spec{}
	for _, o := range s.Objects {
		byID[o.ID] = o
	}
	closure := func(id string) map[string]bool {
		seen := map[string]bool{}
		var visit func(id string)
		visit = func(id string) {
			if seen[id] || byID[id] == nil {
				return
			}
			seen[id] = true
			spec.Walk(byID[id], func(n *spec.Spec) {
				if n.Kind == spec.KRef && n.Namespace == "" {
					visit(n.RefID)
				}
			})
		}
		visit(id)
		return seen
	}
	var cands []string
	for _, o := range s.Objects {
		// only objects without references of their own: the inlined form then holds the bare object, which is what the
		// statement speaks of (a moved object with references would be inlined as a scope written in place; how the
		// SDK completes by-value members typed by a scope is not classified yet, notes/c14-externalise)
		if o.ID != s.Root && len(closure(o.ID)) == 1 && refFreeObject(s, o.ID) != nil {
			cands = append(cands, o.ID)
		}
	}
	if len(cands) == 0 {
		return false
	}
	sort.Strings(cands)
	x := rapid.SampledFrom(cands).Draw(rt, "moved")
	in := closure(x)
	ext := &spec.Spec{Kind: spec.KScope, Root: x}
	for _, o := range s.Objects {
		if in[o.ID] {
			ext.Objects = append(ext.Objects, clone(o))
		}
	}
	moved := false
	for _, o := range s.Objects {
		if in[o.ID] {
			continue
		}
		spec.Walk(o, func(n *spec.Spec) {
			if n.Kind == spec.KRef && n.Namespace == "" && n.RefID == x {
				n.Namespace = "ext"
				moved = true
			}
		})
	}
	if !moved {
		return false
	}
	w.Ext = map[string]*spec.Spec{"ext": ext}
	w.Steps = []Apply{{NS: "ext"}}
	return true
}

func TestStructWorlds(t *testing.T) {
	ev.Check(t, "structworlds", 500, 10000, func(rt *rapid.T) {
		o := gen.Full(2)
		o.ScopeRoot = true
		o.Units, o.Display, o.Disabled = false, false, false
		s := gen.Spec(o).Draw(rt, "spec")
		gen.AddDefaults(rt, s, o)
		if _, err := spec.Build(s); err != nil {
			rt.Skip("the constructors refuse the generated schema")
		}
		w := World{Root: s}
		externalised := externalise(rt, &w)
		c := Case{World: w}
		for i := 0; i < ev.N(6, 12); i++ {
			mv, ok := gen.ValueFor(rt, s, nil, 4)
			if !ok {
				continue
			}
			c.Inputs = append(c.Inputs, gen.Render(rt, s, nil, mv).V)
		}
		c.Inputs = append(c.Inputs, val.V{T: "map[string]any"}, val.V{T: "map[any]any"})
		rec := gen.IsRecursive(s)
		hasStruct := false
		spec.Walk(s, func(n *spec.Spec) {
			if n.Kind == spec.KObject && n.Struct != "" {
				hasStruct = true
			}
		})
		ev.Case(ev.FP("structworld", specJSON(w), fmt.Sprint(c.Inputs)), (rec || externalised) && hasStruct, fmt.Sprintf("struct_world_recursive=%v", rec), fmt.Sprintf("struct_world_has_struct=%v", hasStruct), fmt.Sprintf("struct_world_object_moved_to_namespace=%v", externalised))
		msg := run(c)
		if inlineUnbuildable > 0 {
			ev.Class("inlined_form_refused_by_constructors", int64(inlineUnbuildable))
			inlineUnbuildable = 0
		}
		if msg != "" {
			ev.Fail(rt, "world", c, "%s", msg)
		}
	})
}
