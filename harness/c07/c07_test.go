package c07

import (
	"bytes"
	"context"
	"encoding/json"
	"errors"
	"fmt"
	"io"
	"runtime"
	"strings"
	"testing"
	"time"

	"go.flow.arcalot.io/pluginsdk/atp"
	"pgregory.net/rapid"
	"verif/harness/atpx"
	"verif/harness/ev"
	"verif/harness/gen"
	"verif/harness/sup"
	"verif/harness/val"
)

func TestMain(m *testing.M) {
	sup.Register("c07", workerFn)
	if sup.IsWorker() {
		sup.RunWorker()
	}
	ev.Note("rule", "C07: scripted clients drawn from a grammar - start-output (any CBOR value), then any order of work-start (valid / unknown step / empty run ID / empty step ID / duplicate run ID / payload of the wrong CBOR type / input the schema rejects), signal (known / unknown signal ID / unknown run ID / before its step / bad data), client-done, unknown message ID, extra fields, malformed CBOR (reserved additional-info bytes, unterminated indefinite items, random bytes), and end of input (EOF or read error); every byte offset of every generated script is also a truncation point (enumerated). Step behaviours per run: success, declared error output, undeclared output ID, data violating the output schema, panic, and gated (slow) variants of each whose gate the script opens before or after the input ends, which gives both orders of 'input ended' vs 'step finished'; the output side stays open or fails at a generated offset. RunATPServer runs in a supervised worker. Oracle: the process survives (no panic / fatal error), RunATPServer returns once input has ended and all gates are open, and - while the output stayed open - the output stream (parsed independently) holds exactly one terminal message (work-done, or step-fatal error) per work-start frame the server read, keyed by its run ID, with the work-done content CallStep gives in-process; every injected protocol problem shows up as at least one error frame or returned ServerError. Non-trivial: the script has >= 1 accepted work-start and >= 1 abnormal element (invalid frame, truncation inside a frame, non-success behaviour, input ending while a step is gated); distinct by (script, truncation point, output fault).")
	ev.RegisterReplay("script", func(t *testing.T, raw json.RawMessage) {
		var c Script
		if err := json.Unmarshal(raw, &c); err != nil {
			t.Fatal(err)
		}
		w := sup.NewWorker("c07")
		defer w.Close()
		for i := 0; i < 5; i++ {
			if msg, _ := judge(w, c); msg != "" {
				t.Fatal(msg)
			}
		}
	})
	ev.Main(m, "C07")
}

func TestReplay(t *testing.T) { ev.RunReplay(t) }

// Elem is one element of a client script.
type Elem struct {
	Kind      string `json:"kind"` // start_output, work_start, signal, client_done, unknown_msg, raw, open_gate
	Run       string `json:"run,omitempty"`
	Step      string `json:"step,omitempty"`
	Signal    string `json:"signal,omitempty"`
	Behaviour string `json:"behaviour,omitempty"`
	Gate      string `json:"gate,omitempty"`
	Payload   *val.V `json:"payload,omitempty"` // replaces the normal payload (wrong type / bad input)
	Extra     bool   `json:"extra,omitempty"`   // add unknown fields to the frame
	Raw       []byte `json:"raw,omitempty"`
}

type Script struct {
	Elems        []Elem `json:"elems"`
	Trunc        int    `json:"trunc"`              // -1: whole script; else input ends after this many bytes
	EndWithError bool   `json:"end_error"`          // input ends with a read error instead of EOF
	FailOutAt    int    `json:"fail_out_at"`        // -1: output stays open
	GatesLate    bool   `json:"gates_late"`         // remaining gates open only after the input has ended
	Frag         int    `json:"frag"`               // max bytes per read of the input
	Coalesce     bool   `json:"coalesce,omitempty"` // one read may deliver several consecutive frames (a client that does not wait)
}

func (e Elem) bytes() []byte {
	switch e.Kind {
	case "start_output":
		if e.Payload != nil {
			return atpx.StartOutput(e.Payload.Go())
		}
		return atpx.StartOutput(nil)
	case "work_start":
		var cfg any = atpx.StepConfig(e.Behaviour, e.Gate, e.Run)
		if e.Payload != nil {
			cfg = e.Payload.Go()
		}
		if e.Extra {
			return atpx.StartOutput(map[string]any{"id": atp.MessageTypeWorkStart, "run_id": e.Run, "data": map[string]any{"id": e.Step, "config": cfg, "zz_extra": 1}, "zz_more": "x"})
		}
		if e.Step == "<payload>" {
			// the whole data field has the wrong CBOR type
			return atpx.Runtime(atp.MessageTypeWorkStart, e.Run, cfg)
		}
		return atpx.WorkStart(e.Run, e.Step, cfg)
	case "signal":
		var data any = map[string]any{"x": int64(1)}
		if e.Payload != nil {
			data = e.Payload.Go()
		}
		if e.Signal == "<payload>" {
			return atpx.Runtime(atp.MessageTypeSignal, e.Run, data)
		}
		return atpx.Signal(e.Run, e.Signal, data)
	case "client_done":
		return atpx.ClientDone()
	case "unknown_msg":
		return atpx.Runtime(77, e.Run, map[string]any{})
	case "raw":
		return e.Raw
	}
	return nil
}

type result struct {
	Outcome  string   `json:"outcome"` // returned, no_return, skip
	Output   []byte   `json:"output"`
	Errors   []string `json:"errors"`
	OutFail  bool     `json:"out_failed"`
	Dump     string   `json:"dump,omitempty"`
	StepRuns int      `json:"step_runs"`
}

func workerFn(raw json.RawMessage) json.RawMessage {
	var sc Script
	res := result{}
	if err := json.Unmarshal(raw, &sc); err != nil {
		res.Outcome = "skip"
		b, _ := json.Marshal(res)
		return b
	}
	gates := atpx.NewGates()
	stats := &atpx.PluginStats{}
	plugin := atpx.TestPlugin(gates, stats)
	var items []atpx.Item
	total := 0
	for _, e := range sc.Elems {
		if e.Kind == "open_gate" {
			items = append(items, atpx.Item{Gate: e.Gate})
			continue
		}
		b := e.bytes()
		if sc.Trunc >= 0 && total+len(b) > sc.Trunc {
			b = b[:sc.Trunc-total]
			total += len(b)
			if len(b) > 0 {
				items = append(items, atpx.Item{Bytes: b})
			}
			break
		}
		total += len(b)
		items = append(items, atpx.Item{Bytes: b})
	}
	if sc.EndWithError {
		items = append(items, atpx.Item{Err: true})
	}
	reader := atpx.NewScriptReader(items, gates)
	reader.Frag = sc.Frag
	reader.Coalesce = sc.Coalesce
	writer := atpx.NewCaptureWriter(sc.FailOutAt)
	done := make(chan []*atp.ServerError, 1)
	go func() {
		done <- atp.RunATPServer(context.Background(), reader, writer, plugin)
	}()
	go func() {
		<-reader.Ended
		if sc.GatesLate {
			time.Sleep(4 * time.Millisecond) // let the server act on the end of input first
		}
		gates.OpenAll()
	}()
	select {
	case errs := <-done:
		res.Outcome = "returned"
		for _, e := range errs {
			res.Errors = append(res.Errors, e.String())
		}
	case <-time.After(8 * time.Second):
		gates.OpenAll()
		select {
		case errs := <-done:
			res.Outcome = "returned"
			for _, e := range errs {
				res.Errors = append(res.Errors, e.String())
			}
		case <-time.After(4 * time.Second):
			res.Outcome = "no_return"
			buf := make([]byte, 1<<18)
			res.Dump = string(buf[:runtime.Stack(buf, true)])
		}
	}
	res.Output = writer.Bytes()
	res.OutFail = writer.Failed()
	b, _ := json.Marshal(res)
	return b
}

// ---------------------------------------------------------------------------------------------------------------
// reference reading of the byte stream the script amounts to

type expectation struct {
	terminals map[string]int    // run ID -> number of terminal messages owed
	workDone  map[string]string // run ID -> expected output ID ("<error>" = step-fatal error), unique run IDs only
	workTag   map[string]any    // run ID -> the "tag" of the in-process result's data
	problems  int               // protocol problems among the frames the server reads
	accepted  int
	abnormal  int
	startOK   bool
}

// streamOf returns the bytes the server is given.
func streamOf(sc Script) []byte {
	var out []byte
	for _, e := range sc.Elems {
		if e.Kind == "open_gate" {
			continue
		}
		out = append(out, e.bytes()...)
	}
	if sc.Trunc >= 0 && sc.Trunc < len(out) {
		out = out[:sc.Trunc]
	}
	return out
}

var refPlugin = atpx.TestPlugin(func() *atpx.Gates { g := atpx.NewGates(); g.OpenAll(); return g }(), nil)

func pokeDataOK(data any) (ok bool) {
	defer func() {
		if recover() != nil {
			ok = false
		}
	}()
	_, err := refPlugin.StepsValue["do"].SignalHandlers()["poke"].DataSchema().Unserialize(data)
	return err == nil
}

// expect reads the stream the way the statement describes the server: a start value, then frames until the first
// one that cannot be decoded as a runtime message, a client-done, or the end of the input.
func expect(sc Script) expectation {
	ex := expectation{terminals: map[string]int{}, workDone: map[string]string{}, workTag: map[string]any{}}
	stream := streamOf(sc)
	dec := atpx.Dec.NewDecoder(bytes.NewReader(stream))
	var start any
	if err := dec.Decode(&start); err != nil {
		if len(stream) > 0 {
			ex.problems++
		}
		return ex
	}
	ex.startOK = true
	known := map[string]bool{}
	for {
		var m atp.DecodedRuntimeMessage // a fresh value per frame
		if err := dec.Decode(&m); err != nil {
			if !errors.Is(err, io.EOF) || sc.EndWithError {
				ex.problems++
				ex.abnormal++
			} else {
				ex.problems++ // input ended without client-done: reported as a server-fatal read error
			}
			break
		}
		switch m.MessageID {
		case atp.MessageTypeWorkStart:
			var ws atp.WorkStartMessage
			if err := atpx.Dec.Unmarshal(m.RawMessageData, &ws); err != nil {
				ex.terminals[m.RunID]++
				ex.problems++
				ex.abnormal++
				continue
			}
			if m.RunID == "" || ws.StepID == "" {
				ex.terminals[""]++
				ex.problems++
				ex.abnormal++
				continue
			}
			ex.terminals[m.RunID]++
			ex.accepted++
			known[m.RunID] = true
			// what the step gives in-process (gates open)
			var outID string
			var outData any
			var cerr error
			func() {
				defer func() {
					if e := recover(); e != nil {
						cerr = fmt.Errorf("panic: %v", e)
					}
				}()
				outID, outData, cerr = refPlugin.CallStep(context.Background(), m.RunID, ws.StepID, ws.Config)
			}()
			if cerr != nil {
				ex.workDone[m.RunID] = "<error>"
				ex.abnormal++
			} else {
				ex.workDone[m.RunID] = outID
				if d, ok := outData.(map[string]any); ok {
					ex.workTag[m.RunID] = d["tag"]
				}
			}
			if cfg, ok := ws.Config.(map[any]any); ok && cfg["gate"] != nil && sc.GatesLate {
				ex.abnormal++
			}
		case atp.MessageTypeSignal:
			var sm atp.SignalMessage
			if err := atpx.Dec.Unmarshal(m.RawMessageData, &sm); err != nil || m.RunID == "" || !known[m.RunID] || sm.SignalID != "poke" {
				ex.problems++
				ex.abnormal++
				continue
			}
			// bad signal data is a problem only if the signal's own data schema rejects it (a bare `false` is the
			// single-property shorthand for {x: 0} and perfectly valid)
			if !pokeDataOK(sm.Data) {
				ex.problems++
				ex.abnormal++
			}
		case atp.MessageTypeClientDone:
			goto done
		default:
			ex.problems++
			ex.abnormal++
		}
	}
done:
	for run, n := range ex.terminals {
		if n > 1 {
			delete(ex.workDone, run) // several work-starts for one run ID: only the counts are checked
			ex.abnormal++
		}
	}
	return ex
}

// normalise passes the script through JSON, exactly as it travels to the worker (invalid UTF-8 in generated strings
// is replaced on the way), so that the reference reading and the worker see the same bytes.
func normalise(sc Script) Script {
	b, err := json.Marshal(sc)
	if err != nil {
		return sc
	}
	var out Script
	if json.Unmarshal(b, &out) != nil {
		return sc
	}
	return out
}

func judge(w *sup.Worker, sc Script) (string, string) {
	sc = normalise(sc)
	body, crash := w.Do(sc, 30*time.Second)
	if crash != nil {
		scj, _ := json.Marshal(sc)
		describe := fmt.Sprintf("script: %s", scj)
		if len(describe) > 4000 {
			describe = describe[:4000] + "..."
		}
		return fmt.Sprintf("the ATP server process died or hung (%s)\n%s\n%s", crash, firstLines(crash.Log, 30), describe), crash.Kind
	}
	return assess(sc, body)
}

// assess judges the worker's answer for a (normalised) script against the reference reading.
func assess(sc Script, body json.RawMessage) (string, string) {
	scj, _ := json.Marshal(sc)
	describe := fmt.Sprintf("script: %s", scj)
	if len(describe) > 4000 {
		describe = describe[:4000] + "..."
	}
	var r result
	if err := json.Unmarshal(body, &r); err != nil {
		return "harness: " + err.Error(), "harness"
	}
	if r.Outcome == "skip" {
		return "", "skip"
	}
	if r.Outcome == "no_return" {
		return fmt.Sprintf("RunATPServer did not return although the input has ended and every step was released\n%s\n%s", firstLines(r.Dump, 80), describe), "no_return"
	}
	if r.OutFail || sc.FailOutAt >= 0 {
		return "", "returned_output_failed"
	}
	ex := expect(sc)
	hello, _, msgs, perr := atpx.ParseOutput(r.Output)
	if perr != nil {
		return fmt.Sprintf("the server's output is not a well-formed stream: %v\n%s", perr, describe), "bad_output"
	}
	if !ex.startOK {
		return "", "returned"
	}
	if hello == nil {
		return fmt.Sprintf("no hello message although the start-output value arrived\n%s", describe), "no_hello"
	}
	got := map[string]int{}
	for _, m := range msgs {
		if m.ID == atp.MessageTypeWorkDone || (m.ID == atp.MessageTypeError && m.StepFatal && !m.ServerFatal) {
			got[m.RunID]++
		}
	}
	for run, want := range ex.terminals {
		if got[run] != want {
			return fmt.Sprintf("run %q: the server read %d work-start frame(s) for it but sent %d terminal message(s) (work-done or step-fatal error)\noutput: %s\nreturned errors: %v\n%s", run, want, got[run], render(msgs), r.Errors, describe), "terminal_count"
		}
	}
	for run, n := range got {
		if ex.terminals[run] == 0 && n > 0 {
			return fmt.Sprintf("run %q: %d terminal message(s) although no work-start for it was read\noutput: %s\n%s", run, n, render(msgs), describe), "spurious_terminal"
		}
	}
	for run, want := range ex.workDone {
		for _, m := range msgs {
			if m.RunID != run || !(m.ID == atp.MessageTypeWorkDone || (m.ID == atp.MessageTypeError && m.StepFatal && !m.ServerFatal)) {
				continue
			}
			if want == "<error>" {
				if m.ID != atp.MessageTypeError {
					return fmt.Sprintf("run %q must end in a step-fatal error (failing / panicking / invalid step) but got work-done %q\n%s", run, m.OutputID, describe), "wrong_terminal"
				}
				continue
			}
			if m.ID != atp.MessageTypeWorkDone || m.OutputID != want {
				return fmt.Sprintf("run %q must end in work-done with output %q, got %s\n%s", run, want, render([]atpx.OutMessage{m}), describe), "wrong_terminal"
			}
			data, _ := m.OutputData.(map[any]any)
			if data == nil || data["tag"] != ex.workTag[run] {
				return fmt.Sprintf("run %q: work-done carries %#v, want tag %#v (the in-process result)\n%s", run, m.OutputData, ex.workTag[run], describe), "wrong_data"
			}
		}
	}
	if ex.problems > 0 {
		errFrames := 0
		for _, m := range msgs {
			if m.ID == atp.MessageTypeError {
				errFrames++
			}
		}
		if errFrames == 0 && len(r.Errors) == 0 {
			return fmt.Sprintf("%d protocol problem(s) were injected but no error message was sent and no ServerError returned\noutput: %s\n%s", ex.problems, render(msgs), describe), "silent_problem"
		}
	}
	return "", "returned"
}

func render(msgs []atpx.OutMessage) string {
	var sb strings.Builder
	for _, m := range msgs {
		switch m.ID {
		case atp.MessageTypeWorkDone:
			fmt.Fprintf(&sb, "[work-done run=%q output=%q] ", m.RunID, m.OutputID)
		case atp.MessageTypeError:
			fmt.Fprintf(&sb, "[error run=%q step_fatal=%v server_fatal=%v %.80q] ", m.RunID, m.StepFatal, m.ServerFatal, m.Error)
		default:
			fmt.Fprintf(&sb, "[msg %d run=%q] ", m.ID, m.RunID)
		}
	}
	return sb.String()
}

func firstLines(s string, n int) string {
	l := strings.Split(s, "\n")
	if len(l) > n {
		l = l[:n]
	}
	return strings.Join(l, "\n")
}

// ---------------------------------------------------------------------------------------------------------------
// generator

var malformed = [][]byte{{0x1c}, {0x1f}, {0x5f, 0x41, 0x00}, {0x9f, 0x01}, {0xbf, 0x61, 0x61}, {0xff}, {0xa1}, {0x7f, 0x61}, {0xa3, 0x62, 0x69, 0x64, 0x01}, {0xfe, 0xfd, 0xfc, 0x00}}

func genScript(t *rapid.T) Script {
	sc := Script{Trunc: -1, FailOutAt: -1}
	start := Elem{Kind: "start_output"}
	if rapid.IntRange(0, 3).Draw(t, "oddStart") == 0 {
		v := gen.Hostile(1).Draw(t, "startValue")
		start.Payload = &v
	}
	sc.Elems = append(sc.Elems, start)
	runs := []string{"r1", "r11", "r2"} // one ID is a prefix of another
	gateN := 0
	n := rapid.IntRange(1, 8).Draw(t, "nElems")
	for i := 0; i < n; i++ {
		switch rapid.IntRange(0, 11).Draw(t, "elemKind") {
		case 0, 1, 2, 3, 4:
			e := Elem{Kind: "work_start", Run: rapid.SampledFrom(runs).Draw(t, "run"), Step: rapid.SampledFrom([]string{"do", "do", "plain"}).Draw(t, "step"),
				Behaviour: rapid.SampledFrom([]string{"success", "success", "error_output", "undeclared", "invalid_data", "panic"}).Draw(t, "behaviour")}
			if rapid.IntRange(0, 2).Draw(t, "gated") == 0 {
				gateN++
				e.Gate = fmt.Sprintf("g%d", gateN)
			}
			switch rapid.IntRange(0, 9).Draw(t, "workStartFault") {
			case 0:
				e.Step = "no-such-step"
			case 1:
				e.Run = ""
			case 2:
				e.Step = ""
			case 3:
				e.Step = "<payload>"
				v := rapid.SampledFrom([]val.V{val.Str("not a map"), val.Int("int64", 5), {T: "[]any"}, val.Nil()}).Draw(t, "badPayload")
				e.Payload = &v
			case 4:
				v := gen.Hostile(1).Draw(t, "badInput")
				e.Payload = &v
			case 5:
				e.Extra = true
			}
			sc.Elems = append(sc.Elems, e)
			// often followed by a signal addressed to this very run - whatever became of its work-start (rejected
			// input, unknown step, still gated, already finished)
			if rapid.IntRange(0, 2).Draw(t, "followUpSignal") == 0 {
				f := Elem{Kind: "signal", Run: e.Run, Signal: rapid.SampledFrom([]string{"poke", "poke", "poke", "no-such-signal"}).Draw(t, "followSignal")}
				if rapid.IntRange(0, 4).Draw(t, "badFollowData") == 0 {
					v := gen.Hostile(1).Draw(t, "followData")
					f.Payload = &v
				}
				sc.Elems = append(sc.Elems, f)
				if rapid.IntRange(0, 3).Draw(t, "followTwice") == 0 {
					sc.Elems = append(sc.Elems, f)
				}
			}
		case 5, 6:
			e := Elem{Kind: "signal", Run: rapid.SampledFrom(append(runs, "never-started", "")).Draw(t, "sigRun"), Signal: rapid.SampledFrom([]string{"poke", "poke", "no-such-signal", "<payload>"}).Draw(t, "signal")}
			if rapid.IntRange(0, 3).Draw(t, "badSignalData") == 0 {
				v := gen.Hostile(1).Draw(t, "sigData")
				e.Payload = &v
			}
			sc.Elems = append(sc.Elems, e)
		case 7:
			sc.Elems = append(sc.Elems, Elem{Kind: "unknown_msg", Run: rapid.SampledFrom(runs).Draw(t, "run")})
		case 8:
			sc.Elems = append(sc.Elems, Elem{Kind: "raw", Raw: rapid.SampledFrom(malformed).Draw(t, "malformed")})
		case 9:
			if gateN > 0 {
				sc.Elems = append(sc.Elems, Elem{Kind: "open_gate", Gate: fmt.Sprintf("g%d", rapid.IntRange(1, gateN).Draw(t, "gate"))})
			}
		case 10:
			sc.Elems = append(sc.Elems, Elem{Kind: "client_done"})
		case 11:
			if rapid.Bool().Draw(t, "textNotUTF8") {
				// a proper work-start or signal frame in which one text string (the run ID, the step / signal ID) is
				// not valid UTF-8: well-formed CBOR framing, but no valid CBOR text - a conforming peer cannot decode it
				run := rapid.SampledFrom(runs).Draw(t, "run")
				frame := atpx.WorkStart(run, "do", atpx.StepConfig("success", "", run))
				if rapid.Bool().Draw(t, "badTextInSignal") {
					frame = atpx.Signal(run, "poke", map[string]any{"x": int64(1)})
				}
				victim := rapid.SampledFrom([]string{run, "do", "poke", "run_id"}).Draw(t, "badTextWhere")
				if i := bytes.Index(frame, []byte(victim)); i >= 0 {
					frame = append([]byte(nil), frame...)
					frame[i] = 0xff
					if len(victim) > 1 {
						frame[i+1] = 0xfe
					}
					sc.Elems = append(sc.Elems, Elem{Kind: "raw", Raw: frame})
					ev.Class("frame_with_text_not_utf8", 1)
					break
				}
			}
			sc.Elems = append(sc.Elems, Elem{Kind: "raw", Raw: atpx.StartOutput(rapid.SampledFrom([]any{int64(1), "x", []any{}, map[string]any{"id": "one"}}).Draw(t, "validNonMessage"))})
		}
	}
	if rapid.IntRange(0, 2).Draw(t, "endDone") == 0 {
		sc.Elems = append(sc.Elems, Elem{Kind: "client_done"})
	}
	sc.EndWithError = rapid.IntRange(0, 4).Draw(t, "endErr") == 0
	sc.GatesLate = rapid.Bool().Draw(t, "gatesLate")
	sc.Frag = rapid.SampledFrom([]int{0, 0, 1, 3, 7}).Draw(t, "frag")
	sc.Coalesce = sc.Frag == 0 && rapid.Bool().Draw(t, "coalesce")
	return sc
}

func scriptLen(sc Script) int {
	n := 0
	for _, e := range sc.Elems {
		n += len(e.bytes())
	}
	return n
}

func TestScripts(t *testing.T) {
	w := sup.NewWorker("c07")
	defer w.Close()
	stride := ev.N(3, 1)
	ev.Check(t, "scripts", 25, 400, func(rt *rapid.T) {
		sc := normalise(genScript(rt))
		total := scriptLen(sc)
		run := func(s Script, label string) {
			msg, outcome := judge(w, s)
			ex := expect(s)
			nontrivial := ex.accepted >= 1 && ex.abnormal >= 1
			scj, _ := json.Marshal(s.Elems)
			ev.Case(ev.FP(string(scj), s.Trunc, s.FailOutAt, s.GatesLate, s.EndWithError), nontrivial, "run:"+label+":"+outcome, "outcome:"+outcome)
			if nontrivial && ev.WantSample(label) {
				ev.Sample(label, s)
			}
			if msg != "" {
				ev.Fail(rt, "script", s, "%s", msg)
			}
		}
		run(sc, "whole_script")
		// every byte offset is a truncation point (quick: every 3rd offset starting at a generated phase)
		phase := rapid.IntRange(0, stride-1).Draw(rt, "phase")
		for k := phase; k < total; k += stride {
			s := sc
			s.Trunc = k
			run(s, "truncated")
		}
		// output failing at a generated offset
		for i := 0; i < 3; i++ {
			s := sc
			s.FailOutAt = rapid.IntRange(0, 600).Draw(rt, "failOutAt")
			run(s, "output_fails")
		}
	})
}
