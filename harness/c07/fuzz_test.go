package c07

import (
	"encoding/json"
	"testing"

	"verif/harness/atpx"
	"verif/harness/ev"
)

// FuzzServerInput: coverage-guided search over the raw bytes of the server's input stream. The bytes are the whole
// client side of a session (start-output value included); the reference reading and the oracle are those of
// TestScripts (process survives, RunATPServer returns, one terminal message per work-start read, problems reported).
// Gated behaviours are not reachable from raw bytes except through a step input that names a gate; all gates are
// opened when the input ends.
func FuzzServerInput(f *testing.F) {
	ws := func(run, step, behaviour string) []byte { return atpx.WorkStart(run, step, atpx.StepConfig(behaviour, "", run)) }
	cat := func(parts ...[]byte) []byte {
		var out []byte
		for _, p := range parts {
			out = append(out, p...)
		}
		return out
	}
	start := atpx.StartOutput(nil)
	f.Add(cat(start, ws("r1", "do", "success"), atpx.ClientDone()), uint8(0), false)
	f.Add(cat(start, ws("r1", "do", "panic"), ws("r2", "plain", "undeclared"), atpx.Signal("r1", "poke", map[string]any{"x": int64(1)}), atpx.ClientDone()), uint8(3), false)
	f.Add(cat(start, ws("r1", "do", "invalid_data"), ws("r1", "do", "error_output")), uint8(0), true)
	f.Add(cat(start, atpx.WorkStart("r1", "do", "not a map"), atpx.Signal("r1", "poke", map[string]any{"x": int64(1)}), atpx.Signal("zz", "nope", nil), atpx.Runtime(77, "r1", map[string]any{})), uint8(1), false)
	f.Add(cat(start, ws("r1", "no-such-step", "success"), ws("", "do", "success"), []byte{0xa0}, atpx.ClientDone()), uint8(7), false)
	f.Add(cat(start, atpx.WorkStart("r9", "do", atpx.StepConfig("success", "g1", "r9")), atpx.ClientDone()), uint8(0), false)
	f.Fuzz(func(t *testing.T, data []byte, frag uint8, endErr bool) {
		if len(data) > 2048 {
			return
		}
		sc := normalise(Script{Elems: []Elem{{Kind: "raw", Raw: data}}, Trunc: -1, FailOutAt: -1, EndWithError: endErr, Frag: int(frag % 16)})
		if ev.FuzzConvert("script", sc) {
			return
		}
		b, err := json.Marshal(sc)
		if err != nil {
			return
		}
		msg, outcome := assess(sc, workerFn(b))
		ex := expect(sc)
		ev.Case(ev.FP("fuzz", data, frag, endErr), ex.accepted >= 1, "fuzz_outcome:"+outcome)
		if msg != "" {
			ev.Fail(t, "script", sc, "%s", msg)
		}
	})
}
