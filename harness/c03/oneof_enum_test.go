package c03

import (
	"fmt"
	"testing"

	"go.flow.arcalot.io/pluginsdk/schema"
	"verif/harness/ev"
	"verif/harness/model"
	"verif/harness/oracle"
	"verif/harness/spec"
	"verif/harness/val"
)

// oneOfGrid builds one one-of schema per (key kind, inlining, member form, key set).
func oneOfGrid() []*spec.Spec {
	var out []*spec.Spec
	str, integer := &spec.Spec{Kind: spec.KString}, &spec.Spec{Kind: spec.KInt}
	for _, kind := range []string{spec.KOneOfS, spec.KOneOfI} {
		for _, inlined := range []bool{false, true} {
			for _, form := range []string{"map", "struct"} {
				for ks := 0; ks < 3; ks++ {
					keysS := [][]string{{"", "b"}, {"a", "b"}, {"2", "10"}}[ks]
					keysI := [][]int64{{0, 2}, {1, 2}, {-1, 1 << 40}}[ks]
					disc := "_type"
					if form == "struct" {
						disc = "k"
						if kind == spec.KOneOfI {
							disc = "ki"
						}
					}
					a := &spec.Spec{Kind: spec.KObject, ID: "A", Props: []spec.Prop{{Name: "a", Type: integer, Required: true}}}
					b := &spec.Spec{Kind: spec.KObject, ID: "B", Props: []spec.Prop{{Name: "b", Type: str}}}
					if form == "struct" {
						a.ID, a.Struct = "AltA", "AltA"
						b.ID, b.Struct = "AltB", "*AltB"
					}
					if inlined {
						dt := str
						if kind == spec.KOneOfI {
							dt = integer
						}
						a.Props = append(a.Props, spec.Prop{Name: disc, Type: dt, Required: true})
						b.Props = append(b.Props, spec.Prop{Name: disc, Type: dt})
					}
					s := &spec.Spec{Kind: kind, Discriminator: disc, Inlined: inlined}
					if kind == spec.KOneOfS {
						s.Members = []spec.Member{{KeyS: keysS[0], Type: a}, {KeyS: keysS[1], Type: b}}
					} else {
						s.Members = []spec.Member{{KeyI: keysI[0], Type: a}, {KeyI: keysI[1], Type: b}}
					}
					out = append(out, s)
					if inlined && form == "map" && kind == spec.KOneOfS && keysS[0] != "" {
						// the members' own discriminator properties as enums (plain, and over a named string type)
						for _, ek := range []string{spec.KEnumS, spec.KTypedEnumS} {
							a2, b2 := *a, *b
							a2.Props = append([]spec.Prop(nil), a.Props...)
							b2.Props = append([]spec.Prop(nil), b.Props...)
							a2.Props[len(a2.Props)-1].Type = &spec.Spec{Kind: ek, Enum: []spec.EnumVal{{S: keysS[0]}}}
							b2.Props[len(b2.Props)-1].Type = &spec.Spec{Kind: ek, Enum: []spec.EnumVal{{S: keysS[1]}}}
							out = append(out, &spec.Spec{Kind: kind, Discriminator: disc, Inlined: true, Members: []spec.Member{{KeyS: keysS[0], Type: &a2}, {KeyS: keysS[1], Type: &b2}}})
						}
					}
				}
			}
		}
	}
	return out
}

// discriminatorReps lists the representations a decoder may hand over for a member key, plus values that select nothing.
func discriminatorReps(s *spec.Spec, m spec.Member) []val.V {
	if s.Kind == spec.KOneOfS {
		return []val.V{val.Str(m.KeyS), {T: "mystr", S: m.KeyS}, val.Str(m.KeyS + "_unknown"), val.Nil(), val.Bool(true), val.Int("int64", 2), {T: "[]any"}}
	}
	k := m.KeyI
	out := []val.V{val.Int("int64", k), val.Int("int", k), val.Float("float64", float64(k)), val.Str(fmt.Sprint(k)), val.Int("int64", k+77), val.Nil(), val.Bool(false), val.Str("x"), {T: "map[string]any"}}
	if k >= 0 {
		out = append(out, val.Uint("uint64", uint64(k)), val.Uint("uint8", uint64(k%256)))
	}
	if k > -100 && k < 100 {
		out = append(out, val.Int("int8", k), val.Float("float32", float64(k)))
	}
	return out
}

// TestEnumOneOf: every one-of shape of the grid x every discriminator representation x payloads for the right
// member, the other member and neither x both raw map types. Dispatch is judged against the reference interpreter in
// both directions; an accepted value must then be accepted by Validate and Serialize as well (the statement's "the
// same dispatch rules apply to native values") and serialize to a form that denotes the same value.
func TestEnumOneOf(t *testing.T) {
	if ev.Replaying() {
		t.Skip()
	}
	idx := 0
	payloads := [][]val.KV{
		{{K: val.Str("a"), V: val.Int("int64", 7)}},
		{{K: val.Str("b"), V: val.Str("x")}},
		{},
		{{K: val.Str("a"), V: val.Str("not a number")}},
		{{K: val.Str("a"), V: val.Int("int64", 7)}, {K: val.Str("zz_undeclared"), V: val.Int("int64", 1)}},
	}
	for si, s := range oneOfGrid() {
		sch, err := spec.Build(s)
		if err != nil {
			t.Fatalf("harness bug: one-of grid schema %d does not build: %v\n%s", si, err, oracle.SpecJSON(s))
		}
		for mi, m := range s.Members {
			for di, d := range discriminatorReps(s, m) {
				for pi, pl := range payloads {
					for _, withDisc := range []bool{true, false} {
						for _, mt := range []string{"map[string]any", "map[any]any"} {
							idx++
							if !ev.Mine(idx) {
								continue
							}
							kvs := append([]val.KV(nil), pl...)
							if withDisc {
								kvs = append(kvs, val.KV{K: val.Str(s.Discriminator), V: d})
							}
							c := oracle.Case{Spec: s, Raw: val.V{T: mt, M: kvs}, Note: "oneof grid"}
							msg, class := runOneOfCase(sch, c)
							ev.Case(ev.FP("oneof", si, mi, di, pi, withDisc, mt), true, "oneof_grid:"+class, fmt.Sprintf("oneof_grid_shape:%s/inlined=%v/struct=%v", s.Kind, s.Inlined, m.Type.Struct != ""))
							if msg != "" {
								ev.Fail(t, "oneof", c, "%s\nschema: %s", msg, oracle.SpecJSON(s))
							}
						}
					}
				}
			}
		}
	}
	ev.Exhaustive("one-of dispatch grid: {string,int} keys x inlined/non-inlined x map/struct members x 3 key sets (incl. the zero-value key) x every discriminator representation x 5 payloads x discriminator present/absent x both raw map types")
}

// runOneOfCase judges one raw input: dispatch against the reference interpreter, then native agreement.
func runOneOfCase(sch schema.Type, c oracle.Case) (string, string) {
	if sch == nil {
		var err error
		if sch, err = spec.Build(c.Spec); err != nil {
			return "", "build_error"
		}
	}
	s := c.Spec
	msg, class, mv, got := oracle.UnserializeWith(sch, c)
	if msg != "" || class != "accept" {
		return msg, class
	}
	var verr, serr error
	var ser any
	if p := oracle.Safely(func() { verr = sch.Validate(got); ser, serr = sch.Serialize(got) }); p != nil {
		return "", class // totality is C04's concern
	}
	if verr != nil || serr != nil {
		return fmt.Sprintf("Unserialize(%s) = %#v, but the same value is refused in native form: Validate = %v, Serialize error = %v", c.Raw, got, verr, serr), class
	}
	back, bv := model.Denote(s, nil, ser)
	if bv == model.Reject || (bv == model.Accept && model.Match(s, nil, back, got) != "") {
		return fmt.Sprintf("Serialize(%#v) = %#v, which does not denote the value again (reference reading: %#v, verdict %v; expected %#v)", got, ser, back, bv, mv), class
	}
	return "", class
}
