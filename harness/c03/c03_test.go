package c03

import (
	"encoding/json"
	"fmt"
	"testing"

	"pgregory.net/rapid"
	"verif/harness/ev"
	"verif/harness/gen"
	"verif/harness/model"
	"verif/harness/oracle"
	"verif/harness/spec"
	"verif/harness/val"
)

func TestMain(m *testing.M) {
	ev.Note("rule", "C03: (a) enumeration of small objects: every combination of per-property flags (required, required_if / required_if_not / conflicts towards the other properties, default none/valid/empty-valued, disabled) x every subset of supplied properties x {map-based, struct-mapped with pointer fields, struct-mapped with value fields where the documented precondition allows it}: exhaustive for 1 and 2 properties, a reduced flag grid for 3; each case is judged on Unserialize (raw) and on Validate/Serialize (native value built from the same presence set). (b) rapid-generated nested objects and one-of schemas (int/string keys, inlined or not, object/ref/scope members, map or struct members) with valid-by-construction inputs and raw mutations of them: dropped/added/undeclared/non-string keys, nil values, disabled properties supplied, unknown/missing/mistyped/numeric-string discriminators, shorthand for single- and multi-property objects. (c) a complete one-of dispatch grid: {string,int} keys x inlined/non-inlined x map/struct members x key sets incl. the zero-value key x every discriminator representation x payloads for the right / other / no member x both raw map types, each accepted value then also checked in native form (Validate, Serialize, re-denotation). Oracle: reference interpreter (key check, per-property denotation, defaulting incl. the documented sub-object default propagation, presence rules after defaulting, disabled-in-use, shorthand, discriminator dispatch with strip/keep) in both directions, result compared with the denoted value. Non-trivial: a presence rule or default is decisive (flipping one supplied bit changes the verdict) or the input is a mutation / shorthand / converted discriminator; distinct by (schema, input).")
	ev.RegisterReplay("unserialize", func(t *testing.T, raw json.RawMessage) {
		var c oracle.Case
		if err := json.Unmarshal(raw, &c); err != nil {
			t.Fatal(err)
		}
		if msg, _, _, _ := oracle.Unserialize(c); msg != "" {
			t.Fatal(msg)
		}
	})
	ev.RegisterReplay("oneof", func(t *testing.T, raw json.RawMessage) {
		var c oracle.Case
		if err := json.Unmarshal(raw, &c); err != nil {
			t.Fatal(err)
		}
		if msg, _ := runOneOfCase(nil, c); msg != "" {
			t.Fatal(msg)
		}
	})
	ev.RegisterReplay("native", func(t *testing.T, raw json.RawMessage) {
		var c nativeCase
		if err := json.Unmarshal(raw, &c); err != nil {
			t.Fatal(err)
		}
		if msg := runNative(c); msg != "" {
			t.Fatal(msg)
		}
	})
	ev.Main(m, "C03")
}

func TestReplay(t *testing.T) { ev.RunReplay(t) }

// nativeCase: the native value is built from the model map denoted by Raw under the loose reading of the spec.
type nativeCase struct {
	Spec    *spec.Spec       `json:"spec"`
	Present map[string]val.V `json:"present"` // property -> canonical raw of its value
}

func runNative(c nativeCase) string {
	sch, err := spec.Build(c.Spec)
	if err != nil {
		return ""
	}
	o, env := model.Resolve(c.Spec, nil)
	m := map[string]any{}
	for k, v := range c.Present {
		p := o.PropByName(k)
		if p == nil {
			m[k] = v.Go()
			continue
		}
		mv, verdict := model.Denote(loose(p.Type), env, v.Go())
		if verdict != model.Accept {
			return ""
		}
		m[k] = mv
	}
	msg, _ := oracle.NativeObject(sch, c.Spec, m)
	return msg
}

func loose(s *spec.Spec) *spec.Spec {
	c := *s
	c.Min, c.Max, c.FMin, c.FMax, c.Pattern, c.Units = nil, nil, nil, nil, nil, nil
	return &c
}

// ---------------------------------------------------------------------------------------------------------------
// (a) enumeration

type propShape struct {
	required bool
	rule     int // index into rules
	def      int // 0 none, 1 valid non-empty, 2 empty-valued
	disabled bool
}

// ruleSpec is one combination of presence rules on a property; each list holds relative indices of other
// properties (0 = next, 1 = next after that). A property may carry several kinds of rule at once.
type ruleSpec struct {
	rif, rifn, conf []int
}

var form = []struct {
	name   string
	strct  string
	props  []string
	kinds  []string
	values []val.V
	defs   [][2]string // valid non-empty default, empty-valued default
}{
	{"map", "", []string{"pi", "ps", "pb"}, []string{spec.KInt, spec.KString, spec.KBool}, []val.V{val.Int("int64", 7), val.Str("x"), val.Bool(true)}, [][2]string{{"5", "0"}, {`"d"`, `""`}, {"true", "false"}}},
	{"struct_ptr", "*Leaf", []string{"pi", "ps", "pb"}, []string{spec.KInt, spec.KString, spec.KBool}, []val.V{val.Int("int64", 7), val.Str("x"), val.Bool(true)}, [][2]string{{"5", "0"}, {`"d"`, `""`}, {"true", "false"}}},
	{"struct_value", "Leaf", []string{"i", "s", "b"}, []string{spec.KInt, spec.KString, spec.KBool}, []val.V{val.Int("int64", 7), val.Str("x"), val.Bool(true)}, [][2]string{{"5", "0"}, {`"d"`, `""`}, {"true", "false"}}},
}

func others(n, i int) []int {
	var o []int
	for j := 0; j < n; j++ {
		if j != i {
			o = append(o, j)
		}
	}
	return o
}

func buildObject(f int, shapes []propShape, rules []ruleSpec) (*spec.Spec, bool) {
	fm := form[f]
	n := len(shapes)
	o := &spec.Spec{Kind: spec.KObject, ID: "Obj", Struct: fm.strct}
	for i, sh := range shapes {
		p := spec.Prop{Name: fm.props[i], Type: &spec.Spec{Kind: fm.kinds[i]}, Required: sh.required, Disabled: sh.disabled}
		r := rules[sh.rule]
		oth := others(n, i)
		ok := true
		resolve := func(targets []int) []string {
			var names []string
			for _, t := range targets {
				if t < len(oth) {
					names = append(names, fm.props[oth[t]])
				} else {
					ok = false
				}
			}
			return names
		}
		p.RequiredIf, p.RequiredIfNot, p.Conflicts = resolve(r.rif), resolve(r.rifn), resolve(r.conf)
		if !ok {
			return nil, false
		}
		switch sh.def {
		case 1:
			p.Default = spec.P(fm.defs[i][0])
		case 2:
			p.Default = spec.P(fm.defs[i][1])
		}
		o.Props = append(o.Props, p)
	}
	if fm.name == "struct_value" {
		// documented precondition for fields that cannot express absence
		for i := range o.Props {
			p := &o.Props[i]
			inRule := len(p.RequiredIf)+len(p.RequiredIfNot)+len(p.Conflicts) > 0
			for j := range o.Props {
				if j == i {
					continue
				}
				for _, l := range [][]string{o.Props[j].RequiredIf, o.Props[j].RequiredIfNot, o.Props[j].Conflicts} {
					for _, x := range l {
						if x == p.Name {
							inRule = true
						}
					}
				}
			}
			alwaysPresent := (p.Required || p.Default != nil) && !p.Disabled
			if !alwaysPresent && (inRule || p.Disabled) {
				return nil, false
			}
			if alwaysPresent && p.Disabled {
				return nil, false
			}
		}
	}
	return o, true
}

func enumerate(t *testing.T, n int, shapesPerProp []propShape, rules []ruleSpec, label string) {
	idx := 0
	total := 1
	for i := 0; i < n; i++ {
		total *= len(shapesPerProp)
	}
	pruned := 0
	for f := range form {
		for code := 0; code < total; code++ {
			shapes := make([]propShape, n)
			c := code
			for i := 0; i < n; i++ {
				shapes[i] = shapesPerProp[c%len(shapesPerProp)]
				c /= len(shapesPerProp)
			}
			o, ok := buildObject(f, shapes, rules)
			if !ok {
				pruned++
				continue
			}
			idx++
			if !ev.Mine(idx) {
				continue
			}
			sch, err := spec.Build(o)
			if err != nil {
				t.Fatalf("harness bug: cannot build %s: %v", oracle.SpecJSON(o), err)
			}
			verdicts := make([]string, 1<<n)
			for sub := 0; sub < 1<<n; sub++ {
				var kvs []val.KV
				present := map[string]val.V{}
				for i := 0; i < n; i++ {
					if sub&(1<<i) != 0 {
						kvs = append(kvs, val.KV{K: val.Str(form[f].props[i]), V: form[f].values[i]})
						present[form[f].props[i]] = form[f].values[i]
					}
				}
				mt := "map[string]any"
				if (sub+code)%2 == 1 {
					mt = "map[any]any"
				}
				cs := oracle.Case{Spec: o, Raw: val.V{T: mt, M: kvs}}
				msg, class, _, _ := oracle.UnserializeWith(sch, cs)
				verdicts[sub] = class
				if msg != "" {
					ev.Fail(t, "unserialize", cs, "%s\nschema: %s", msg, oracle.SpecJSON(o))
				}
				nc := nativeCase{Spec: o, Present: present}
				nmsg, ncls := oracle.NativeObject(sch, o, denoteAll(o, present))
				ev.Case(ev.FP("native", form[f].name, n, code, sub), true, "enum_native:"+ncls)
				if nmsg != "" {
					ev.Fail(t, "native", nc, "%s\nschema: %s", nmsg, oracle.SpecJSON(o))
				}
			}
			// lone non-map values: the shorthand for the single property of a one-property object - and nothing else
			// (every flag of that property applies on this route too: disabled, bounds, ...)
			for i := 0; i < n; i++ {
				for _, lone := range []val.V{form[f].values[i], val.Str("lone"), val.Nil()} {
					cs := oracle.Case{Spec: o, Raw: lone, Note: "lone value"}
					msg, class, _, _ := oracle.UnserializeWith(sch, cs)
					ev.Case(ev.FP("lone", form[f].name, n, code, i, lone.String()), true, "enum_lone_value:"+class)
					if msg != "" {
						ev.Fail(t, "unserialize", cs, "%s\nschema: %s", msg, oracle.SpecJSON(o))
					}
				}
			}
			// decisive = flipping one supplied bit changes the verdict
			for sub := 0; sub < 1<<n; sub++ {
				decisive := false
				for i := 0; i < n; i++ {
					if verdicts[sub] != verdicts[sub^(1<<i)] {
						decisive = true
					}
				}
				ev.Case(ev.FP("enum", form[f].name, n, code, sub), decisive, "enum_"+form[f].name+":"+verdicts[sub])
			}
			if idx%5000 == 1 {
				ev.Sample("enum_object", o)
			}
		}
	}
	if sh, _ := ev.Shard(); sh == 0 {
		ev.Class("enum_pruned_by_struct_precondition:"+label, int64(pruned))
	}
	ev.Exhaustive(label)
}

func denoteAll(o *spec.Spec, present map[string]val.V) map[string]any {
	m := map[string]any{}
	for k, v := range present {
		p := o.PropByName(k)
		mv, _ := model.Denote(p.Type, nil, v.Go())
		m[k] = mv
	}
	return m
}

func allShapes(nRules int, defs []int, disabled []bool) []propShape {
	var out []propShape
	for _, req := range []bool{false, true} {
		for r := 0; r < nRules; r++ {
			for _, d := range defs {
				for _, dis := range disabled {
					out = append(out, propShape{req, r, d, dis})
				}
			}
		}
	}
	return out
}

func TestEnumObjects12(t *testing.T) {
	if ev.Replaying() {
		t.Skip()
	}
	rules1 := []ruleSpec{{}}
	enumerate(t, 1, allShapes(1, []int{0, 1, 2}, []bool{false, true}), rules1, "objects with 1 property: all flag combinations x supplied subsets x 3 mappings")
	// every subset of the three rule kinds, each pointing at the other property
	var rules2 []ruleSpec
	for m := 0; m < 8; m++ {
		var r ruleSpec
		if m&1 != 0 {
			r.rif = []int{0}
		}
		if m&2 != 0 {
			r.rifn = []int{0}
		}
		if m&4 != 0 {
			r.conf = []int{0}
		}
		rules2 = append(rules2, r)
	}
	enumerate(t, 2, allShapes(len(rules2), []int{0, 1, 2}, []bool{false, true}), rules2, "objects with 2 properties: all flag combinations x supplied subsets x 3 mappings")
}

func TestEnumObjects3(t *testing.T) {
	if ev.Replaying() {
		t.Skip()
	}
	rules3 := []ruleSpec{{}, {rif: []int{0}}, {rif: []int{0, 1}}, {rifn: []int{0}}, {rifn: []int{0, 1}}, {conf: []int{1}}, {conf: []int{0, 1}},
		// several kinds of rule on one property
		{rif: []int{0}, rifn: []int{1}}, {rif: []int{0}, rifn: []int{0}}, {rif: []int{1}, conf: []int{0}}, {rifn: []int{0}, conf: []int{1}}, {rif: []int{0}, rifn: []int{1}, conf: []int{0, 1}}}
	enumerate(t, 3, allShapes(len(rules3), []int{0, 1}, []bool{false}), rules3, "objects with 3 properties: reduced flag grid (12 rule shapes incl. several rule kinds on one property, default none/valid, not disabled) x supplied subsets x 3 mappings")
}

// ---------------------------------------------------------------------------------------------------------------
// (b) generated

func objOpts(depth int) gen.Opts {
	o := gen.Full(depth)
	return o
}

func TestGenObjects(t *testing.T) {
	depth := ev.N(3, 4)
	ev.Check(t, "objects", 4000, 60000, func(rt *rapid.T) {
		o := objOpts(depth)
		s := gen.Spec(o).Draw(rt, "spec")
		gen.AddDefaults(rt, s, o)
		mv, ok := gen.ValueFor(rt, s, nil, 4)
		if !ok {
			rt.Skip("no valid value")
		}
		r := gen.Render(rt, s, nil, mv)
		raw := r.V
		cls := "valid"
		nontrivial := r.NonCanonical
		if rapid.IntRange(0, 2).Draw(rt, "mutate") != 0 {
			m, what := gen.MutateRaw(rt, raw)
			if what != "" {
				raw, cls, nontrivial = m, "mut:"+what, true
			}
		}
		c := oracle.Case{Spec: s, Raw: raw, Note: cls}
		msg, class, _, _ := oracle.Unserialize(c)
		kinds := spec.Kinds(s)
		classes := []string{"gen:" + cls + ":" + class, "gen_verdict:" + class}
		if kinds[spec.KOneOfI] || kinds[spec.KOneOfS] {
			classes = append(classes, "gen_with_oneof:"+class)
		}
		structs := false
		spec.Walk(s, func(n *spec.Spec) {
			if n.Struct != "" {
				structs = true
			}
		})
		if structs {
			classes = append(classes, "gen_with_struct:"+class)
		}
		ev.Case(ev.FP(oracle.SpecJSON(s), raw.String()), nontrivial && (class == "accept" || class == "reject"), classes...)
		if nontrivial && ev.WantSample("gen_"+cls) {
			ev.Sample("gen_"+cls, c)
		}
		if msg != "" {
			ev.Fail(rt, "unserialize", c, "%s\nschema: %s", msg, oracle.SpecJSON(s))
		}
	})
}

// TestGenNativeObjects: map-based objects and one-of values in native form (presence expressed by map keys).
func TestGenNativeObjects(t *testing.T) {
	ev.Check(t, "native", 3000, 40000, func(rt *rapid.T) {
		o := objOpts(2)
		o.Structs = false
		o.Refs = false
		o.Defaults = false
		s := gen.Spec(o).Draw(rt, "spec")
		root, env := model.Resolve(s, nil)
		if root == nil || root.Kind != spec.KObject {
			rt.Skip("root is not an object")
		}
		mv, ok := gen.ValueFor(rt, s, nil, 3)
		if !ok {
			rt.Skip("no valid value")
		}
		m := mv.(map[string]any)
		// model map -> canonical raw per property; optionally drop / add one
		present := map[string]val.V{}
		for k, v := range m {
			p := root.PropByName(k)
			if p == nil {
				continue
			}
			present[k] = gen.RenderCanonical(rt, p.Type, env, v)
		}
		what := "as_generated"
		switch rapid.IntRange(0, 3).Draw(rt, "nativeMut") {
		case 0:
			if len(present) > 0 {
				var ks []string
				for k := range present {
					ks = append(ks, k)
				}
				for i := 1; i < len(ks); i++ {
					for j := i; j > 0 && ks[j] < ks[j-1]; j-- {
						ks[j], ks[j-1] = ks[j-1], ks[j]
					}
				}
				delete(present, rapid.SampledFrom(ks).Draw(rt, "dropProp"))
				what = "dropped"
			}
		case 1:
			for i := range root.Props {
				p := &root.Props[i]
				if _, has := present[p.Name]; !has && !p.Disabled {
					if v, ok := gen.ValueFor(rt, p.Type, env, 2); ok {
						present[p.Name] = gen.RenderCanonical(rt, p.Type, env, v)
						what = "added"
						break
					}
				}
			}
		case 2:
			present["zz_undeclared"] = val.Int("int64", 1)
			what = "undeclared"
		}
		// only flat property types can be rebuilt from the canonical raw by the loose reading
		for k := range present {
			if p := root.PropByName(k); p != nil {
				switch p.Type.Kind {
				case spec.KObject, spec.KRef, spec.KScope, spec.KOneOfI, spec.KOneOfS, spec.KList, spec.KMap, spec.KEnumI, spec.KEnumS, spec.KTypedEnumS:
					rt.Skip("nested property type")
				}
			}
		}
		nc := nativeCase{Spec: s, Present: present}
		msg := runNative(nc)
		ev.Case(ev.FP("gennative", oracle.SpecJSON(s), fmt.Sprint(present)), what != "as_generated", "gen_native:"+what)
		if ev.WantSample("gen_native_" + what) {
			ev.Sample("gen_native_"+what, nc)
		}
		if msg != "" {
			ev.Fail(rt, "native", nc, "%s\nschema: %s", msg, oracle.SpecJSON(s))
		}
	})
}
