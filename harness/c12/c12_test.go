package c12

import (
	"encoding/json"
	"fmt"
	"reflect"
	"regexp"
	"testing"

	"go.flow.arcalot.io/pluginsdk/schema"
	"pgregory.net/rapid"
	"verif/harness/ev"
	"verif/harness/gen"
	"verif/harness/oracle"
	"verif/harness/spec"
	"verif/harness/val"
)

func TestMain(m *testing.M) {
	ev.Note("rule", "C12: rapid state machine over one schema instance built from a generated description (all kinds; defaults incl. defaults of nested by-value members, enums, one-of, maps, units): actions Unserialize / Validate / Serialize / data-mode and schema-mode ValidateCompatibility with valid, hostile and near-valid arguments (the previous result with exactly one leaf spoiled, so that the call fails deep inside), and 'scramble the previous result in place'. Every call is evaluated 12 times (Go re-randomises each map range): error-ness must be identical and results Equal; the argument is deep-copied before and must be Equal after; after every step the schema's self-description and the GetDefaults() of each of its objects must equal the snapshots taken before the history, and a fixed probe set of inputs must give results Equal to those of a freshly built instance of the same description. Non-trivial: the history contains an erroring call and a default-filling call, or an argument with a map of >= 2 entries; distinct by (schema, history).")
	ev.RegisterReplay("history", func(t *testing.T, raw json.RawMessage) {
		var h History
		if err := json.Unmarshal(raw, &h); err != nil {
			t.Fatal(err)
		}
		if msg := replay(h); msg != "" {
			t.Fatal(msg)
		}
	})
	ev.Main(m, "C12")
}

func TestReplay(t *testing.T) { ev.RunReplay(t) }

// History is the replayable description of one state-machine run.
type History struct {
	Spec   *spec.Spec `json:"spec"`
	Probes []val.V    `json:"probes"`
	Steps  []Step     `json:"steps"`
}

type Step struct {
	Op    string     `json:"op"` // unserialize, validate_of, serialize_of, validate_raw, serialize_raw, compat_data, compat_schema, scramble
	Arg   val.V      `json:"arg"`
	Other *spec.Spec `json:"other,omitempty"`
	K     int        `json:"k,omitempty"` // validate_spoiled / serialize_spoiled: which leaf of the last result is spoiled
}

type machine struct {
	s        *spec.Spec
	sch      schema.Type
	baseDesc any
	baseDefs []any
	probes   []val.V
	initial  []probeOutcome // what each probe gave on this very instance before the history started
	natives  []any          // native probes: the probes' results, and copies with one leaf spoiled / one member absent
	natInit  []nativeOutcome
	last     any            // last successful Unserialize result (a native value)
}

type probeOutcome struct {
	res      any
	err      bool
	panicked bool
}

func probe(sch schema.Type, p val.V) probeOutcome {
	var o probeOutcome
	var err error
	o.panicked = oracle.Safely(func() { o.res, err = sch.Unserialize(p.Go()) }) != nil
	o.err = err != nil
	return o
}

// nativeOutcome is what Validate and Serialize make of a native probe.
type nativeOutcome struct {
	vErr, vPanic, sErr, sPanic bool
	ser                        any
}

func probeNative(sch schema.Type, x any) nativeOutcome {
	var o nativeOutcome
	var err error
	o.vPanic = oracle.Safely(func() { err = sch.Validate(val.DeepCopy(x)) }) != nil
	o.vErr = err != nil
	err = nil
	o.sPanic = oracle.Safely(func() { o.ser, err = sch.Serialize(val.DeepCopy(x)) }) != nil
	o.sErr = err != nil
	return o
}

func (a nativeOutcome) differs(b nativeOutcome) bool {
	return a.vErr != b.vErr || a.vPanic != b.vPanic || a.sErr != b.sErr || a.sPanic != b.sPanic || (!a.sErr && !a.sPanic && !val.Equal(a.ser, b.ser, val.Opts{}))
}

// nativeProbes derives native probes from a successful result: the result itself, then alternately a copy with one
// leaf spoiled (rejected deep inside, by the leaf's own type) and a copy with one member made absent (judged by the
// presence rules), so that calls rejected for different reasons and accepted calls follow each other.
func nativeProbes(res any) []any {
	out := []any{res}
	_, ns := val.Spoil(res, 0)
	_, nb := val.Blank(res, 0)
	for k := 0; k < 4; k++ {
		if k < ns {
			x, _ := val.Spoil(res, k*7)
			out = append(out, x)
		}
		if k < nb {
			x, _ := val.Blank(res, k*5)
			out = append(out, x)
		}
	}
	return append(out, res)
}

func objectsOf(t schema.Type) []*schema.ObjectSchema {
	var out []*schema.ObjectSchema
	seen := map[*schema.ObjectSchema]bool{}
	var walk func(x any)
	walk = func(x any) {
		switch v := x.(type) {
		case *schema.ScopeSchema:
			ids := make([]string, 0, len(v.Objects()))
			for id := range v.Objects() {
				ids = append(ids, id)
			}
			sortStrings(ids)
			for _, id := range ids {
				walk(v.Objects()[id])
			}
		case *schema.ObjectSchema:
			if v == nil || seen[v] {
				return
			}
			seen[v] = true
			out = append(out, v)
			names := make([]string, 0, len(v.Properties()))
			for n := range v.Properties() {
				names = append(names, n)
			}
			sortStrings(names)
			for _, n := range names {
				walk(v.Properties()[n].Type())
			}
		case *schema.ListSchema:
			walk(v.Items())
		case *schema.MapSchema[schema.Type, schema.Type]:
			walk(v.Keys())
			walk(v.Values())
		case *schema.OneOfSchema[string]:
			ks := make([]string, 0)
			for k := range v.Types() {
				ks = append(ks, k)
			}
			sortStrings(ks)
			for _, k := range ks {
				walk(v.Types()[k])
			}
		case *schema.OneOfSchema[int64]:
			ks := make([]string, 0)
			byS := map[string]schema.Object{}
			for k, o := range v.Types() {
				ks = append(ks, fmt.Sprint(k))
				byS[fmt.Sprint(k)] = o
			}
			sortStrings(ks)
			for _, k := range ks {
				walk(byS[k])
			}
		}
	}
	walk(t)
	return out
}

func sortStrings(s []string) {
	for i := 1; i < len(s); i++ {
		for j := i; j > 0 && s[j] < s[j-1]; j-- {
			s[j], s[j-1] = s[j-1], s[j]
		}
	}
}

func describe(t schema.Type) any {
	sc, ok := t.(*schema.ScopeSchema)
	if !ok {
		return nil
	}
	var d any
	if p := oracle.Safely(func() {
		var err error
		d, err = sc.SelfSerialize()
		if err != nil {
			d = nil // not describable: C09's concern; nothing to compare here
		}
	}); p != nil {
		return nil
	}
	return d
}

func defaultsOf(t schema.Type) []any {
	var out []any
	for _, o := range objectsOf(t) {
		var d any
		oracle.Safely(func() { d = val.DeepCopy(o.GetDefaults()) })
		out = append(out, d)
	}
	return out
}

func newMachine(s *spec.Spec, probes []val.V) (*machine, error) {
	sch, err := spec.Build(s)
	if err != nil {
		return nil, err
	}
	m := &machine{s: s, sch: sch, probes: probes}
	m.baseDesc = describe(sch)
	m.baseDefs = defaultsOf(sch)
	for _, p := range probes {
		o := probe(sch, p)
		m.initial = append(m.initial, o)
		if !o.err && !o.panicked && o.res != nil && len(m.natives) < 40 {
			m.natives = append(m.natives, nativeProbes(o.res)...)
		}
	}
	for _, x := range m.natives {
		m.natInit = append(m.natInit, probeNative(sch, x))
	}
	return m, nil
}

type outcome struct {
	res      any
	err      bool
	panicked any
}

// eval runs f 12 times on fresh deep copies of arg and checks determinism and argument preservation.
func eval(name string, arg any, f func(a any) (any, error)) (outcome, string) {
	var first outcome
	for i := 0; i < 12; i++ {
		a := val.DeepCopy(arg)
		var o outcome
		o.panicked = oracle.Safely(func() {
			r, err := f(a)
			o.res, o.err = r, err != nil
		})
		if o.panicked == nil && !val.Equal(a, arg, val.Opts{}) {
			return o, fmt.Sprintf("%s modified its argument:\n before: %#v\n after:  %#v", name, arg, a)
		}
		if i == 0 {
			first = o
			continue
		}
		if (o.panicked != nil) != (first.panicked != nil) || o.err != first.err {
			return o, fmt.Sprintf("%s(%#v) is not deterministic: evaluation 1 gave (err=%v, panic=%v), evaluation %d gave (err=%v, panic=%v)", name, arg, first.err, first.panicked, i+1, o.err, o.panicked)
		}
		if !o.err && o.panicked == nil && !val.Equal(o.res, first.res, val.Opts{}) {
			return o, fmt.Sprintf("%s(%#v) is not deterministic: evaluation 1 gave %#v, evaluation %d gave %#v", name, arg, first.res, i+1, o.res)
		}
	}
	return first, ""
}

func scramble(v reflect.Value, depth int) {
	if depth > 6 || !v.IsValid() {
		return
	}
	switch v.Kind() {
	case reflect.Interface, reflect.Pointer:
		if !v.IsNil() && v.Type() != reflect.TypeOf(&regexp.Regexp{}) {
			scramble(v.Elem(), depth+1)
		}
	case reflect.Map:
		for _, k := range v.MapKeys() {
			e := v.MapIndex(k)
			scramble(e, depth+1)
			if e.Kind() == reflect.Interface || e.Kind() == reflect.String || e.Kind() == reflect.Int64 {
				z := reflect.Zero(v.Type().Elem())
				v.SetMapIndex(k, z)
			}
		}
		if v.Type().Key().Kind() == reflect.String {
			func() {
				defer func() { _ = recover() }()
				v.SetMapIndex(reflect.ValueOf("zz_scrambled").Convert(v.Type().Key()), reflect.Zero(v.Type().Elem()))
			}()
		}
	case reflect.Slice:
		for i := 0; i < v.Len(); i++ {
			scramble(v.Index(i), depth+1)
			if v.Index(i).CanSet() {
				v.Index(i).Set(reflect.Zero(v.Type().Elem()))
			}
		}
	case reflect.Struct:
		for i := 0; i < v.NumField(); i++ {
			if v.Field(i).CanSet() {
				scramble(v.Field(i), depth+1)
				if v.Field(i).Kind() != reflect.Map && v.Field(i).Kind() != reflect.Slice {
					v.Field(i).Set(reflect.Zero(v.Field(i).Type()))
				}
			}
		}
	}
}

func (m *machine) step(st Step) string {
	switch st.Op {
	case "unserialize":
		o, msg := eval("Unserialize", st.Arg.Go(), m.sch.Unserialize)
		if msg != "" {
			return msg
		}
		if !o.err && o.panicked == nil {
			m.last = o.res
		}
	case "validate_of", "serialize_of":
		if m.last == nil {
			return ""
		}
		f := func(a any) (any, error) { return nil, m.sch.Validate(a) }
		if st.Op == "serialize_of" {
			f = m.sch.Serialize
		}
		if _, msg := eval(st.Op[:len(st.Op)-3], m.last, f); msg != "" {
			return msg
		}
	case "validate_spoiled", "serialize_spoiled":
		// the last result with exactly one leaf made invalid: the call gets as far as the container holding that
		// leaf (through every discriminator on the way) before it fails
		if m.last == nil {
			return ""
		}
		arg, n := val.Spoil(m.last, st.K)
		if n == 0 {
			return ""
		}
		f := func(a any) (any, error) { return nil, m.sch.Validate(a) }
		if st.Op == "serialize_spoiled" {
			f = m.sch.Serialize
		}
		if _, msg := eval(st.Op[:len(st.Op)-8]+" (one leaf spoiled)", arg, f); msg != "" {
			return msg
		}
	case "validate_raw":
		if _, msg := eval("Validate", st.Arg.Go(), func(a any) (any, error) { return nil, m.sch.Validate(a) }); msg != "" {
			return msg
		}
	case "serialize_raw":
		if _, msg := eval("Serialize", st.Arg.Go(), m.sch.Serialize); msg != "" {
			return msg
		}
	case "compat_data":
		if _, msg := eval("ValidateCompatibility(data)", st.Arg.Go(), func(a any) (any, error) { return nil, m.sch.ValidateCompatibility(a) }); msg != "" {
			return msg
		}
	case "compat_schema":
		other, err := spec.Build(st.Other)
		if err != nil {
			return ""
		}
		otherDesc := describe(other)
		var first *bool
		for i := 0; i < 12; i++ {
			var verr error
			if p := oracle.Safely(func() { verr = m.sch.ValidateCompatibility(other) }); p != nil {
				return "" // totality of schema-mode compatibility is C15's concern
			}
			ok := verr == nil
			if first == nil {
				first = &ok
			} else if *first != ok {
				return fmt.Sprintf("ValidateCompatibility(schema) is not deterministic: evaluation 1 accepted=%v, evaluation %d accepted=%v (%v)\n other = %s", *first, i+1, ok, verr, oracle.SpecJSON(st.Other))
			}
		}
		if d := describe(other); !val.Equal(d, otherDesc, val.Opts{}) {
			return fmt.Sprintf("ValidateCompatibility modified the schema passed as argument:\n before: %#v\n after:  %#v", otherDesc, d)
		}
	case "scramble":
		if m.last != nil {
			holder := reflect.New(reflect.TypeOf(m.last))
			holder.Elem().Set(reflect.ValueOf(m.last))
			oracle.Safely(func() { scramble(holder.Elem(), 0) })
			m.last = nil
		}
	}
	return m.invariant()
}

func (m *machine) invariant() string {
	if d := describe(m.sch); !val.Equal(d, m.baseDesc, val.Opts{}) {
		return fmt.Sprintf("the schema's self-description changed:\n before: %#v\n after:  %#v", m.baseDesc, d)
	}
	if d := defaultsOf(m.sch); !val.Equal(d, m.baseDefs, val.Opts{}) {
		return fmt.Sprintf("GetDefaults() of the schema's objects changed:\n before: %#v\n after:  %#v", m.baseDefs, d)
	}
	for i, x := range m.natives {
		// the same for native values: Validate / Serialize of a value must still say what they said before the history
		if now, was := probeNative(m.sch, x), m.natInit[i]; now.differs(was) {
			return fmt.Sprintf("Validate / Serialize of %#v changed their answer in the course of this history:\n before: validate err=%v panic=%v, serialize (%#v, err=%v, panic=%v)\n now:    validate err=%v panic=%v, serialize (%#v, err=%v, panic=%v)", x, was.vErr, was.vPanic, was.ser, was.sErr, was.sPanic, now.vErr, now.vPanic, now.ser, now.sErr, now.sPanic)
		}
	}
	fresh, err := spec.Build(m.s)
	if err != nil {
		return ""
	}
	for i, p := range m.probes {
		// (schema, argument) -> result must be a function: the probe must still give what it gave on this instance
		// before the history (this also sees state that outlives the instance, e.g. in package-level unit definitions,
		// which a comparison with a fresh instance cannot see)
		if now, was := probe(m.sch, p), m.initial[i]; now.panicked != was.panicked || now.err != was.err || (!now.err && !now.panicked && !val.Equal(now.res, was.res, val.Opts{})) {
			return fmt.Sprintf("Unserialize(%s) changed its answer in the course of this history:\n before: (%#v, err=%v, panic=%v)\n now:    (%#v, err=%v, panic=%v)", p, was.res, was.err, was.panicked, now.res, now.err, now.panicked)
		}
		var r1, r2 any
		var e1, e2 error
		p1 := oracle.Safely(func() { r1, e1 = m.sch.Unserialize(p.Go()) })
		p2 := oracle.Safely(func() { r2, e2 = fresh.Unserialize(p.Go()) })
		if (p1 != nil) != (p2 != nil) || (e1 != nil) != (e2 != nil) || (e1 == nil && p1 == nil && !val.Equal(r1, r2, val.Opts{})) {
			return fmt.Sprintf("after this history Unserialize(%s) differs from a freshly built schema:\n used:  (%#v, %v, panic=%v)\n fresh: (%#v, %v, panic=%v)", p, r1, e1, p1, r2, e2, p2)
		}
	}
	return ""
}

// neighbours derives probes from an argument: the same value with one string leaf slightly altered (a blank inserted
// in the middle, the case of its letters flipped, surrounding blanks). A string-keyed cache or memo that identifies
// "similar" strings answers such a probe differently before and after the original has been seen.
func neighbours(arg val.V, max int) []val.V {
	var out []val.V
	var walk func(v val.V, rebuild func(val.V) val.V)
	walk = func(v val.V, rebuild func(val.V) val.V) {
		if len(out) >= max {
			return
		}
		if v.T == "string" && len(v.S) >= 2 {
			mid := len(v.S) / 2
			flipped := []byte(v.S)
			for i, c := range flipped {
				switch {
				case c >= 'a' && c <= 'z':
					flipped[i] = c - 32
				case c >= 'A' && c <= 'Z':
					flipped[i] = c + 32
				}
			}
			for _, alt := range []string{v.S[:mid] + " " + v.S[mid:], v.S[:1] + " " + v.S[1:], v.S[:len(v.S)-1] + " " + v.S[len(v.S)-1:], string(flipped), " " + v.S + "\t"} {
				if alt != v.S && len(out) < max {
					out = append(out, rebuild(val.Str(alt)))
				}
			}
			return
		}
		for i := range v.L {
			i := i
			walk(v.L[i], func(n val.V) val.V {
				c := v
				c.L = append([]val.V(nil), v.L...)
				c.L[i] = n
				return rebuild(c)
			})
		}
		for i := range v.M {
			i := i
			walk(v.M[i].V, func(n val.V) val.V {
				c := v
				c.M = append([]val.KV(nil), v.M...)
				c.M[i].V = n
				return rebuild(c)
			})
		}
	}
	walk(arg, func(n val.V) val.V { return n })
	return out
}

func replay(h History) string {
	m, err := newMachine(h.Spec, h.Probes)
	if err != nil {
		return ""
	}
	for i, st := range h.Steps {
		if msg := m.step(st); msg != "" {
			return fmt.Sprintf("step %d (%s): %s\nschema: %s", i+1, st.Op, msg, oracle.SpecJSON(h.Spec))
		}
	}
	return ""
}

func c12Opts(depth int) gen.Opts {
	o := gen.Full(depth)
	o.Display = true
	return o
}

func hasBigMap(v val.V) bool {
	if len(v.M) >= 2 {
		return true
	}
	for _, e := range v.L {
		if hasBigMap(e) {
			return true
		}
	}
	for _, e := range v.M {
		if hasBigMap(e.V) {
			return true
		}
	}
	return false
}

func hasDefaults(s *spec.Spec) bool {
	d := false
	spec.Walk(s, func(n *spec.Spec) {
		for _, p := range n.Props {
			if p.Default != nil {
				d = true
			}
		}
	})
	return d
}

func clone(s *spec.Spec) *spec.Spec {
	b, _ := json.Marshal(s)
	var c spec.Spec
	_ = json.Unmarshal(b, &c)
	return &c
}

// addCollision adds, to some map of the tree, a second raw key that denotes the same key as an existing one (1 and
// "1") with a different value, so that an order-dependent merge would show.
func addCollision(v val.V) (val.V, bool) {
	if len(v.T) >= 3 && v.T[:3] == "map" && len(v.M) >= 1 {
		for i, e := range v.M {
			var alt val.V
			switch e.K.T {
			case "int64", "int", "uint64":
				alt = val.Str(e.K.S)
			case "string":
				if _, err := fmt.Sscanf(e.K.S, "%d", new(int64)); err == nil && fmt.Sprint(mustInt(e.K.S)) == e.K.S {
					alt = val.Int("int64", mustInt(e.K.S))
				}
			}
			if alt.T == "" {
				continue
			}
			other := v.M[(i+1)%len(v.M)].V
			if len(v.M) == 1 {
				other = val.Nil()
			}
			c := v
			c.T = "map[any]any"
			c.M = append(append([]val.KV(nil), v.M...), val.KV{K: alt, V: other})
			return c, true
		}
	}
	for i := range v.M {
		if n, ok := addCollision(v.M[i].V); ok {
			c := v
			c.M = append([]val.KV(nil), v.M...)
			c.M[i].V = n
			return c, true
		}
	}
	for i := range v.L {
		if n, ok := addCollision(v.L[i]); ok {
			c := v
			c.L = append([]val.V(nil), v.L...)
			c.L[i] = n
			if c.T != "[]any" {
				c.T = "[]any"
			}
			return c, true
		}
	}
	return v, false
}

func mustInt(s string) int64 {
	var i int64
	_, _ = fmt.Sscanf(s, "%d", &i)
	return i
}

// extendEnum returns a copy of s in which one enum offers a value outside the original set.
func extendEnum(s *spec.Spec) (*spec.Spec, bool) {
	c := clone(s)
	done := false
	spec.Walk(c, func(n *spec.Spec) {
		if done {
			return
		}
		switch n.Kind {
		case spec.KEnumS, spec.KTypedEnumS:
			n.Enum = append(n.Enum, spec.EnumVal{S: "zz_outside"})
			done = true
		case spec.KEnumI:
			n.Enum = append(n.Enum, spec.EnumVal{I: 424242})
			done = true
		}
	})
	return c, done
}

func TestPurity(t *testing.T) {
	depth := ev.N(3, 4)
	ev.Check(t, "purity", 800, 15000, func(rt *rapid.T) {
		o := c12Opts(depth)
		s := gen.Spec(o).Draw(rt, "spec")
		gen.AddDefaults(rt, s, o)
		h := History{Spec: s}
		valid := func(label string) (val.V, bool) {
			mv, ok := gen.ValueFor(rt, s, nil, 3)
			if !ok {
				return val.V{}, false
			}
			return gen.Render(rt, s, nil, mv).V, true
		}
		for i := 0; i < 3; i++ {
			if v, ok := valid("probe"); ok {
				h.Probes = append(h.Probes, v)
			}
		}
		h.Probes = append(h.Probes, val.V{T: "map[string]any"}, gen.Hostile(1).Draw(rt, "probeHostile"))
		sawErr, sawDefaultFill, bigMap := false, false, false
		recursive := gen.IsRecursive(s)
		nSteps := rapid.IntRange(1, 10).Draw(rt, "nSteps")
		for i := 0; i < nSteps; i++ {
			st := Step{}
			ops := []string{"unserialize", "unserialize", "unserialize_bad", "validate_of", "serialize_of", "validate_spoiled", "serialize_spoiled", "validate_raw", "serialize_raw", "compat_data", "scramble"}
			if !recursive {
				ops = append(ops, "compat_schema")
			}
			op := rapid.SampledFrom(ops).Draw(rt, "op")
			switch op {
			case "unserialize", "compat_data":
				st.Op = op
				if v, ok := valid("arg"); ok && rapid.IntRange(0, 3).Draw(rt, "argValid") != 0 {
					if rapid.IntRange(0, 3).Draw(rt, "collide") == 0 {
						collide := addCollision
						if rapid.Bool().Draw(rt, "textCollision") {
							collide = addTextCollision
						}
						if cv, did := collide(v); did {
							v = cv
							ev.Class("arg_with_colliding_keys", 1)
						}
					}
					st.Arg = v
					if hasDefaults(s) {
						sawDefaultFill = true
					}
				} else {
					st.Arg = gen.Hostile(2).Draw(rt, "hostileArg")
				}
			case "unserialize_bad":
				st.Op = "unserialize"
				st.Arg = gen.Hostile(2).Draw(rt, "hostileArg")
			case "validate_spoiled", "serialize_spoiled":
				st.Op = op
				st.K = rapid.IntRange(0, 63).Draw(rt, "spoilLeaf")
			case "validate_raw", "serialize_raw":
				st.Op = op
				st.Arg = gen.Native(2).Draw(rt, "nativeArg")
			case "compat_schema":
				st.Op = op
				st.Other = clone(s)
				switch rapid.IntRange(0, 3).Draw(rt, "otherKind") {
				case 0:
					st.Other = gen.Spec(o).Draw(rt, "otherSpec")
				case 1, 2:
					if e, ok := extendEnum(s); ok {
						st.Other = e
					}
				}
			default:
				st.Op = op
			}
			h.Steps = append(h.Steps, st)
			if hasBigMap(st.Arg) {
				bigMap = true
			}
		}
		// probes derived from the history's own arguments (neighbouring strings), fixed before anything is executed
		nb := 0
		for _, st := range h.Steps {
			if st.Op == "unserialize" || st.Op == "compat_data" {
				for _, n := range neighbours(st.Arg, 5) {
					if nb < 10 {
						h.Probes = append(h.Probes, n)
						nb++
					}
				}
			}
		}
		if nb > 0 {
			ev.Class("history_with_neighbour_probes", 1)
		}
		m, err := newMachine(s, h.Probes)
		if err != nil {
			rt.Skip("build")
		}
		for i, st := range h.Steps {
			if (st.Op == "validate_spoiled" || st.Op == "serialize_spoiled") && m.last != nil {
				ev.Class("spoiled_call", 1)
			}
			msg := m.step(st)
			if st.Op == "unserialize" && m.last == nil {
				sawErr = true
			}
			if msg != "" {
				ev.Case(ev.FP(oracle.SpecJSON(s), fmt.Sprint(h.Steps)), true, "failing_history")
				ev.Fail(rt, "history", h, "step %d (%s): %s\nschema: %s", i+1, st.Op, msg, oracle.SpecJSON(s))
			}
		}
		ev.Case(ev.FP(oracle.SpecJSON(s), fmt.Sprint(h.Steps)), (sawErr && sawDefaultFill) || bigMap, fmt.Sprintf("steps=%d", len(h.Steps)), fmt.Sprintf("saw_error=%v", sawErr), fmt.Sprintf("default_fill=%v", sawDefaultFill), fmt.Sprintf("big_map=%v", bigMap))
		if ev.WantSample("history") && sawErr && sawDefaultFill {
			ev.Sample("history", h)
		}
	})
}

// addTextCollision is addCollision for concretely keyed maps: every key of an integer-keyed map is written as a
// string and one entry is added under another spelling of an existing key ("7" and "07"): a map[string]any whose keys
// are all distinct as strings but not as the integers they denote.
func addTextCollision(v val.V) (val.V, bool) {
	if len(v.T) >= 3 && v.T[:3] == "map" && len(v.M) >= 1 {
		allInt := true
		for _, e := range v.M {
			switch e.K.T {
			case "int64", "int", "uint64":
			case "string":
				if _, err := fmt.Sscanf(e.K.S, "%d", new(int64)); err != nil || fmt.Sprint(mustInt(e.K.S)) != e.K.S {
					allInt = false
				}
			default:
				allInt = false
			}
		}
		if allInt {
			c := v
			c.T = "map[string]any"
			c.M = nil
			for _, e := range v.M {
				c.M = append(c.M, val.KV{K: val.Str(e.K.S), V: e.V})
			}
			first := v.M[0].K.S
			alt := "0" + first
			if len(first) > 0 && first[0] == '-' {
				alt = "-0" + first[1:]
			}
			other := v.M[len(v.M)-1].V
			if len(v.M) == 1 {
				other = val.Nil()
			}
			c.M = append(c.M, val.KV{K: val.Str(alt), V: other})
			return c, true
		}
	}
	for i := range v.M {
		if n, ok := addTextCollision(v.M[i].V); ok {
			c := v
			c.M = append([]val.KV(nil), v.M...)
			c.M[i].V = n
			return c, true
		}
	}
	for i := range v.L {
		if n, ok := addTextCollision(v.L[i]); ok {
			c := v
			c.L = append([]val.V(nil), v.L...)
			c.L[i] = n
			if c.T != "[]any" {
				c.T = "[]any"
			}
			return c, true
		}
	}
	return v, false
}
