package c04

import (
	"encoding/json"
	"fmt"
	"testing"
	"time"

	"verif/harness/ev"
	"verif/harness/gen"
	"verif/harness/spec"
	"verif/harness/units"
	"verif/harness/val"
)

// gridSpecs is a fixed set of small schemas covering every type kind (and the main variants of each).
func gridSpecs() []*spec.Spec {
	p := func(x int64) *int64 { return &x }
	secs := units.BuiltinDef("seconds")
	bytes := units.BuiltinDef("bytes")
	str := &spec.Spec{Kind: spec.KString}
	integer := &spec.Spec{Kind: spec.KInt}
	anyT := &spec.Spec{Kind: spec.KAny}
	objMap := &spec.Spec{Kind: spec.KObject, ID: "O", Props: []spec.Prop{
		{Name: "a", Type: anyT}, {Name: "p0", Type: integer, Required: true}, {Name: "p1", Type: str, Default: spec.P(`"d"`)}, {Name: "k", Type: &spec.Spec{Kind: spec.KList, Items: anyT}}}}
	leafProps := []spec.Prop{{Name: "a", Type: anyT}, {Name: "i", Type: integer}, {Name: "s", Type: str}, {Name: "pi", Type: integer}, {Name: "li", Type: &spec.Spec{Kind: spec.KList, Items: integer}},
		{Name: "mo", Type: &spec.Spec{Kind: spec.KMap, Keys: str, Values: anyT}}}
	memA := &spec.Spec{Kind: spec.KObject, ID: "A", Props: []spec.Prop{{Name: "a", Type: anyT}, {Name: "p0", Type: integer}}}
	memB := &spec.Spec{Kind: spec.KObject, ID: "B", Props: []spec.Prop{{Name: "a", Type: str}}}
	altA := &spec.Spec{Kind: spec.KObject, ID: "AltA", Struct: "AltA", Props: []spec.Prop{{Name: "a", Type: integer}, {Name: "k", Type: str}}}
	altB := &spec.Spec{Kind: spec.KObject, ID: "AltB", Struct: "*AltB", Props: []spec.Prop{{Name: "b", Type: str}, {Name: "k", Type: str}}}
	node := &spec.Spec{Kind: spec.KObject, ID: "Node", Props: []spec.Prop{{Name: "v", Type: integer}, {Name: "next", Type: &spec.Spec{Kind: spec.KRef, RefID: "Node"}},
		{Name: "kids", Type: &spec.Spec{Kind: spec.KList, Items: &spec.Spec{Kind: spec.KRef, RefID: "Node"}}}, {Name: "a", Type: anyT}}}
	return []*spec.Spec{
		integer,
		{Kind: spec.KInt, Min: p(0), Max: p(100), Units: &secs},
		{Kind: spec.KFloat},
		{Kind: spec.KFloat, FMin: spec.P(0.0), Units: &bytes},
		str,
		{Kind: spec.KString, Min: p(1), Max: p(3), Pattern: spec.P("^[a-z0-9]+$")},
		{Kind: spec.KBool},
		{Kind: spec.KPattern},
		{Kind: spec.KEnumS, Enum: []spec.EnumVal{{S: "a"}, {S: "1"}, {S: ""}}},
		{Kind: spec.KEnumI, Enum: []spec.EnumVal{{I: 0}, {I: 1}, {I: 60}}, Units: &secs},
		{Kind: spec.KTypedEnumS, Enum: []spec.EnumVal{{S: "a"}, {S: "b"}}},
		{Kind: spec.KList, Items: anyT},
		{Kind: spec.KList, Items: integer, Min: p(1), Max: p(2)},
		{Kind: spec.KMap, Keys: str, Values: anyT},
		{Kind: spec.KMap, Keys: integer, Values: str, Min: p(1)},
		{Kind: spec.KMap, Keys: &spec.Spec{Kind: spec.KEnumS, Enum: []spec.EnumVal{{S: "a"}, {S: "p0"}}}, Values: &spec.Spec{Kind: spec.KList, Items: anyT}},
		anyT,
		objMap,
		{Kind: spec.KObject, ID: "L", Struct: "*Leaf", Props: leafProps},
		{Kind: spec.KObject, ID: "L", Struct: "Leaf", Props: leafProps},
		{Kind: spec.KOneOfS, Discriminator: "_type", Members: []spec.Member{{KeyS: "a", Type: memA}, {KeyS: "1", Type: memB}}},
		{Kind: spec.KOneOfS, Discriminator: "k", Inlined: true, Members: []spec.Member{{KeyS: "a", Type: altA}, {KeyS: "b", Type: altB}}},
		{Kind: spec.KOneOfI, Discriminator: "_type", Members: []spec.Member{{KeyI: 1, Type: memA}, {KeyI: 2, Type: memB}}},
		{Kind: spec.KScope, Root: "Node", Objects: []*spec.Spec{node}},
	}
}

type placement struct {
	name   string
	schema func(k *spec.Spec) *spec.Spec
	value  func(x val.V) val.V
}

func gridPlacements() []placement {
	id := func(x val.V) val.V { return x }
	return []placement{
		{"root", func(k *spec.Spec) *spec.Spec { return k }, id},
		{"list_item", func(k *spec.Spec) *spec.Spec { return &spec.Spec{Kind: spec.KList, Items: k} }, func(x val.V) val.V { return val.V{T: "[]any", L: []val.V{x}} }},
		{"map_value", func(k *spec.Spec) *spec.Spec { return &spec.Spec{Kind: spec.KMap, Keys: &spec.Spec{Kind: spec.KString}, Values: k} },
			func(x val.V) val.V { return val.V{T: "map[any]any", M: []val.KV{{K: val.Str("k"), V: x}}} }},
		{"property", func(k *spec.Spec) *spec.Spec {
			return &spec.Spec{Kind: spec.KObject, ID: "W", Props: []spec.Prop{{Name: "p", Type: k}, {Name: "q", Type: &spec.Spec{Kind: spec.KInt}}}}
		}, func(x val.V) val.V { return val.V{T: "map[string]any", M: []val.KV{{K: val.Str("p"), V: x}}} }},
		{"oneof_member_property", func(k *spec.Spec) *spec.Spec {
			return &spec.Spec{Kind: spec.KOneOfS, Discriminator: "_type", Members: []spec.Member{
				{KeyS: "w", Type: &spec.Spec{Kind: spec.KObject, ID: "W", Props: []spec.Prop{{Name: "p", Type: k}}}},
				{KeyS: "v", Type: &spec.Spec{Kind: spec.KObject, ID: "V", Props: []spec.Prop{{Name: "q", Type: &spec.Spec{Kind: spec.KInt}}}}}}}
		}, func(x val.V) val.V {
			return val.V{T: "map[any]any", M: []val.KV{{K: val.Str("_type"), V: val.Str("w")}, {K: val.Str("p"), V: x}}}
		}},
	}
}

type batchResult struct {
	Index   int    `json:"index"` // first value whose operation panicked (-1: none)
	Text    string `json:"text,omitempty"`
	Frame   string `json:"frame,omitempty"`
	Values  int    `json:"values"`
	Errors  int    `json:"errors"`
	Skipped string `json:"skipped,omitempty"`
}

// TestGrid: every catalogue value x every schema kind x every placement x every operation. The random search of
// TestTotality reaches a given (odd value, schema kind, position, operation) cell only by luck; this sweep visits
// every cell once. Operations run in batches inside the supervised worker; a batch that kills or hangs the worker is
// re-run value by value to find the culprit.
func TestGrid(t *testing.T) {
	if ev.Replaying() {
		t.Skip()
	}
	w := worker()
	defer func() {
		w.Close()
		theWorker = nil
	}()
	decoder, native := gen.Catalogue(false), gen.Catalogue(true)
	specs, places := gridSpecs(), gridPlacements()
	idx := 0
	for si, k := range specs {
		for _, pl := range places {
			s := pl.schema(k)
			if _, err := spec.Build(s); err != nil {
				t.Fatalf("harness bug: grid schema %d at %s does not build: %v", si, pl.name, err)
			}
			for _, op := range []string{"unserialize", "compat", "validate", "serialize"} {
				idx++
				if !ev.Mine(idx) {
					continue
				}
				cat := decoder
				if op == "validate" || op == "serialize" {
					cat = native
				}
				batch := make([]val.V, len(cat))
				for i, x := range cat {
					batch[i] = pl.value(x)
				}
				c := Case{Spec: s, Op: op, Batch: batch, PosKind: pl.name + ":" + k.Kind}
				bad := -1
				var msg string
				body, crash := w.Do(c, 60*time.Second)
				if crash != nil {
					// find the culprit one value at a time
					for i := range batch {
						one := Case{Spec: s, Op: op, Value: batch[i], PosKind: c.PosKind}
						if m, _ := judge(w, one); m != "" {
							bad, msg = i, m
							break
						}
					}
					if bad < 0 {
						t.Logf("batch crashed (%s) but no single value reproduces it; schema %s op %s", crash.Text, specJSON(s), op)
						ev.Class("grid_unreproduced_batch_crash", 1)
					}
				} else {
					var r batchResult
					if err := json.Unmarshal(body, &r); err != nil {
						t.Fatalf("harness: bad worker answer: %v", err)
					}
					if r.Skipped != "" {
						t.Fatalf("harness bug: grid batch skipped: %s", r.Skipped)
					}
					if r.Index >= 0 {
						one := Case{Spec: s, Op: op, Value: batch[r.Index], PosKind: c.PosKind}
						bad, msg = r.Index, fmt.Sprintf("operation panicked: %s\n at %s\n%s(%s) at a %s position\nschema: %s", r.Text, r.Frame, op, one.Value, one.PosKind, specJSON(s))
					}
					ev.Class("grid_outcome:error", int64(r.Errors))
					ev.Class("grid_outcome:value", int64(r.Values-r.Errors))
				}
				for i := range batch {
					ev.Case(ev.FP("grid", si, pl.name, op, i), true, "class:grid", "op:"+op, "cell:"+k.Kind+"/"+op, "grid_placement:"+pl.name)
				}
				if ev.WantSample("grid_" + op) {
					ev.Sample("grid_"+op, Case{Spec: s, Op: op, Value: batch[len(batch)/2], PosKind: c.PosKind})
				}
				if bad >= 0 {
					ev.Fail(t, "op", Case{Spec: s, Op: op, Value: batch[bad], PosKind: c.PosKind}, "%s", msg)
				}
			}
		}
	}
	ev.Exhaustive(fmt.Sprintf("grid: %d decoder-domain values (unserialize, data-mode compatibility) and %d native values (validate, serialize) x %d schemas covering every type kind x %d placements (root, list item, map value, property, property of a one-of member)", len(decoder), len(native), len(specs), len(places)))
}
