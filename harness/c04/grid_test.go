package c04

import (
	"encoding/json"
	"fmt"
	"math"
	"reflect"
	"testing"
	"time"

	"verif/harness/ev"
	"verif/harness/gen"
	"verif/harness/spec"
	"verif/harness/val"
)

func gridSpecs() []*spec.Spec { return gen.GridSpecs() }

type placement struct {
	name   string
	schema func(k *spec.Spec) *spec.Spec
	value  func(x val.V) val.V
}

func gridPlacements() []placement {
	id := func(x val.V) val.V { return x }
	return []placement{
		{"root", func(k *spec.Spec) *spec.Spec { return k }, id},
		{"list_item", func(k *spec.Spec) *spec.Spec { return &spec.Spec{Kind: spec.KList, Items: k} }, func(x val.V) val.V { return val.V{T: "[]any", L: []val.V{x}} }},
		{"map_value", func(k *spec.Spec) *spec.Spec { return &spec.Spec{Kind: spec.KMap, Keys: &spec.Spec{Kind: spec.KString}, Values: k} },
			func(x val.V) val.V { return val.V{T: "map[any]any", M: []val.KV{{K: val.Str("k"), V: x}}} }},
		{"property", func(k *spec.Spec) *spec.Spec {
			return &spec.Spec{Kind: spec.KObject, ID: "W", Props: []spec.Prop{{Name: "p", Type: k}, {Name: "q", Type: &spec.Spec{Kind: spec.KInt}}}}
		}, func(x val.V) val.V { return val.V{T: "map[string]any", M: []val.KV{{K: val.Str("p"), V: x}}} }},
		{"oneof_member_property", func(k *spec.Spec) *spec.Spec {
			return &spec.Spec{Kind: spec.KOneOfS, Discriminator: "_type", Members: []spec.Member{
				{KeyS: "w", Type: &spec.Spec{Kind: spec.KObject, ID: "W", Props: []spec.Prop{{Name: "p", Type: k}}}},
				{KeyS: "v", Type: &spec.Spec{Kind: spec.KObject, ID: "V", Props: []spec.Prop{{Name: "q", Type: &spec.Spec{Kind: spec.KInt}}}}}}}
		}, func(x val.V) val.V {
			return val.V{T: "map[any]any", M: []val.KV{{K: val.Str("_type"), V: val.Str("w")}, {K: val.Str("p"), V: x}}}
		}},
	}
}

type batchResult struct {
	Index   int    `json:"index"` // first value whose operation panicked (-1: none)
	Text    string `json:"text,omitempty"`
	Frame   string `json:"frame,omitempty"`
	Values  int    `json:"values"`
	Errors  int    `json:"errors"`
	Skips   int    `json:"skips"`
	Skipped string `json:"skipped,omitempty"`
}

// TestGrid: every catalogue value x every schema kind x every placement x every operation. The random search of
// TestTotality reaches a given (odd value, schema kind, position, operation) cell only by luck; this sweep visits
// every cell once. Operations run in batches inside the supervised worker; a batch that kills or hangs the worker is
// re-run value by value to find the culprit.
func TestGrid(t *testing.T) {
	if ev.Replaying() {
		t.Skip()
	}
	w := worker()
	defer func() {
		w.Close()
		theWorker = nil
	}()
	decoder, native := gen.Catalogue(false), gen.Catalogue(true)
	specs, places := gridSpecs(), gridPlacements()
	idx := 0
	for si, k := range specs {
		for _, pl := range places {
			s := pl.schema(k)
			if _, err := spec.Build(s); err != nil {
				t.Fatalf("harness bug: grid schema %d at %s does not build: %v", si, pl.name, err)
			}
			for _, op := range []string{"unserialize", "compat", "validate", "serialize"} {
				idx++
				if !ev.Mine(idx) {
					continue
				}
				cat := decoder
				if op == "validate" || op == "serialize" {
					cat = native
				}
				batch := make([]val.V, len(cat))
				for i, x := range cat {
					batch[i] = pl.value(x)
				}
				c := Case{Spec: s, Op: op, Batch: batch, PosKind: pl.name + ":" + k.Kind}
				bad := -1
				var msg string
				body, crash := w.Do(c, 60*time.Second)
				if crash != nil {
					// find the culprit one value at a time
					for i := range batch {
						one := Case{Spec: s, Op: op, Value: batch[i], PosKind: c.PosKind}
						if m, _ := judge(w, one); m != "" {
							bad, msg = i, m
							break
						}
					}
					if bad < 0 {
						t.Logf("batch crashed (%s) but no single value reproduces it; schema %s op %s", crash.Text, specJSON(s), op)
						ev.Class("grid_unreproduced_batch_crash", 1)
					}
				} else {
					var r batchResult
					if err := json.Unmarshal(body, &r); err != nil {
						t.Fatalf("harness: bad worker answer: %v", err)
					}
					if r.Skipped != "" {
						t.Fatalf("harness bug: grid batch skipped: %s", r.Skipped)
					}
					if r.Index >= 0 {
						one := Case{Spec: s, Op: op, Value: batch[r.Index], PosKind: c.PosKind}
						bad, msg = r.Index, fmt.Sprintf("operation panicked: %s\n at %s\n%s(%s) at a %s position\nschema: %s", r.Text, r.Frame, op, one.Value, one.PosKind, specJSON(s))
					}
					ev.Class("grid_outcome:error", int64(r.Errors))
					ev.Class("grid_outcome:value", int64(r.Values-r.Errors))
				}
				for i := range batch {
					ev.Case(ev.FP("grid", si, pl.name, op, i), true, "class:grid", "op:"+op, "cell:"+k.Kind+"/"+op, "grid_placement:"+pl.name)
				}
				if ev.WantSample("grid_" + op) {
					ev.Sample("grid_"+op, Case{Spec: s, Op: op, Value: batch[len(batch)/2], PosKind: c.PosKind})
				}
				if bad >= 0 {
					ev.Fail(t, "op", Case{Spec: s, Op: op, Value: batch[bad], PosKind: c.PosKind}, "%s", msg)
				}
			}
		}
	}
	ev.Exhaustive(fmt.Sprintf("grid: %d decoder-domain values (unserialize, data-mode compatibility) and %d native values (validate, serialize) x %d schemas covering every type kind x %d placements (root, list item, map value, property, property of a one-of member)", len(decoder), len(native), len(specs), len(places)))
}

// damageSpecs: struct-mapped objects (pointer and value forms, nested) with a valid raw value each. Properties mapped
// to fields that cannot express absence are required or marked treat-empty-as-default (the documented precondition).
func damageSpecs() []struct {
	s   *spec.Spec
	raw val.V
} {
	p := func(x int64) *int64 { return &x }
	str, integer, anyT := &spec.Spec{Kind: spec.KString}, &spec.Spec{Kind: spec.KInt}, &spec.Spec{Kind: spec.KAny}
	leafProps := func() []spec.Prop {
		return []spec.Prop{
			{Name: "a", Type: &spec.Spec{Kind: spec.KString, Max: p(5)}, EmptyIsDefault: true},
			{Name: "i", Type: integer, EmptyIsDefault: true},
			{Name: "s", Type: str, EmptyIsDefault: true},
			{Name: "pi", Type: &spec.Spec{Kind: spec.KInt, Min: p(0)}},
			{Name: "ps", Type: str},
			{Name: "b", Type: &spec.Spec{Kind: spec.KBool}, Required: true},
			{Name: "f", Type: &spec.Spec{Kind: spec.KFloat}, Required: true},
			{Name: "pf", Type: &spec.Spec{Kind: spec.KFloat}},
			{Name: "li", Type: &spec.Spec{Kind: spec.KList, Items: integer}, EmptyIsDefault: true},
			{Name: "ls", Type: &spec.Spec{Kind: spec.KList, Items: str}},
			{Name: "msi", Type: &spec.Spec{Kind: spec.KMap, Keys: str, Values: integer}},
			{Name: "mis", Type: &spec.Spec{Kind: spec.KMap, Keys: integer, Values: str}},
			{Name: "mo", Type: &spec.Spec{Kind: spec.KMap, Keys: str, Values: anyT}, EmptyIsDefault: true},
			{Name: "re", Type: &spec.Spec{Kind: spec.KPattern}},
			{Name: "ms", Type: &spec.Spec{Kind: spec.KTypedEnumS, Enum: []spec.EnumVal{{S: "a"}, {S: "b"}}}, Required: true},
		}
	}
	kv := func(k string, v val.V) val.KV { return val.KV{K: val.Str(k), V: v} }
	leafRaw := val.V{T: "map[string]any", M: []val.KV{
		kv("a", val.Str("x")), kv("i", val.Int("int64", 1)), kv("s", val.Str("s")), kv("pi", val.Int("int64", 2)), kv("ps", val.Str("p")), kv("b", val.Bool(true)),
		kv("f", val.Float("float64", 1.5)), kv("pf", val.Float("float64", 2.5)), kv("li", val.V{T: "[]any", L: []val.V{val.Int("int64", 1), val.Int("int64", 2)}}),
		kv("ls", val.V{T: "[]any", L: []val.V{val.Str("x")}}), kv("msi", val.V{T: "map[string]any", M: []val.KV{kv("k", val.Int("int64", 1))}}),
		kv("mis", val.V{T: "map[any]any", M: []val.KV{{K: val.Int("int64", 1), V: val.Str("v")}}}),
		kv("mo", val.V{T: "map[string]any", M: []val.KV{kv("k", val.V{T: "[]any", L: []val.V{val.Int("int64", 1)}})}}),
		kv("re", val.Str("^a$")), kv("ms", val.Str("a")),
	}}
	leafP := &spec.Spec{Kind: spec.KObject, ID: "L", Struct: "*Leaf", Props: leafProps()}
	leafV := &spec.Spec{Kind: spec.KObject, ID: "L", Struct: "Leaf", Props: leafProps()}
	small := func(strct string) *spec.Spec {
		return &spec.Spec{Kind: spec.KObject, ID: "SL", Struct: strct, Props: []spec.Prop{{Name: "i", Type: integer, Required: true}, {Name: "ps", Type: str}, {Name: "a", Type: integer, EmptyIsDefault: true}}}
	}
	smallRaw := val.V{T: "map[string]any", M: []val.KV{kv("i", val.Int("int64", 1)), kv("ps", val.Str("p")), kv("a", val.Int("int64", 3))}}
	mid := &spec.Spec{Kind: spec.KObject, ID: "M", Struct: "*Mid", Props: []spec.Prop{
		{Name: "x", Type: integer, Required: true},
		{Name: "px", Type: str},
		{Name: "l", Type: small("Leaf"), Required: true},
		{Name: "plf", Type: small("*Leaf")},
		{Name: "ll", Type: &spec.Spec{Kind: spec.KList, Items: small("Leaf")}},
		{Name: "ml", Type: &spec.Spec{Kind: spec.KMap, Keys: str, Values: small("Leaf")}},
		{Name: "o", Type: anyT},
		{Name: "lo", Type: &spec.Spec{Kind: spec.KList, Items: anyT}},
	}}
	midRaw := val.V{T: "map[string]any", M: []val.KV{kv("x", val.Int("int64", 1)), kv("px", val.Str("p")), kv("l", smallRaw), kv("plf", smallRaw),
		kv("ll", val.V{T: "[]any", L: []val.V{smallRaw}}), kv("ml", val.V{T: "map[string]any", M: []val.KV{kv("k", smallRaw)}}),
		kv("o", val.V{T: "map[string]any", M: []val.KV{kv("k", val.Int("int64", 1))}}), kv("lo", val.V{T: "[]any", L: []val.V{val.Str("x")}})}}
	oneOf := &spec.Spec{Kind: spec.KOneOfS, Discriminator: "k", Inlined: true, Members: []spec.Member{
		{KeyS: "a", Type: &spec.Spec{Kind: spec.KObject, ID: "AltA", Struct: "AltA", Props: []spec.Prop{{Name: "a", Type: integer, Required: true}, {Name: "pa", Type: integer}, {Name: "k", Type: str, Required: true}}}},
		{KeyS: "", Type: &spec.Spec{Kind: spec.KObject, ID: "AltB", Struct: "*AltB", Props: []spec.Prop{{Name: "b", Type: str, EmptyIsDefault: true}, {Name: "pb", Type: str}, {Name: "k", Type: str, EmptyIsDefault: true}}}},
	}}
	oneOfRaw := val.V{T: "map[string]any", M: []val.KV{kv("k", val.Str("a")), kv("a", val.Int("int64", 1)), kv("pa", val.Int("int64", 2))}}
	return []struct {
		s   *spec.Spec
		raw val.V
	}{{leafP, leafRaw}, {leafV, leafRaw}, {mid, midRaw}, {oneOf, oneOfRaw},
		{&spec.Spec{Kind: spec.KList, Items: leafV}, val.V{T: "[]any", L: []val.V{leafRaw}}}}
}

// TestDamageGrid: for each struct-mapped schema, the native value obtained from a valid input is damaged at EVERY
// settable location (every field, pointer, slice element, interface) with EVERY native catalogue value that fits the
// location's static type (anything fits an interface-typed field), plus zeroing; Validate and Serialize must then
// return a value or an error. This is the grid counterpart of the randomly placed damage in TestTotality.
func TestDamageGrid(t *testing.T) {
	if ev.Replaying() {
		t.Skip()
	}
	w := worker()
	defer func() {
		w.Close()
		theWorker = nil
	}()
	cat := gen.Catalogue(true)
	idx := 0
	for si, ds := range damageSpecs() {
		sch, err := spec.Build(ds.s)
		if err != nil {
			t.Fatalf("harness bug: damage grid schema %d does not build: %v", si, err)
		}
		native, err := sch.Unserialize(ds.raw.Go())
		if err != nil {
			t.Fatalf("harness bug: damage grid base value %d is not accepted: %v", si, err)
		}
		holder := reflect.New(reflect.TypeOf(native))
		holder.Elem().Set(reflect.ValueOf(val.DeepCopy(native)))
		var locs []reflect.Value
		locations(holder.Elem(), &locs, 0)
		for li := range locs {
			for _, op := range []string{"validate", "serialize"} {
				idx++
				if !ev.Mine(idx) {
					continue
				}
				ds2 := []Damage{{Loc: li, Action: "zero", Exact: true}}
				for _, x := range cat {
					ds2 = append(ds2, Damage{Loc: li, Action: "foreign", With: x, Exact: true})
				}
				c := Case{Spec: ds.s, Op: op, Value: ds.raw, BatchDamage: ds2, PosKind: fmt.Sprintf("native_location_%d(%s)", li, locs[li].Type())}
				body, crash := w.Do(c, 60*time.Second)
				bad, msg := -1, ""
				applied := 0
				if crash != nil {
					for i := range ds2 {
						one := Case{Spec: ds.s, Op: op, Value: ds.raw, Damage: &ds2[i], PosKind: c.PosKind}
						if m, _ := judge(w, one); m != "" {
							bad, msg = i, m
							break
						}
					}
					if bad < 0 {
						ev.Class("damage_grid_unreproduced_batch_crash", 1)
					}
				} else {
					var r batchResult
					if err := json.Unmarshal(body, &r); err != nil {
						t.Fatalf("harness: bad worker answer: %v", err)
					}
					if r.Skipped != "" {
						t.Fatalf("harness bug: damage batch skipped: %s", r.Skipped)
					}
					applied = r.Values - r.Skips
					if r.Index >= 0 {
						bad = r.Index
						msg = fmt.Sprintf("operation panicked: %s\n at %s\n%s(native value damaged at location %d (%s) with %s)\nschema: %s", r.Text, r.Frame, op, li, locs[li].Type(), ds2[bad].With, specJSON(ds.s))
					}
					ev.Class("damage_grid_applied", int64(applied))
					ev.Class("damage_grid_misfit_skipped", int64(r.Skips))
				}
				for i := 0; i < applied; i++ {
					ev.Case(ev.FP("damage", si, li, op, i), true, "class:damage_grid", "op:"+op, "cell:native_location/"+op)
				}
				if bad >= 0 {
					ev.Fail(t, "op", Case{Spec: ds.s, Op: op, Value: ds.raw, Damage: &ds2[bad], PosKind: c.PosKind}, "%s", msg)
				}
			}
		}
	}
	ev.Exhaustive("damage grid: every settable location of the native values of 5 struct-mapped schemas x {zeroed, every native catalogue value that fits the location} x {Validate, Serialize}")
}

// entryBases: for every map-shaped grid schema, raw values that the schema accepts as they are (so that an operation
// gets past discriminator lookup, required checks and the like before it meets the extra entry).
func entryBases(k *spec.Spec) []val.V {
	kv := func(key val.V, v val.V) val.KV { return val.KV{K: key, V: v} }
	m := func(e ...val.KV) val.V { return val.V{T: "map[any]any", M: e} }
	one, x := val.Int("int64", 1), val.Str("x")
	switch k.Kind {
	case spec.KObject:
		if k.Struct != "" {
			return []val.V{m(), m(kv(val.Str("i"), one))}
		}
		return []val.V{m(kv(val.Str("p0"), one))}
	case spec.KOneOfS:
		if k.Inlined {
			return []val.V{m(kv(val.Str("k"), val.Str("a")), kv(val.Str("a"), one)), m(kv(val.Str("k"), val.Str("b")), kv(val.Str("b"), x))}
		}
		return []val.V{m(kv(val.Str("_type"), val.Str("a"))), m(kv(val.Str("_type"), val.Str("1")), kv(val.Str("a"), x))}
	case spec.KOneOfI:
		return []val.V{m(kv(val.Str("_type"), one)), m(kv(val.Str("_type"), val.Int("int64", 2)), kv(val.Str("a"), x))}
	case spec.KMap:
		switch k.Keys.Kind {
		case spec.KInt:
			return []val.V{m(kv(one, x))}
		case spec.KEnumS:
			return []val.V{m(kv(val.Str("a"), val.V{T: "[]any"}))}
		}
		return []val.V{m(kv(val.Str("a"), one))}
	case spec.KAny:
		return []val.V{m(kv(val.Str("a"), one))}
	case spec.KScope:
		return []val.V{m(kv(val.Str("v"), one))}
	}
	return nil
}

// TestEntryGrid: a value the schema accepts, plus ONE extra entry - every odd key kind x a few values - at every
// map-shaped grid schema and placement, for the operations that take decoder-domain maps. The catalogue grid only
// has maps that are odd as a whole; an operation that first looks up a discriminator or a required property and only
// then walks the entries meets an odd key only in a map that is otherwise in order.
func TestEntryGrid(t *testing.T) {
	if ev.Replaying() {
		t.Skip()
	}
	w := worker()
	defer func() {
		w.Close()
		theWorker = nil
	}()
	keys := []val.V{val.Nil(), val.Bool(true), val.Int("int64", 1), val.Int("int64", 2), val.Uint("uint64", 1), val.Int("int", 1), val.Float("float64", 0.5), val.Float("float64", math.NaN()),
		val.Float("float64", math.Inf(1)), val.Str("zz_extra"), val.Str(""), val.Str("_type"), val.Str("k"), val.Str("a"), {T: "time", S: "86400"}, {T: "tag", S: "42", L: []val.V{val.Int("int64", 1)}},
		{T: "simple", S: "200"}, {T: "array", L: []val.V{val.Int("int64", 1), val.Str("a")}}, val.V{T: "mystr", S: "a"}}
	vals := []val.V{val.Nil(), val.Int("int64", 1), val.Str("v"), {T: "map[any]any"}}
	specs, places := gridSpecs(), gridPlacements()
	idx, total := 0, 0
	for si, k := range specs {
		bases := entryBases(k)
		if len(bases) == 0 {
			continue
		}
		for _, pl := range places {
			s := pl.schema(k)
			for _, op := range []string{"unserialize", "compat", "validate", "serialize"} {
				idx++
				var batch []val.V
				for _, b := range bases {
					for _, key := range keys {
						for _, v := range vals {
							e := val.V{T: b.T, M: append(append([]val.KV(nil), b.M...), val.KV{K: key, V: v})}
							batch = append(batch, pl.value(e))
						}
					}
				}
				total += len(batch)
				if !ev.Mine(idx) {
					continue
				}
				c := Case{Spec: s, Op: op, Batch: batch, PosKind: "entry:" + pl.name + ":" + k.Kind}
				bad := -1
				var msg string
				body, crash := w.Do(c, 60*time.Second)
				if crash != nil {
					for i := range batch {
						one := Case{Spec: s, Op: op, Value: batch[i], PosKind: c.PosKind}
						if m, _ := judge(w, one); m != "" {
							bad, msg = i, m
							break
						}
					}
					if bad < 0 {
						ev.Class("grid_unreproduced_batch_crash", 1)
					}
				} else {
					var r batchResult
					if err := json.Unmarshal(body, &r); err != nil {
						t.Fatalf("harness: bad worker answer: %v", err)
					}
					if r.Skipped != "" {
						t.Fatalf("harness bug: entry grid batch skipped: %s", r.Skipped)
					}
					if r.Index >= 0 {
						one := Case{Spec: s, Op: op, Value: batch[r.Index], PosKind: c.PosKind}
						bad, msg = r.Index, fmt.Sprintf("operation panicked: %s\n at %s\n%s(%s) at a %s position\nschema: %s", r.Text, r.Frame, op, one.Value, one.PosKind, specJSON(s))
					}
					ev.Class("entry_grid_outcome:error", int64(r.Errors))
					ev.Class("entry_grid_outcome:value", int64(r.Values-r.Errors))
				}
				for i := range batch {
					ev.Case(ev.FP("entrygrid", si, pl.name, op, i), true, "class:entry_grid", "op:"+op)
				}
				if ev.WantSample("entry_grid_" + op) {
					ev.Sample("entry_grid_"+op, Case{Spec: s, Op: op, Value: batch[len(batch)/2], PosKind: c.PosKind})
				}
				if bad >= 0 {
					ev.Fail(t, "op", Case{Spec: s, Op: op, Value: batch[bad], PosKind: c.PosKind}, "%s", msg)
				}
			}
		}
	}
	ev.Exhaustive(fmt.Sprintf("entry grid: %d operations = accepted base values of every map-shaped grid schema + one extra entry (%d key kinds x %d values) x %d placements x 4 operations", total, len(keys), len(vals), len(places)))
}
