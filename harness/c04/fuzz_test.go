package c04

import (
	"bytes"
	"encoding/json"
	"fmt"
	"testing"

	"github.com/fxamacker/cbor/v2"
	"gopkg.in/yaml.v3"
	"verif/harness/ev"
	"verif/harness/gen"
	"verif/harness/val"
)

// decodeAny turns fuzz bytes into a Go value exactly as one of the three decoders the statement names would:
// CBOR as ATP uses it (default options into `any`), encoding/json, or yaml.v3.
func decodeAny(sel uint8, data []byte) (any, string, bool) {
	var v any
	switch sel % 3 {
	case 0:
		if err := cbor.Unmarshal(data, &v); err != nil {
			return nil, "cbor", false
		}
		return v, "cbor", true
	case 1:
		d := json.NewDecoder(bytes.NewReader(data))
		if err := d.Decode(&v); err != nil {
			return nil, "json", false
		}
		return v, "json", true
	}
	if err := yaml.Unmarshal(data, &v); err != nil {
		return nil, "yaml", false
	}
	return v, "yaml", true
}

// FuzzDecoded: coverage-guided search over (schema of the grid, placement, operation, decoder, bytes): whatever a
// real decoder makes of the bytes is handed to the operation; the oracle is totality (same execution function as the
// supervised worker, in-process; a stack overflow kills the fuzz worker and is converted by the driver).
func FuzzDecoded(f *testing.F) {
	specs, places := gridSpecs(), gridPlacements()
	ops := []string{"unserialize", "compat", "validate", "serialize"}
	for i, x := range gen.Catalogue(false) {
		g := x.Go()
		if b, err := cbor.Marshal(g); err == nil {
			f.Add(uint8(i), uint8(i/7), uint8(i/3), uint8(0), b)
		}
		if b, err := json.Marshal(g); err == nil {
			f.Add(uint8(i), uint8(i/5), uint8(i/2), uint8(1), b)
		}
		if b, err := yaml.Marshal(g); err == nil {
			f.Add(uint8(i), uint8(i/3), uint8(i), uint8(2), b)
		}
	}
	f.Add(uint8(16), uint8(0), uint8(1), uint8(0), []byte{0xa1, 0xf6, 0x61, 0x76})
	f.Add(uint8(16), uint8(0), uint8(0), uint8(2), []byte("~: v\n2001-01-01: x\n[1, 2]: y\n"))
	f.Fuzz(func(t *testing.T, specSel, placeSel, opSel, decSel uint8, data []byte) {
		if len(data) > 4096 {
			return
		}
		raw, dec, ok := decodeAny(decSel, data)
		if !ok {
			return
		}
		k := specs[int(specSel)%len(specs)]
		pl := places[int(placeSel)%len(places)]
		c := Case{Spec: pl.schema(k), Op: ops[int(opSel)%len(ops)], Value: pl.value(val.Describe(raw)), PosKind: "fuzz_" + dec + ":" + pl.name + ":" + k.Kind}
		if ev.FuzzConvert("op", c) {
			return
		}
		b, err := json.Marshal(c)
		if err != nil {
			return
		}
		var r result
		if err := json.Unmarshal(workerFn(b), &r); err != nil {
			t.Fatalf("harness: %v", err)
		}
		nontrivial := r.Outcome == "error" || r.Outcome == "value"
		ev.Case(ev.FP("fuzz", c.Op, specSel, placeSel, c.Value.String()), nontrivial, "fuzz_decoder:"+dec, "fuzz_outcome:"+r.Outcome, "cell:"+k.Kind+"/"+c.Op)
		if r.Outcome == "panic" {
			ev.Fail(t, "op", c, "operation panicked: %s\n at %s\n%s(%s) at a %s position\nschema: %s", r.Text, r.Frame, c.Op, c.Value, c.PosKind, specJSON(c.Spec))
		}
		_ = fmt.Sprint
	})
}
