package c04

import (
	"encoding/json"
	"fmt"
	"os"
	"reflect"
	"regexp"
	"runtime/debug"
	"strings"
	"testing"
	"time"

	"go.flow.arcalot.io/pluginsdk/schema"
	"pgregory.net/rapid"
	"verif/harness/ev"
	"verif/harness/gen"
	"verif/harness/model"
	"verif/harness/spec"
	"verif/harness/sup"
	"verif/harness/val"
)

func TestMain(m *testing.M) {
	sup.Register("c04", workerFn)
	if sup.IsWorker() {
		sup.RunWorker()
	}
	ev.Note("rule", "C04: rapid-generated schemas of every kind (incl. unrestricted IDs, struct-mapped objects, typed enums, one-of, treat-empty-as-default properties, recursive references). Values: (1) a valid-by-construction raw input with one hostile value substituted at a schema-directed random position (decoder domain: nil, bool, every int/uint/float width, extreme ints, NaN/Inf, strings, []byte, time.Time, big.Int, cbor.Tag, cbor.SimpleValue, []any, map[any]any with mixed keys, map[string]any, typed slices/maps) for Unserialize and data-mode ValidateCompatibility; (2) the same trees plus named scalar types, nil pointers, nil *regexp.Regexp, arrays, structs, complex, chan, func given directly to Validate/Serialize; (3) genuine native values obtained from Unserialize and then damaged by reflection at a random settable location (zeroed, nil-ed, replaced by a foreign value / wrong struct type); (4) deep nesting (10000-deep lists/maps, long recursive chains); (5) a complete grid: a fixed catalogue of decoder-domain and native values (every odd scalar, every container type with every kind of odd element, every kind of odd map key incl. nil, time, tag, array keys) x 24 fixed schemas covering every type kind x 5 placements (root, list item, map value, property, property of a one-of member) x the four operations. Every operation runs in a supervised worker process: outcome value/error is fine, panic (recovered, with top SDK frame), fatal error or no return is a violation. Non-trivial: the value at the chosen position is not what the position expects (substituted or damaged); distinct by (schema, operation, value).")
	ev.RegisterReplay("op", func(t *testing.T, raw json.RawMessage) {
		var c Case
		if err := json.Unmarshal(raw, &c); err != nil {
			t.Fatal(err)
		}
		w := sup.NewWorker("c04")
		defer w.Close()
		if msg, _ := judge(w, c); msg != "" {
			t.Fatal(msg)
		}
	})
	ev.Main(m, "C04")
}

func TestReplay(t *testing.T) { ev.RunReplay(t) }

// Case is one operation on one schema.
type Case struct {
	Spec  *spec.Spec `json:"spec"`
	Op    string     `json:"op"` // unserialize, compat, validate, serialize
	Value val.V      `json:"value"`
	// Damage: for validate/serialize, first Unserialize(Value) and then damage the native result at location Loc.
	Damage *Damage `json:"damage,omitempty"`
	// Deep: build a synthetic deeply nested value instead of Value: kind ("list","map","node") and depth.
	Deep      string `json:"deep,omitempty"`
	DeepDepth int    `json:"deep_depth,omitempty"`
	PosKind   string `json:"pos_kind,omitempty"`
	// Batch: run Op on each of these values in turn (grid sweep); the answer is a batchResult.
	Batch []val.V `json:"batch,omitempty"`
	// BatchDamage: run Op on Value damaged in each of these ways in turn (damage grid); the answer is a batchResult.
	BatchDamage []Damage `json:"batch_damage,omitempty"`
}

type Damage struct {
	Loc    int    `json:"loc"`
	Action string `json:"action"` // zero, foreign
	With   val.V  `json:"with"`
	Exact  bool   `json:"exact,omitempty"` // grid mode: skip instead of wrapping Loc around or zeroing a misfit
}

type result struct {
	Outcome string `json:"outcome"` // value, error, panic, skip
	Text    string `json:"text,omitempty"`
	Frame   string `json:"frame,omitempty"`
}

var frameRe = regexp.MustCompile(`pluginsdk/(schema|atp|plugin)\.[^\n]*\n\s+(/repo/[^\s]+)`)

func topFrame(stack string) string {
	if m := frameRe.FindStringSubmatch(stack); m != nil {
		return m[2]
	}
	return ""
}

// locations enumerates the settable places of a native value (depth-first, deterministic).
func locations(v reflect.Value, out *[]reflect.Value, depth int) {
	if depth > 12 || !v.IsValid() {
		return
	}
	if v.CanSet() {
		*out = append(*out, v)
	}
	switch v.Kind() {
	case reflect.Pointer, reflect.Interface:
		if !v.IsNil() && v.Type() != reflect.TypeOf(&regexp.Regexp{}) {
			locations(v.Elem(), out, depth+1)
		}
	case reflect.Struct:
		for i := 0; i < v.NumField(); i++ {
			if v.Type().Field(i).IsExported() {
				locations(v.Field(i), out, depth+1)
			}
		}
	case reflect.Slice:
		for i := 0; i < v.Len() && i < 4; i++ {
			locations(v.Index(i), out, depth+1)
		}
	}
}

func deepValue(kind string, depth int) any {
	switch kind {
	case "list":
		var v any = int64(1)
		for i := 0; i < depth; i++ {
			v = []any{v}
		}
		return v
	case "map":
		var v any = "x"
		for i := 0; i < depth; i++ {
			v = map[string]any{"next": v}
		}
		return v
	case "mapany":
		var v any = "x"
		for i := 0; i < depth; i++ {
			v = map[any]any{"next": v}
		}
		return v
	}
	return nil
}

// applyDamage obtains a genuine native value (Unserialize of a valid raw value; not judged here) and damages it by
// reflection at one settable location. The second result is non-empty when there is nothing to damage.
func applyDamage(sch schema.Type, value any, d *Damage) (any, string) {
	var native any
	var uerr error
	func() {
		defer func() {
			if e := recover(); e != nil {
				uerr = fmt.Errorf("panic: %v", e)
			}
		}()
		native, uerr = sch.Unserialize(value)
	}()
	if uerr != nil || native == nil {
		return nil, "no native value to damage"
	}
	holder := reflect.New(reflect.TypeOf(native))
	holder.Elem().Set(reflect.ValueOf(val.DeepCopy(native)))
	var locs []reflect.Value
	locations(holder.Elem(), &locs, 0)
	if len(locs) == 0 {
		return nil, "no location"
	}
	if d.Loc >= len(locs) && d.Exact {
		return nil, "no such location"
	}
	loc := locs[d.Loc%len(locs)]
	switch d.Action {
	case "zero":
		loc.Set(reflect.Zero(loc.Type()))
	default:
		with := d.With.Go()
		wv := reflect.ValueOf(with)
		switch {
		case with == nil:
			loc.Set(reflect.Zero(loc.Type()))
		case wv.Type().AssignableTo(loc.Type()):
			loc.Set(wv)
		case wv.Type().ConvertibleTo(loc.Type()) && loc.Kind() != reflect.String:
			func() {
				defer func() { _ = recover() }()
				loc.Set(wv.Convert(loc.Type()))
			}()
		default:
			if d.Exact {
				return nil, "value does not fit the location"
			}
			loc.Set(reflect.Zero(loc.Type()))
		}
	}
	return holder.Elem().Interface(), ""
}

func workerFn(raw json.RawMessage) json.RawMessage {
	var c Case
	res := result{}
	var batchAnswer json.RawMessage
	if err := json.Unmarshal(raw, &c); err != nil {
		res.Outcome, res.Text = "skip", "bad case: "+err.Error()
		b, _ := json.Marshal(res)
		return b
	}
	func() {
		sch, err := spec.Build(c.Spec)
		if err != nil {
			res.Outcome, res.Text = "skip", err.Error()
			return
		}
		if len(c.Batch) > 0 || len(c.BatchDamage) > 0 {
			n := len(c.Batch) + len(c.BatchDamage)
			br := batchResult{Index: -1, Values: n}
			for i := 0; i < n; i++ {
				var value any
				if len(c.Batch) > 0 {
					value = c.Batch[i].Go()
				} else {
					d := c.BatchDamage[i]
					damaged, skip := applyDamage(sch, c.Value.Go(), &d)
					if skip != "" {
						br.Skips++
						continue
					}
					value = damaged
				}
				var operr error
				var pan any
				var stack string
				func() {
					defer func() {
						if e := recover(); e != nil {
							pan, stack = e, string(debug.Stack())
						}
					}()
					switch c.Op {
					case "unserialize":
						_, operr = sch.Unserialize(value)
					case "compat":
						operr = sch.ValidateCompatibility(value)
					case "validate":
						operr = sch.Validate(value)
					case "serialize":
						_, operr = sch.Serialize(value)
					}
				}()
				if pan != nil {
					br.Index, br.Text, br.Frame = i, fmt.Sprint(pan), topFrame(stack)
					break
				}
				if operr != nil {
					br.Errors++
				}
			}
			b, _ := json.Marshal(br)
			batchAnswer = b
			return
		}
		var value any
		if c.Deep != "" {
			value = deepValue(c.Deep, c.DeepDepth)
		} else {
			value = c.Value.Go()
		}
		if c.Damage != nil {
			damaged, skip := applyDamage(sch, value, c.Damage)
			if skip != "" {
				res.Outcome, res.Text = "skip", skip
				return
			}
			value = damaged
		}
		defer func() {
			if e := recover(); e != nil {
				res.Outcome = "panic"
				res.Text = fmt.Sprint(e)
				res.Frame = topFrame(string(debug.Stack()))
			}
		}()
		var operr error
		switch c.Op {
		case "unserialize":
			_, operr = sch.Unserialize(value)
		case "compat":
			if _, isType := value.(schema.Type); isType {
				res.Outcome = "skip"
				return
			}
			operr = sch.ValidateCompatibility(value)
		case "validate":
			operr = sch.Validate(value)
		case "serialize":
			_, operr = sch.Serialize(value)
		}
		if operr != nil {
			res.Outcome, res.Text = "error", operr.Error()
			if len(res.Text) > 300 {
				res.Text = res.Text[:300]
			}
		} else {
			res.Outcome = "value"
		}
	}()
	if batchAnswer != nil {
		return batchAnswer
	}
	b, _ := json.Marshal(res)
	return b
}

var theWorker *sup.Worker

func worker() *sup.Worker {
	if theWorker == nil {
		theWorker = sup.NewWorker("c04")
	}
	return theWorker
}

func specJSON(s *spec.Spec) string {
	b, _ := json.Marshal(s)
	return string(b)
}

// hasShorthandSelfRef: the recorded known finding - an object whose only property is a reference that leads back to
// the object, directly or through other objects whose only property is a reference.
func hasShorthandSelfRef(s *spec.Spec) bool {
	next := map[string]string{}
	spec.Walk(s, func(n *spec.Spec) {
		if n.Kind == spec.KObject && len(n.Props) == 1 && n.Props[0].Type.Kind == spec.KRef && n.Props[0].Type.Namespace == "" {
			next[n.ID] = n.Props[0].Type.RefID
		}
		if n.Kind == spec.KObject && len(n.Props) == 1 && n.Props[0].Type.Kind == spec.KObject {
			next[n.ID] = n.Props[0].Type.ID // an object written in place
		}
	})
	for start := range next {
		at := start
		for i := 0; i <= len(next); i++ {
			n, ok := next[at]
			if !ok {
				break
			}
			if n == start {
				return true
			}
			at = n
		}
	}
	return false
}

// judge runs the case in the worker. Returns (message, outcome).
func judge(w *sup.Worker, c Case) (string, string) {
	body, crash := w.Do(c, 20*time.Second)
	describe := func() string {
		v := c.Value.String()
		if c.Deep != "" {
			v = fmt.Sprintf("<%s nested %d deep>", c.Deep, c.DeepDepth)
		}
		if c.Damage != nil {
			v = fmt.Sprintf("Unserialize(%s) damaged at location %d (%s %s)", v, c.Damage.Loc, c.Damage.Action, c.Damage.With)
		}
		if len(v) > 1500 {
			v = v[:1500] + "..."
		}
		return fmt.Sprintf("%s(%s) at a %s position\nschema: %s", c.Op, v, c.PosKind, specJSON(c.Spec))
	}
	if crash != nil {
		if hasShorthandSelfRef(c.Spec) && strings.Contains(crash.Text+crash.Log, "stack") && ev.Known("shorthand-selfref") {
			return "", "known"
		}
		if crash.Kind == "timeout" {
			return fmt.Sprintf("operation did not return (%s): %s\n%s", crash.Text, describe(), tailLines(crash.Log, 40)), "hang"
		}
		return fmt.Sprintf("operation killed the process (%s): %s\n%s", crash.Text, describe(), tailLines(crash.Log, 30)), "fatal"
	}
	var r result
	if err := json.Unmarshal(body, &r); err != nil {
		return "harness: bad worker answer: " + err.Error(), "harness"
	}
	if r.Outcome == "panic" {
		return fmt.Sprintf("operation panicked: %s\n at %s\n%s", r.Text, r.Frame, describe()), "panic"
	}
	return "", r.Outcome
}

func tailLines(s string, n int) string {
	lines := strings.Split(s, "\n")
	if len(lines) > n {
		lines = lines[:n]
	}
	return strings.Join(lines, "\n")
}

// substitute replaces the value at a schema-directed random position of a rendered raw value.
func substitute(t *rapid.T, s *spec.Spec, env *model.Env, v val.V, with val.V) (val.V, string) {
	stop := rapid.IntRange(0, 2).Draw(t, "stopHere") == 0
	switch s.Kind {
	case spec.KList:
		if !stop && len(v.L) > 0 {
			i := rapid.IntRange(0, len(v.L)-1).Draw(t, "listIdx")
			c := v
			c.L = append([]val.V(nil), v.L...)
			if c.T != "[]any" {
				c.T = "[]any"
			}
			var k string
			c.L[i], k = substitute(t, s.Items, env, v.L[i], with)
			return c, k
		}
	case spec.KMap:
		if !stop && len(v.M) > 0 {
			i := rapid.IntRange(0, len(v.M)-1).Draw(t, "mapIdx")
			c := v
			c.M = append([]val.KV(nil), v.M...)
			c.T = "map[any]any"
			if rapid.IntRange(0, 3).Draw(t, "replaceKey") == 0 && hashable(with) {
				c.M[i].K = with
				return c, "map_key:" + s.Keys.Kind
			}
			var k string
			c.M[i].V, k = substitute(t, s.Values, env, v.M[i].V, with)
			return c, k
		}
	case spec.KObject, spec.KRef, spec.KScope, spec.KOneOfI, spec.KOneOfS:
		if !stop && len(v.M) > 0 && (v.T == "map[string]any" || v.T == "map[any]any") {
			var o *spec.Spec
			var oenv *model.Env
			if s.Kind == spec.KOneOfI || s.Kind == spec.KOneOfS {
				// find the member through the discriminator value
				for _, e := range v.M {
					if e.K.S == s.Discriminator {
						for j := range s.Members {
							if e.V.S == s.Members[j].KeyS || e.V.S == fmt.Sprint(s.Members[j].KeyI) {
								o, oenv = model.Resolve(s.Members[j].Type, env)
							}
						}
					}
				}
			} else {
				o, oenv = model.Resolve(s, env)
			}
			if o != nil {
				i := rapid.IntRange(0, len(v.M)-1).Draw(t, "propIdx")
				if p := o.PropByName(v.M[i].K.S); p != nil {
					c := v
					c.M = append([]val.KV(nil), v.M...)
					var k string
					c.M[i].V, k = substitute(t, p.Type, oenv, v.M[i].V, with)
					return c, k
				}
				if v.M[i].K.S == s.Discriminator {
					c := v
					c.M = append([]val.KV(nil), v.M...)
					c.M[i].V = with
					return c, "discriminator:" + s.Kind
				}
			}
		}
	}
	return with, s.Kind
}

func hashable(v val.V) bool {
	switch v.T {
	case "nil", "bool", "int", "int8", "int16", "int32", "int64", "uint", "uint8", "uint16", "uint32", "uint64", "float32", "float64", "string", "mystr", "myint", "time", "simple":
		return true
	}
	return false
}

func c04Opts(depth int) gen.Opts {
	o := gen.Full(depth)
	o.WildIDs = true
	o.TypedContainers = true // totality needs no model of the native forms
	return o
}

func TestTotality(t *testing.T) {
	if !ev.Replaying() {
		defer func() {
			if theWorker != nil {
				theWorker.Close()
			}
		}()
	}
	depth := ev.N(3, 4)
	ev.Check(t, "totality", 4000, 100000, func(rt *rapid.T) {
		o := c04Opts(depth)
		s := gen.Spec(o).Draw(rt, "spec")
		gen.AddDefaults(rt, s, o)
		op := rapid.SampledFrom([]string{"unserialize", "unserialize", "compat", "validate", "serialize"}).Draw(rt, "op")
		c := Case{Spec: s, Op: op}
		mv, ok := gen.ValueFor(rt, s, nil, 3)
		mode := rapid.IntRange(0, 9).Draw(rt, "mode")
		var with val.V
		if op == "validate" || op == "serialize" {
			with = gen.Native(2).Draw(rt, "with")
		} else {
			with = gen.Hostile(2).Draw(rt, "with")
		}
		cls := "substituted"
		switch {
		case !ok || mode == 0:
			c.Value, c.PosKind, cls = with, s.Kind, "root_replaced"
		case (op == "validate" || op == "serialize") && mode >= 6:
			c.Value = gen.Render(rt, s, nil, mv).V
			c.Damage = &Damage{Loc: rapid.IntRange(0, 200).Draw(rt, "loc"), Action: rapid.SampledFrom([]string{"zero", "foreign", "foreign"}).Draw(rt, "action"), With: with}
			c.PosKind, cls = "native_location", "native_damaged"
		case mode == 1:
			c.Value, c.PosKind, cls = gen.Render(rt, s, nil, mv).V, s.Kind, "valid_input"
		default:
			var base val.V
			if op == "validate" || op == "serialize" {
				base = gen.RenderCanonical(rt, s, nil, mv)
			} else {
				base = gen.Render(rt, s, nil, mv).V
			}
			c.Value, c.PosKind = substitute(rt, s, nil, base, with)
		}
		msg, outcome := judge(worker(), c)
		vt := with.T
		ev.Case(ev.FP(specJSON(s), op, c.Value.String(), fmt.Sprint(c.Damage)), cls != "valid_input", "outcome:"+outcome, "class:"+cls, "op:"+op, "cell:"+strings.SplitN(c.PosKind, ":", 2)[0]+"/"+op, "valtype:"+vt)
		if ev.WantSample(cls + "_" + op) {
			ev.Sample(cls+"_"+op, c)
		}
		if msg != "" {
			if os.Getenv("VERIF_COLLECT") != "" {
				// survey mode (development aid): count distinct failure signatures instead of stopping
				first := strings.SplitN(msg, "\n", 3)
				sig := first[0]
				if len(first) > 1 {
					sig += " |" + first[1]
				}
				if len(sig) > 200 {
					sig = sig[:200]
				}
				ev.Class("SIG "+op+": "+sig, 1)
				return
			}
			ev.Fail(rt, "op", c, "%s", msg)
		}
	})
}

// TestDeep: nesting up to what the decoders can produce (JSON/YAML: 10000; CBOR: 32) at list/map/any/recursive positions.
func TestDeep(t *testing.T) {
	if ev.Replaying() {
		t.Skip()
	}
	w := sup.NewWorker("c04")
	defer w.Close()
	anyS := &spec.Spec{Kind: spec.KAny}
	listAny := &spec.Spec{Kind: spec.KList, Items: anyS}
	mapAny := &spec.Spec{Kind: spec.KMap, Keys: &spec.Spec{Kind: spec.KString}, Values: anyS}
	nodeScope := &spec.Spec{Kind: spec.KScope, Root: "N", Objects: []*spec.Spec{{Kind: spec.KObject, ID: "N", Props: []spec.Prop{{Name: "next", Type: &spec.Spec{Kind: spec.KRef, RefID: "N"}}, {Name: "v", Type: &spec.Spec{Kind: spec.KString}}}}}}
	nodeStruct := &spec.Spec{Kind: spec.KScope, Root: "N", Objects: []*spec.Spec{{Kind: spec.KObject, ID: "N", Struct: "*Node", Props: []spec.Prop{{Name: "next", Type: &spec.Spec{Kind: spec.KRef, RefID: "N"}}, {Name: "v", Type: &spec.Spec{Kind: spec.KInt}}}}}}
	idx := 0
	for _, s := range []*spec.Spec{anyS, listAny, mapAny, nodeScope, nodeStruct, {Kind: spec.KInt}, {Kind: spec.KString}} {
		for _, deep := range []string{"list", "map", "mapany"} {
			for _, d := range []int{1, 32, 33, 1000, 10000} {
				for _, op := range []string{"unserialize", "compat", "validate", "serialize"} {
					idx++
					if !ev.Mine(idx) {
						continue
					}
					c := Case{Spec: s, Op: op, Deep: deep, DeepDepth: d, PosKind: s.Kind}
					msg, outcome := judge(w, c)
					ev.Case(ev.FP("deep", specJSON(s), deep, d, op), d > 1, "deep:"+outcome)
					if msg != "" {
						ev.Fail(t, "op", c, "%s", msg)
					}
				}
			}
		}
	}
}

// TestKnownShorthandSelfRef exercises the recorded finding so that its KNOWN-FINDING line reports real hits.
func TestKnownShorthandSelfRef(t *testing.T) {
	if ev.Replaying() {
		t.Skip()
	}
	if sh, _ := ev.Shard(); sh != 0 {
		t.Skip()
	}
	w := sup.NewWorker("c04")
	defer w.Close()
	s := &spec.Spec{Kind: spec.KScope, Root: "N", Objects: []*spec.Spec{{Kind: spec.KObject, ID: "N", Props: []spec.Prop{{Name: "next", Type: &spec.Spec{Kind: spec.KRef, RefID: "N"}}}}}}
	c := Case{Spec: s, Op: "unserialize", Value: val.Int("int64", 5), PosKind: "scope"}
	msg, outcome := judge(w, c)
	ev.Case(ev.FP("known-shorthand-selfref"), true, "known_case:"+outcome)
	if msg != "" {
		ev.Fail(t, "op", c, "%s", msg)
	}
	_ = os.Stderr
}
