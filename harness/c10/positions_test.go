package c10

import (
	"fmt"
	"strings"
	"testing"

	"go.flow.arcalot.io/pluginsdk/schema"

	"verif/harness/ev"
	"verif/harness/oracle"
	"verif/harness/spec"
	"verif/harness/val"
)

// positionShapes are small scopes that need both halves of the load step (linking of references and verification of
// roots, IDs and texts): the random descriptions of TestMutatedPluginSchemas are large and sampled, these are small
// enough to enumerate every single mutation of, at every position of a plugin schema that carries a scope.
func positionShapes() map[string]func(prefix string) *spec.Spec {
	integer, str := &spec.Spec{Kind: spec.KInt}, &spec.Spec{Kind: spec.KString}
	one := "1"
	return map[string]func(string) *spec.Spec{
		"refs": func(p string) *spec.Spec {
			a := &spec.Spec{Kind: spec.KObject, ID: p + "A", Props: []spec.Prop{
				{Name: "p", Type: &spec.Spec{Kind: spec.KRef, RefID: p + "B"}},
				{Name: "q", Type: integer, Default: &one},
			}}
			b := &spec.Spec{Kind: spec.KObject, ID: p + "B", Props: []spec.Prop{{Name: "s", Type: str}}}
			return &spec.Spec{Kind: spec.KScope, Root: p + "A", Objects: []*spec.Spec{a, b}}
		},
		"oneof": func(p string) *spec.Spec {
			b := &spec.Spec{Kind: spec.KObject, ID: p + "B", Props: []spec.Prop{{Name: "s", Type: str}}}
			c := &spec.Spec{Kind: spec.KObject, ID: p + "C", Props: []spec.Prop{{Name: "n", Type: integer, Default: &one}}}
			oo := &spec.Spec{Kind: spec.KOneOfS, Discriminator: "kind", Members: []spec.Member{
				{KeyS: "b", Type: &spec.Spec{Kind: spec.KRef, RefID: p + "B"}},
				{KeyS: "c", Type: &spec.Spec{Kind: spec.KRef, RefID: p + "C"}},
			}}
			a := &spec.Spec{Kind: spec.KObject, ID: p + "A", Props: []spec.Prop{
				{Name: "p", Type: oo},
				{Name: "l", Type: &spec.Spec{Kind: spec.KList, Items: &spec.Spec{Kind: spec.KRef, RefID: p + "B"}}},
			}}
			return &spec.Spec{Kind: spec.KScope, Root: p + "A", Objects: []*spec.Spec{a, b, c}}
		},
		// disabled properties whose types need linking and verification like any other (only Unserialize refuses a
		// disabled property before looking at its type)
		"disabled": func(p string) *spec.Spec {
			b := &spec.Spec{Kind: spec.KObject, ID: p + "B", Props: []spec.Prop{{Name: "s", Type: str}}}
			inner := &spec.Spec{Kind: spec.KScope, Root: p + "N", Objects: []*spec.Spec{{Kind: spec.KObject, ID: p + "N", Props: []spec.Prop{{Name: "n", Type: integer}}}}}
			inPlace := &spec.Spec{Kind: spec.KObject, ID: p + "I", Props: []spec.Prop{{Name: "n", Type: integer, Default: &one}, {Name: "t", Type: str}}}
			a := &spec.Spec{Kind: spec.KObject, ID: p + "A", Props: []spec.Prop{
				{Name: "d", Type: &spec.Spec{Kind: spec.KRef, RefID: p + "B"}, Disabled: true, DisabledReason: "not here"},
				{Name: "e", Type: inner, Disabled: true},
				{Name: "f", Type: &spec.Spec{Kind: spec.KList, Items: inPlace}, Disabled: true},
				{Name: "q", Type: integer},
			}}
			return &spec.Spec{Kind: spec.KScope, Root: p + "A", Objects: []*spec.Spec{a, b}}
		},
		// objects written in place (not registered in the scope) as one-of member, list item and map value, each with
		// a default text and a reference of its own
		"inplace": func(p string) *spec.Spec {
			b := &spec.Spec{Kind: spec.KObject, ID: p + "B", Props: []spec.Prop{{Name: "s", Type: str}}}
			inPlace := func(id string) *spec.Spec {
				return &spec.Spec{Kind: spec.KObject, ID: p + id, Props: []spec.Prop{
					{Name: "n", Type: integer, Default: &one},
					{Name: "r", Type: &spec.Spec{Kind: spec.KRef, RefID: p + "B"}},
				}}
			}
			oo := &spec.Spec{Kind: spec.KOneOfS, Discriminator: "kind", Members: []spec.Member{
				{KeyS: "b", Type: &spec.Spec{Kind: spec.KRef, RefID: p + "B"}},
				{KeyS: "i", Type: inPlace("I1")},
			}}
			a := &spec.Spec{Kind: spec.KObject, ID: p + "A", Props: []spec.Prop{
				{Name: "p", Type: oo},
				{Name: "l", Type: &spec.Spec{Kind: spec.KList, Items: inPlace("I2")}},
				{Name: "m", Type: &spec.Spec{Kind: spec.KMap, Keys: str, Values: inPlace("I3")}},
			}}
			return &spec.Spec{Kind: spec.KScope, Root: p + "A", Objects: []*spec.Spec{a, b}}
		},
	}
}

func kv(k string, v val.V) val.KV { return val.KV{K: val.Str(k), V: v} }

var positionInputs = []val.V{
	{T: "map[string]any"},
	val.Int("int64", 5),
	val.Str("x"),
	val.Map("map[string]any", kv("p", val.Map("map[string]any", kv("s", val.Str("x")))), kv("q", val.Int("int64", 2))),
	val.Map("map[string]any", kv("p", val.Map("map[string]any", kv("kind", val.Str("b")), kv("s", val.Str("x")))), kv("l", val.List("[]any", val.Map("map[string]any", kv("s", val.Str("y")))))),
	val.Map("map[any]any", kv("p", val.Map("map[any]any", kv("kind", val.Str("c"))))),
	val.Map("map[string]any", kv("d", val.Map("map[string]any", kv("s", val.Str("x")))), kv("q", val.Int("int64", 1))),
	val.Map("map[any]any", kv("e", val.Map("map[any]any", kv("n", val.Int("int64", 1))))),
	val.Map("map[string]any", kv("f", val.List("[]any", val.Map("map[any]any", kv("t", val.Str("x")))))),
	val.Map("map[string]any", kv("p", val.Map("map[string]any", kv("kind", val.Str("i")))), kv("l", val.List("[]any", val.Map("map[string]any"))), kv("m", val.Map("map[string]any", kv("a", val.Map("map[string]any", kv("r", val.Map("map[string]any", kv("s", val.Str("x"))))))))),
}

// TestPositions: every single mutation of small plugin descriptions in which each position that carries a scope
// (input, outputs, signal handler data, signal emitter data) holds a scope with references, for every way the IDs of
// the step's tables can coincide (handler and emitter under one ID or two; an output named like a signal).
func TestPositions(t *testing.T) {
	if ev.Replaying() {
		t.Skip()
	}
	w := worker()
	defer w.Close()
	idx, total := 0, 0
	shapes := positionShapes()
	for _, shapeName := range []string{"refs", "oneof", "inplace", "disabled"} {
		mk := func(prefix string) *schema.ScopeSchema {
			b, err := spec.Build(shapes[shapeName](prefix))
			if err != nil {
				t.Fatalf("harness bug: %v", err)
			}
			return b.(*schema.ScopeSchema)
		}
		for _, ids := range [][3]string{{"sig", "emit", "success"}, {"sig", "sig", "success"}, {"sig", "sig", "sig"}} {
			handlerID, emitterID, outputID := ids[0], ids[1], ids[2]
			steps := map[string]*schema.StepSchema{
				"sig": schema.NewStepSchema("sig", mk("In"),
					map[string]*schema.StepOutputSchema{
						outputID: schema.NewStepOutputSchema(mk("Out"), nil, false),
						"error":  schema.NewStepOutputSchema(mk("Err"), nil, true),
					},
					map[string]*schema.SignalSchema{handlerID: schema.NewSignalSchema(handlerID, mk("Han"), nil)},
					map[string]*schema.SignalSchema{emitterID: schema.NewSignalSchema(emitterID, mk("Emi"), nil)},
					nil),
			}
			var d any
			var err error
			if p := oracle.Safely(func() { d, err = schema.NewSchema(steps).SelfSerialize() }); p != nil || err != nil {
				t.Fatalf("harness bug: position plugin not describable: %v %v", p, err)
			}
			desc := val.Describe(d)
			base := Case{Entry: "schema", Desc: desc, Inputs: positionInputs, Mutation: "none"}
			if msg, outcome := judge(w, base); msg != "" || outcome != "usable" {
				t.Fatalf("the unmutated position description is not usable: %s %s", outcome, msg)
			}
			muts := enumerate(desc)
			total += len(muts)
			for _, m := range muts {
				idx++
				if !ev.Mine(idx) {
					continue
				}
				c := Case{Entry: "schema", Desc: apply(desc, m.path, m.f), Inputs: positionInputs, Mutation: m.name}
				msg, outcome := judge(w, c)
				kind := strings.SplitN(m.name, " ", 2)[0]
				pos := "other"
				for _, p := range []string{"signal_handlers", "signal_emitters", "outputs", "input"} {
					if strings.Contains(m.name, "."+p) {
						pos = p
						break
					}
				}
				ev.Case(ev.FP("positions", shapeName, handlerID, emitterID, outputID, m.name), outcome == "usable", "position_mutation:"+kind+":"+outcome, "position:"+pos+":"+outcome, fmt.Sprintf("position_ids:handler=emitter:%v", handlerID == emitterID))
				if outcome == "usable" && ev.WantSample("position_"+pos) {
					ev.Sample("position_"+pos, map[string]any{"mutation": m.name, "shape": shapeName, "ids": ids})
				}
				if msg != "" {
					fail(t, c, msg)
				}
			}
		}
	}
	ev.Exhaustive(fmt.Sprintf("positions: all %d single mutations of 12 small plugin descriptions (4 scope shapes with references - one with objects written in place as one-of member / list item / map value, one with disabled properties - x 3 ways the handler / emitter / output IDs coincide), every scope-carrying position holding a scope that needs linking and verification", total))
}
