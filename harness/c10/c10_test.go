package c10

import (
	"encoding/json"
	"fmt"
	"os"
	"regexp"
	"runtime/debug"
	"strings"
	"testing"
	"time"

	"go.flow.arcalot.io/pluginsdk/schema"
	"pgregory.net/rapid"
	"verif/harness/ev"
	"verif/harness/gen"
	"verif/harness/oracle"
	"verif/harness/spec"
	"verif/harness/sup"
	"verif/harness/val"
)

func TestMain(m *testing.M) {
	sup.Register("c10", workerFn)
	if sup.IsWorker() {
		sup.RunWorker()
	}
	ev.Note("rule", "C10: valid descriptions are produced by describing rapid-generated scopes and plugin schemas (C09's generator); then every single structural mutation at every node of the description is enumerated - delete a key, rename a key, replace a value by each of nil / bool / 0 / -1 / 2^62 / 0.5 / \"\" / \"x\" / [] / {} / a too-deep list, re-point id / root / type_id / namespace / discriminator strings, replace default and pattern texts by unparsable ones, make unit multipliers 0 / negative / 1 - plus sampled double mutations and grammar-free decoder-domain trees. Each mutated description is loaded through UnserializeScope / UnserializeSchema in a supervised worker: the load must return an error or a schema; if it returns a schema, every scope of it is exercised (ValidateReferences, SelfSerialize, Unserialize of empty, valid and hostile inputs, then Validate / Serialize / data-mode ValidateCompatibility of what came back) and all of that must be total (value or error; no panic, fatal error or hang). Non-trivial: the mutated description is accepted by the load step (so the exercise stage runs); distinct by (description, mutation).")
	ev.RegisterReplay("load", func(t *testing.T, raw json.RawMessage) {
		var c Case
		if err := json.Unmarshal(raw, &c); err != nil {
			t.Fatal(err)
		}
		w := sup.NewWorker("c10")
		defer w.Close()
		if msg, _ := judge(w, c); msg != "" {
			t.Fatal(msg)
		}
	})
	ev.Main(m, "C10")
}

func TestReplay(t *testing.T) { ev.RunReplay(t) }

type Case struct {
	Entry    string  `json:"entry"` // scope | schema
	Desc     val.V   `json:"desc"`
	Inputs   []val.V `json:"inputs,omitempty"`
	Mutation string  `json:"mutation,omitempty"`
}

type result struct {
	Outcome string `json:"outcome"` // rejected, usable, panic, skip
	Stage   string `json:"stage,omitempty"`
	Text    string `json:"text,omitempty"`
}

func frame(st string) string {
	i := strings.Index(st, "/repo/")
	if i < 0 {
		return ""
	}
	j := strings.IndexByte(st[i:], '\n')
	if j < 0 {
		return st[i:]
	}
	return st[i : i+j]
}

func exercise(sc schema.Scope, inputs []val.V, stage *string) {
	*stage = "ValidateReferences"
	_ = sc.ValidateReferences()
	*stage = "SelfSerialize"
	_, _ = sc.SelfSerialize()
	for i, in := range inputs {
		*stage = fmt.Sprintf("Unserialize(input %d)", i)
		u, err := sc.Unserialize(in.Go())
		*stage = fmt.Sprintf("ValidateCompatibility(input %d)", i)
		_ = sc.ValidateCompatibility(in.Go())
		// the raw input is also a native value (map-based objects): what Unserialize refuses up front - a disabled
		// property, say - still reaches Validate and Serialize this way
		*stage = fmt.Sprintf("Validate(input %d)", i)
		_ = sc.Validate(in.Go())
		*stage = fmt.Sprintf("Serialize(input %d)", i)
		_, _ = sc.Serialize(in.Go())
		if err != nil {
			continue
		}
		*stage = fmt.Sprintf("Validate(result of input %d)", i)
		_ = sc.Validate(u)
		*stage = fmt.Sprintf("Serialize(result of input %d)", i)
		_, _ = sc.Serialize(u)
	}
}

func workerFn(raw json.RawMessage) json.RawMessage {
	var c Case
	res := result{}
	if err := json.Unmarshal(raw, &c); err != nil {
		res.Outcome, res.Text = "skip", err.Error()
		b, _ := json.Marshal(res)
		return b
	}
	stage := "load"
	func() {
		defer func() {
			if e := recover(); e != nil {
				res.Outcome = "panic"
				res.Stage = stage
				res.Text = fmt.Sprintf("%v at %s", e, frame(string(debug.Stack())))
			}
		}()
		d := c.Desc.Go()
		switch c.Entry {
		case "scope":
			sc, err := schema.UnserializeScope(d)
			if err != nil {
				res.Outcome = "rejected"
				return
			}
			stage = "use"
			exercise(sc, c.Inputs, &stage)
		default:
			s, err := schema.UnserializeSchema(d)
			if err != nil {
				res.Outcome = "rejected"
				return
			}
			stage = "SelfSerialize(schema)"
			_, _ = s.SelfSerialize()
			for id, st := range s.StepsValue {
				stage = "step " + id + " input"
				var sub string
				exercise(st.Input(), c.Inputs, &sub)
				for oid, o := range st.Outputs() {
					stage = "step " + id + " output " + oid
					exercise(o.Schema(), c.Inputs, &sub)
				}
				for sid, sg := range st.SignalHandlers() {
					stage = "step " + id + " signal handler " + sid
					exercise(sg.DataSchema(), c.Inputs, &sub)
				}
				for sid, sg := range st.SignalEmitters() {
					stage = "step " + id + " signal emitter " + sid
					exercise(sg.DataSchema(), c.Inputs, &sub)
				}
				_ = sub
			}
		}
		res.Outcome = "usable"
	}()
	b, _ := json.Marshal(res)
	return b
}

func judge(w *sup.Worker, c Case) (string, string) {
	body, crash := w.Do(c, 20*time.Second)
	desc := c.Desc.String()
	if len(desc) > 2500 {
		desc = desc[:2500] + "..."
	}
	if crash != nil {
		if strings.Contains(crash.Text+crash.Log, "stack") && hasShorthandSelfRef(c.Desc) && ev.Known("shorthand-selfref") {
			return "", "known"
		}
		if strings.Contains(crash.Text+crash.Log, "stack") && hasDefaultedLoop(c.Desc) && ev.Known("default-selfref") {
			return "", "known"
		}
		return fmt.Sprintf("loading / using a received description killed the process or hung (%s) [mutation: %s]\n%s\ndescription: %s", crash, c.Mutation, firstLines(crash.Log, 25), desc), crash.Kind
	}
	var r result
	if err := json.Unmarshal(body, &r); err != nil {
		return "harness: " + err.Error(), "harness"
	}
	if r.Outcome == "panic" {
		where := "while loading it"
		if r.Stage != "load" {
			where = "on first use of the returned schema (" + r.Stage + ")"
		}
		return fmt.Sprintf("a received description [mutation: %s] made the SDK panic %s: %s\ndescription: %s", c.Mutation, where, r.Text, desc), "panic"
	}
	return "", r.Outcome
}

// hasShorthandSelfRef recognises the recorded known finding (see C04) in a description: an object whose only
// property is a reference (or an object written in place) that leads back to the object - directly, or through other
// one-property objects (the shorthand passes a lone value down such a chain without ever consuming it).
func hasShorthandSelfRef(v val.V) bool {
	next := map[string]string{} // one-property object ID -> ID its only property refers to
	var walk func(v val.V)
	walk = func(v val.V) {
		if strings.HasPrefix(v.T, "map") {
			var id string
			var props *val.V
			for i := range v.M {
				if v.M[i].K.S == "id" && v.M[i].V.T == "string" {
					id = v.M[i].V.S
				}
				if v.M[i].K.S == "properties" && strings.HasPrefix(v.M[i].V.T, "map") {
					props = &v.M[i].V
				}
			}
			if id != "" && props != nil && len(props.M) == 1 {
				for _, e := range props.M[0].V.M {
					if e.K.S == "type" {
						isRef, target := false, ""
						for _, f := range e.V.M {
							if f.K.S == "type_id" && (f.V.S == "ref" || f.V.S == "object") {
								isRef = true // a reference, or an object written in place (it carries its own id)
							}
							if f.K.S == "id" {
								target = f.V.S
							}
						}
						if isRef {
							next[id] = target
						}
					}
				}
			}
			for i := range v.M {
				walk(v.M[i].V)
			}
		}
		for i := range v.L {
			walk(v.L[i])
		}
	}
	walk(v)
	for start := range next {
		at := start
		for i := 0; i <= len(next); i++ {
			n, ok := next[at]
			if !ok {
				break
			}
			if n == start {
				return true
			}
			at = n
		}
	}
	return false
}

// hasDefaultedLoop recognises the recorded known finding default-selfref in a description: object-typed properties
// that declare a default and lead from an object back to itself (every instance takes the default, which is again an
// instance).
func hasDefaultedLoop(v val.V) bool {
	field := func(m val.V, key string) (val.V, bool) {
		for i := range m.M {
			if m.M[i].K.S == key {
				return m.M[i].V, true
			}
		}
		return val.V{}, false
	}
	edges := map[string][]string{}
	var walk func(v val.V)
	walk = func(v val.V) {
		if strings.HasPrefix(v.T, "map") {
			id, hasID := field(v, "id")
			props, hasProps := field(v, "properties")
			if hasID && hasProps && id.T == "string" && strings.HasPrefix(props.T, "map") {
				for _, pe := range props.M {
					if _, hasDefault := field(pe.V, "default"); !hasDefault {
						continue
					}
					if t, ok := field(pe.V, "type"); ok {
						tid, _ := field(t, "type_id")
						target, _ := field(t, "id")
						if (tid.S == "ref" || tid.S == "object") && target.T == "string" {
							edges[id.S] = append(edges[id.S], target.S)
						}
					}
				}
			}
			for i := range v.M {
				walk(v.M[i].V)
			}
		}
		for i := range v.L {
			walk(v.L[i])
		}
	}
	walk(v)
	for start := range edges {
		seen := map[string]bool{}
		stack := append([]string(nil), edges[start]...)
		for len(stack) > 0 {
			x := stack[len(stack)-1]
			stack = stack[:len(stack)-1]
			if x == start {
				return true
			}
			if seen[x] {
				continue
			}
			seen[x] = true
			stack = append(stack, edges[x]...)
		}
	}
	return false
}

// fail reports a violation; in survey mode (VERIF_COLLECT, a development aid) it only counts its signature.
func fail(t ev.TB, c Case, msg string) {
	if os.Getenv("VERIF_COLLECT") != "" {
		sig := regexp.MustCompile(`made the SDK panic ([^:]*): (.{0,140})`).FindStringSubmatch(msg)
		key := msg
		if sig != nil {
			stage := regexp.MustCompile(`\(.*\)`).ReplaceAllString(sig[1], "")
			key = stage + ": " + regexp.MustCompile(`"[^"]*"|[0-9]+`).ReplaceAllString(sig[2], "_")
		}
		if len(key) > 200 {
			key = key[:200]
		}
		ev.Class("SIG "+key, 1)
		return
	}
	ev.Fail(t, "load", c, "%s", msg)
}

func firstLines(s string, n int) string {
	l := strings.Split(s, "\n")
	if len(l) > n {
		l = l[:n]
	}
	return strings.Join(l, "\n")
}

// ---------------------------------------------------------------------------------------------------------------
// mutation enumeration over a val.V tree

type step struct {
	list bool
	idx  int
}

type mutation struct {
	path []step
	name string
	f    func(val.V) val.V // applied to the node at path
}

func apply(root val.V, path []step, f func(val.V) val.V) val.V {
	if len(path) == 0 {
		return f(root)
	}
	c := root
	if path[0].list {
		c.L = append([]val.V(nil), root.L...)
		c.L[path[0].idx] = apply(root.L[path[0].idx], path[1:], f)
	} else {
		c.M = append([]val.KV(nil), root.M...)
		c.M[path[0].idx].V = apply(root.M[path[0].idx].V, path[1:], f)
	}
	return c
}

func deepList(n int) val.V {
	v := val.V{T: "[]any"}
	for i := 0; i < n; i++ {
		v = val.V{T: "[]any", L: []val.V{v}}
	}
	return v
}

var replacements = []val.V{val.Nil(), val.Bool(true), val.Int("int64", 0), val.Int("int64", -1), val.Uint("uint64", 1<<62), val.Float("float64", 0.5), val.Str(""), val.Str("x"), {T: "[]any"}, {T: "map[string]any"}, {T: "map[any]any", M: []val.KV{{K: val.Int("int64", 1), V: val.Str("y")}}}}

func pathString(root val.V, path []step) string {
	var sb strings.Builder
	cur := root
	for _, s := range path {
		if s.list {
			fmt.Fprintf(&sb, "[%d]", s.idx)
			cur = cur.L[s.idx]
		} else {
			fmt.Fprintf(&sb, ".%s", cur.M[s.idx].K.S)
			cur = cur.M[s.idx].V
		}
	}
	return sb.String()
}

// enumerate lists every single mutation of the tree.
func enumerate(root val.V) []mutation {
	var out []mutation
	var walk func(v val.V, path []step, key string)
	walk = func(v val.V, path []step, key string) {
		p := append([]step(nil), path...)
		ps := pathString(root, p)
		for _, r := range replacements {
			r := r
			if r.T == v.T && r.S == v.S && len(v.L) == 0 && len(v.M) == 0 {
				continue
			}
			out = append(out, mutation{p, fmt.Sprintf("retype %s to %s", ps, r), func(val.V) val.V { return r }})
		}
		if v.T == "string" {
			switch key {
			case "id", "root":
				out = append(out, mutation{p, "re-point " + ps + " to a missing object", func(val.V) val.V { return val.Str("no_such_object") }})
				out = append(out, mutation{p, "invalid id at " + ps, func(val.V) val.V { return val.Str("not a valid id!") }})
			case "type_id":
				for _, tid := range []string{"integer", "string", "ref", "scope", "object", "one_of_string", "one_of_int", "list", "map", "enum_string", "pattern", "no_such_type"} {
					tid := tid
					if tid != v.S {
						out = append(out, mutation{p, "change " + ps + " to " + tid, func(val.V) val.V { return val.Str(tid) }})
					}
				}
			case "default":
				out = append(out, mutation{p, "unparsable default at " + ps, func(val.V) val.V { return val.Str("{unparsable") }})
				out = append(out, mutation{p, "default of the wrong type at " + ps, func(val.V) val.V { return val.Str(`{"no":"such"}`) }})
				out = append(out, mutation{p, "null default at " + ps, func(val.V) val.V { return val.Str("null") }})
			case "pattern":
				out = append(out, mutation{p, "invalid pattern at " + ps, func(val.V) val.V { return val.Str("a(") }})
			case "namespace":
				out = append(out, mutation{p, "foreign namespace at " + ps, func(val.V) val.V { return val.Str("elsewhere") }})
			case "discriminator_field_name":
				out = append(out, mutation{p, "other discriminator at " + ps, func(val.V) val.V { return val.Str("zz_other") }})
			}
		}
		if v.T == "bool" && key == "discriminator_inlined" {
			out = append(out, mutation{p, "flip " + ps, func(o val.V) val.V { return val.Bool(o.S != "true") }})
		}
		if key == "multipliers" && strings.HasPrefix(v.T, "map") {
			for _, m := range []int64{0, -5, 1} {
				m := m
				out = append(out, mutation{p, fmt.Sprintf("unit multiplier %d at %s", m, ps), func(o val.V) val.V {
					c := o
					c.T = "map[any]any"
					c.M = append([]val.KV(nil), o.M...)
					if len(c.M) > 0 {
						c.M[0].K = val.Int("int64", m)
					}
					return c
				}})
			}
		}
		if strings.HasPrefix(v.T, "map") {
			for i := range v.M {
				i := i
				kname := v.M[i].K.S
				out = append(out, mutation{p, "delete " + ps + "." + kname, func(o val.V) val.V {
					c := o
					c.M = append(append([]val.KV(nil), o.M[:i]...), o.M[i+1:]...)
					return c
				}})
				out = append(out, mutation{p, "rename " + ps + "." + kname, func(o val.V) val.V {
					c := o
					c.M = append([]val.KV(nil), o.M...)
					c.M[i].K = val.Str(kname + "_x")
					return c
				}})
				walk(v.M[i].V, append(p, step{false, i}), kname)
			}
			out = append(out, mutation{p, "add unknown key at " + ps, func(o val.V) val.V {
				c := o
				c.M = append(append([]val.KV(nil), o.M...), val.KV{K: val.Str("zz_unknown"), V: val.Int("int64", 1)})
				return c
			}})
			out = append(out, mutation{p, "add non-string key at " + ps, func(o val.V) val.V {
				c := o
				c.T = "map[any]any"
				c.M = append(append([]val.KV(nil), o.M...), val.KV{K: val.Bool(true), V: val.Int("int64", 1)})
				return c
			}})
		}
		for i := range v.L {
			walk(v.L[i], append(p, step{true, i}), key)
		}
	}
	walk(root, nil, "")
	// graft: every type description (a map with a type_id) is replaced by a copy of another, differently typed type
	// description taken from the same document - a well-formed type in a place where that kind of type may not be
	// allowed (a list as a map's key type, a scope as a one-of member's discriminator type, ...)
	var donors []val.V
	seenKinds := map[string]bool{}
	var collect func(v val.V)
	collect = func(v val.V) {
		if strings.HasPrefix(v.T, "map") {
			for _, e := range v.M {
				if e.K.S == "type_id" && e.V.T == "string" && !seenKinds[e.V.S] {
					seenKinds[e.V.S] = true
					donors = append(donors, v)
				}
			}
			for _, e := range v.M {
				collect(e.V)
			}
		}
		for _, e := range v.L {
			collect(e)
		}
	}
	collect(root)
	var graft func(v val.V, path []step)
	graft = func(v val.V, path []step) {
		if strings.HasPrefix(v.T, "map") {
			tid := ""
			for _, e := range v.M {
				if e.K.S == "type_id" && e.V.T == "string" {
					tid = e.V.S
				}
			}
			if tid != "" {
				p := append([]step(nil), path...)
				for _, d := range donors {
					d := d
					dk := ""
					for _, e := range d.M {
						if e.K.S == "type_id" {
							dk = e.V.S
						}
					}
					if dk != tid {
						out = append(out, mutation{p, fmt.Sprintf("graft a %s type over the %s type at %s", dk, tid, pathString(root, p)), func(val.V) val.V { return d }})
					}
				}
			}
			for i := range v.M {
				graft(v.M[i].V, append(path, step{false, i}))
			}
		}
		for i := range v.L {
			graft(v.L[i], append(path, step{true, i}))
		}
	}
	graft(root, nil)
	out = append(out, mutation{nil, "replace the whole description by a 200-deep list", func(val.V) val.V { return deepList(200) }})
	return out
}

// ---------------------------------------------------------------------------------------------------------------

func opts(depth int) gen.Opts {
	o := gen.Full(depth)
	o.Describable = true
	o.ScopeRoot = true
	return o
}

var theWorker *sup.Worker

func worker() *sup.Worker {
	if theWorker == nil {
		theWorker = sup.NewWorker("c10")
	}
	return theWorker
}

var stdInputs = []val.V{val.Str("5m"), val.Str("1x"), {T: "map[string]any"}, {T: "map[any]any"}, val.Nil(), val.Str("5"), val.Int("int64", 5), {T: "[]any"}}

func describeScope(s *spec.Spec) (val.V, bool) {
	b, err := spec.Build(s)
	if err != nil {
		return val.V{}, false
	}
	var d any
	if p := oracle.Safely(func() { d, err = b.(*schema.ScopeSchema).SelfSerialize() }); p != nil || err != nil {
		return val.V{}, false
	}
	return val.Describe(d), true
}

func TestMutatedScopes(t *testing.T) {
	defer func() {
		if theWorker != nil {
			theWorker.Close()
			theWorker = nil
		}
	}()
	perDesc := ev.N(400, 20000)
	ev.Check(t, "scopes", 12, 40, func(rt *rapid.T) {
		// depth 3 is needed for scopes nested inside the root scope (a property, item or value typed as a scope)
		o := opts(rapid.IntRange(2, 3).Draw(rt, "depth"))
		s := gen.Spec(o).Draw(rt, "spec")
		gen.AddDefaults(rt, s, o)
		desc, ok := describeScope(s)
		if !ok {
			rt.Skip("not describable (C09)")
		}
		nested := 0
		spec.Walk(s, func(n *spec.Spec) {
			if n.Kind == spec.KScope && n != s {
				nested++
			}
		})
		if nested > 0 {
			ev.Class("description_with_nested_scope", 1)
		}
		inputs := append([]val.V(nil), stdInputs...)
		for i := 0; i < 3; i++ {
			if mv, ok := gen.ValueFor(rt, s, nil, 3); ok {
				inputs = append(inputs, gen.Render(rt, s, nil, mv).V)
			}
		}
		inputs = append(inputs, gen.Hostile(2).Draw(rt, "hostile"))
		muts := enumerate(desc)
		ev.Class("mutations_per_description", int64(len(muts)))
		// quick: a generated sample of the enumeration; thorough: all of it
		var chosen []int
		if len(muts) <= perDesc {
			for i := range muts {
				chosen = append(chosen, i)
			}
		} else {
			start := rapid.IntRange(0, len(muts)-1).Draw(rt, "start")
			stride := len(muts)/perDesc + 1
			for i := 0; i < perDesc; i++ {
				chosen = append(chosen, (start+i*stride)%len(muts))
			}
		}
		base := Case{Entry: "scope", Desc: desc, Inputs: inputs, Mutation: "none"}
		if msg, outcome := judge(worker(), base); msg != "" || outcome != "usable" {
			if msg == "" {
				msg = "the unmutated description was not accepted by UnserializeScope (C09)"
				rt.Skip(msg)
			}
			ev.Fail(rt, "load", base, "%s", msg)
		}
		for _, i := range chosen {
			m := muts[i]
			c := Case{Entry: "scope", Desc: apply(desc, m.path, m.f), Inputs: inputs, Mutation: m.name}
			msg, outcome := judge(worker(), c)
			kind := strings.SplitN(m.name, " ", 2)[0]
			ev.Case(ev.FP(desc.String(), m.name), outcome == "usable", "scope_mutation:"+kind+":"+outcome, "outcome:"+outcome)
			if outcome == "usable" && ev.WantSample("accepted_mutant_"+kind) {
				ev.Sample("accepted_mutant_"+kind, map[string]any{"mutation": m.name, "entry": "scope"})
			}
			if msg != "" {
				fail(rt, c, msg)
			}
		}
		// double mutations (sampled)
		for k := 0; k < ev.N(20, 200) && len(muts) > 1; k++ {
			a := muts[rapid.IntRange(0, len(muts)-1).Draw(rt, "m1")]
			d1 := apply(desc, a.path, a.f)
			muts2 := enumerate(d1)
			b := muts2[rapid.IntRange(0, len(muts2)-1).Draw(rt, "m2")]
			c := Case{Entry: "scope", Desc: apply(d1, b.path, b.f), Inputs: inputs, Mutation: a.name + " + " + b.name}
			msg, outcome := judge(worker(), c)
			ev.Case(ev.FP(desc.String(), c.Mutation), outcome == "usable", "double_mutation:"+outcome, "outcome:"+outcome)
			if msg != "" {
				fail(rt, c, msg)
			}
		}
	})
}

func TestGarbage(t *testing.T) {
	w := sup.NewWorker("c10")
	defer w.Close()
	ev.Check(t, "garbage", 1500, 40000, func(rt *rapid.T) {
		c := Case{Entry: rapid.SampledFrom([]string{"scope", "schema"}).Draw(rt, "entry"), Desc: gen.Hostile(4).Draw(rt, "tree"), Inputs: stdInputs, Mutation: "grammar-free tree"}
		msg, outcome := judge(w, c)
		ev.Case(ev.FP("garbage", c.Entry, c.Desc.String()), outcome == "usable", "garbage:"+outcome)
		if msg != "" {
			fail(rt, c, msg)
		}
	})
}

func TestMutatedPluginSchemas(t *testing.T) {
	w := sup.NewWorker("c10")
	defer w.Close()
	perDesc := ev.N(300, 20000)
	ev.Check(t, "plugins", 6, 30, func(rt *rapid.T) {
		o := opts(1)
		mk := func(label string) *schema.ScopeSchema {
			s := gen.Spec(o).Draw(rt, label)
			gen.AddDefaults(rt, s, o)
			b, err := spec.Build(s)
			if err != nil {
				rt.Skip("build")
			}
			return b.(*schema.ScopeSchema)
		}
		steps := map[string]*schema.StepSchema{}
		for i := 0; i < rapid.IntRange(1, 2).Draw(rt, "nSteps"); i++ {
			id := fmt.Sprintf("step%d", i)
			outs := map[string]*schema.StepOutputSchema{"success": schema.NewStepOutputSchema(mk("out"), nil, false)}
			if rapid.Bool().Draw(rt, "errOut") {
				outs["error"] = schema.NewStepOutputSchema(mk("errout"), schema.NewDisplayValue(schema.PointerTo("Error"), nil, nil), true)
			}
			var handlers, emitters map[string]*schema.SignalSchema
			if rapid.Bool().Draw(rt, "handler") {
				handlers = map[string]*schema.SignalSchema{"sig": schema.NewSignalSchema("sig", mk("sigdata"), nil)}
			}
			if rapid.Bool().Draw(rt, "emitter") {
				eid := rapid.SampledFrom([]string{"emit", "sig"}).Draw(rt, "emitterID") // may coincide with the handler's
				emitters = map[string]*schema.SignalSchema{eid: schema.NewSignalSchema(eid, mk("emitdata"), nil)}
			}
			steps[id] = schema.NewStepSchema(id, mk("input"), outs, handlers, emitters, schema.NewDisplayValue(schema.PointerTo("Step"), nil, nil))
		}
		var d any
		var err error
		if p := oracle.Safely(func() { d, err = schema.NewSchema(steps).SelfSerialize() }); p != nil || err != nil {
			rt.Skip("not describable (C09)")
		}
		desc := val.Describe(d)
		muts := enumerate(desc)
		ev.Class("mutations_per_plugin_description", int64(len(muts)))
		start := rapid.IntRange(0, len(muts)-1).Draw(rt, "start")
		stride := len(muts)/perDesc + 1
		n := perDesc
		if len(muts) < n {
			n, stride, start = len(muts), 1, 0
		}
		for i := 0; i < n; i++ {
			m := muts[(start+i*stride)%len(muts)]
			c := Case{Entry: "schema", Desc: apply(desc, m.path, m.f), Inputs: stdInputs, Mutation: m.name}
			msg, outcome := judge(w, c)
			kind := strings.SplitN(m.name, " ", 2)[0]
			ev.Case(ev.FP(desc.String(), m.name), outcome == "usable", "plugin_mutation:"+kind+":"+outcome, "outcome:"+outcome)
			if msg != "" {
				fail(rt, c, msg)
			}
		}
	})
}
