package c10

import (
	"bytes"
	"encoding/json"
	"fmt"
	"testing"

	"github.com/fxamacker/cbor/v2"
	"go.flow.arcalot.io/pluginsdk/schema"
	"gopkg.in/yaml.v3"
	"verif/harness/ev"
	"verif/harness/gen"
	"verif/harness/oracle"
	"verif/harness/spec"
	"verif/harness/val"
)

func fuzzScopes() []*spec.Spec {
	var out []*spec.Spec
	for i, k := range gen.GridSpecs() {
		root := &spec.Spec{Kind: spec.KObject, ID: "R", Props: []spec.Prop{
			{Name: "p", Type: k, Display: &spec.DisplaySpec{Name: spec.P("P")}},
			{Name: "q", Type: &spec.Spec{Kind: spec.KInt}, Default: spec.P("5"), RequiredIfNot: []string{"p"}},
			{Name: "r", Type: &spec.Spec{Kind: spec.KRef, RefID: "R"}, Conflicts: []string{"q"}},
		}}
		if i%2 == 0 {
			root.Props[0].Required = true
		}
		out = append(out, &spec.Spec{Kind: spec.KScope, Root: "R", Objects: []*spec.Spec{root}})
	}
	return out
}

func decodeDesc(sel uint8, data []byte) (any, string, bool) {
	var v any
	switch sel % 3 {
	case 0:
		// as Client.ReadSchema receives it
		if cbor.Unmarshal(data, &v) != nil {
			return nil, "cbor", false
		}
		return v, "cbor", true
	case 1:
		if json.NewDecoder(bytes.NewReader(data)).Decode(&v) != nil {
			return nil, "json", false
		}
		return v, "json", true
	}
	if yaml.Unmarshal(data, &v) != nil {
		return nil, "yaml", false
	}
	return v, "yaml", true
}

// FuzzDescription: coverage-guided byte-level mutation of encoded schema descriptions (CBOR as in the hello message,
// JSON, YAML). Whatever the decoder makes of the bytes goes to UnserializeScope / UnserializeSchema; the oracle is the
// same as for the structural mutations: an error, or a schema on which every exercised operation is total.
func FuzzDescription(f *testing.F) {
	var scopes []*schema.ScopeSchema
	for _, s := range fuzzScopes() {
		desc, ok := describeScope(s)
		if !ok {
			continue
		}
		g := desc.Go()
		if b, err := cbor.Marshal(g); err == nil {
			f.Add(uint8(0), uint8(0), b)
		}
		if b, err := yaml.Marshal(g); err == nil {
			f.Add(uint8(0), uint8(2), b)
		}
		if b, err := spec.Build(s); err == nil {
			scopes = append(scopes, b.(*schema.ScopeSchema))
		}
	}
	// whole plugin schemas (entry "schema"), built from the same scopes
	for i := 0; i+3 < len(scopes); i += 4 {
		steps := map[string]*schema.StepSchema{"s": schema.NewStepSchema("s", scopes[i],
			map[string]*schema.StepOutputSchema{"success": schema.NewStepOutputSchema(scopes[i+1], nil, false), "error": schema.NewStepOutputSchema(scopes[i+1], nil, true)},
			map[string]*schema.SignalSchema{"sig": schema.NewSignalSchema("sig", scopes[i+2], nil)},
			map[string]*schema.SignalSchema{"emit": schema.NewSignalSchema("emit", scopes[i+3], nil)}, nil)}
		var d any
		var err error
		if p := oracle.Safely(func() { d, err = schema.NewSchema(steps).SelfSerialize() }); p != nil || err != nil {
			continue
		}
		if b, err := cbor.Marshal(d); err == nil {
			f.Add(uint8(1), uint8(0), b)
		}
		if b, err := json.Marshal(val.Describe(d).Go()); err == nil {
			_ = b // JSON cannot carry map[any]any; the CBOR and YAML seeds suffice
		}
	}
	f.Fuzz(func(t *testing.T, entrySel, decSel uint8, data []byte) {
		if len(data) > 1<<15 {
			return
		}
		raw, dec, ok := decodeDesc(decSel, data)
		if !ok {
			return
		}
		c := Case{Entry: []string{"scope", "schema"}[int(entrySel)%2], Desc: val.Describe(raw), Inputs: stdInputs, Mutation: "native fuzz (" + dec + " bytes)"}
		if hasShorthandSelfRef(c.Desc) && ev.KnownListed("shorthand-selfref") {
			ev.Class("fuzz_excluded_known_shorthand_selfref", 1)
			return
		}
		if ev.FuzzConvert("load", c) {
			return
		}
		b, err := json.Marshal(c)
		if err != nil {
			return
		}
		var r result
		if err := json.Unmarshal(workerFn(b), &r); err != nil {
			t.Fatalf("harness: %v", err)
		}
		ev.Case(ev.FP("fuzz", c.Entry, c.Desc.String()), r.Outcome == "usable", "fuzz_entry:"+c.Entry, "fuzz_decoder:"+dec, "fuzz_outcome:"+r.Outcome)
		if r.Outcome == "panic" {
			where := "while loading it"
			if r.Stage != "load" {
				where = "on first use of the returned schema (" + r.Stage + ")"
			}
			fail(t, c, fmt.Sprintf("a received description [%s] made the SDK panic %s: %s\ndescription: %s", c.Mutation, where, r.Text, c.Desc))
		}
	})
}
