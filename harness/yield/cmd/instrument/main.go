// Command instrument generates, from the current working tree of the repository, instrumented copies of
// atp/client.go and atp/server.go in which verifYield(<n>) is called before every statement, plus the hook file and
// an overlay description for `go test -overlay`. Nothing under the repository is touched.
package main

import (
	"bytes"
	"encoding/json"
	"flag"
	"fmt"
	"go/ast"
	"go/parser"
	"go/printer"
	"go/token"
	"os"
	"path/filepath"
	"strconv"
)

type point struct {
	ID   int    `json:"id"`
	File string `json:"file"`
	Line int    `json:"line"`
	Kind string `json:"kind"`
	Func string `json:"func"`
}

var points []point

func yieldCall(n int) ast.Stmt {
	return &ast.ExprStmt{X: &ast.CallExpr{Fun: ast.NewIdent("verifYield"), Args: []ast.Expr{&ast.BasicLit{Kind: token.INT, Value: strconv.Itoa(n)}}}}
}

func instrumentList(fset *token.FileSet, file, fn string, list []ast.Stmt) []ast.Stmt {
	var out []ast.Stmt
	for _, st := range list {
		pos := fset.Position(st.Pos())
		id := len(points)
		points = append(points, point{ID: id, File: file, Line: pos.Line, Kind: fmt.Sprintf("%T", st), Func: fn})
		out = append(out, yieldCall(id), st)
	}
	return out
}

func instrumentFile(fset *token.FileSet, name string, f *ast.File) {
	for _, d := range f.Decls {
		fd, ok := d.(*ast.FuncDecl)
		if !ok || fd.Body == nil {
			continue
		}
		fn := fd.Name.Name
		var visit func(n ast.Node) bool
		visit = func(n ast.Node) bool {
			switch b := n.(type) {
			case *ast.SwitchStmt:
				// the body of a switch holds clauses, not statements
				if b.Init != nil {
					ast.Inspect(b.Init, visit)
				}
				for _, c := range b.Body.List {
					ast.Inspect(c, visit)
				}
				return false
			case *ast.TypeSwitchStmt:
				for _, c := range b.Body.List {
					ast.Inspect(c, visit)
				}
				return false
			case *ast.SelectStmt:
				for _, c := range b.Body.List {
					ast.Inspect(c, visit)
				}
				return false
			case *ast.BlockStmt:
				for _, st := range b.List {
					ast.Inspect(st, visit)
				}
				b.List = instrumentList(fset, name, fn, b.List)
				return false
			case *ast.CaseClause:
				for _, st := range b.Body {
					ast.Inspect(st, visit)
				}
				b.Body = instrumentList(fset, name, fn, b.Body)
				return false
			case *ast.CommClause:
				for _, st := range b.Body {
					ast.Inspect(st, visit)
				}
				b.Body = instrumentList(fset, name, fn, b.Body)
				return false
			}
			return true
		}
		ast.Inspect(fd.Body, visit)
	}
}

func main() {
	repo := flag.String("repo", "/repo", "repository root")
	out := flag.String("out", "", "output directory")
	flag.Parse()
	if *out == "" {
		fmt.Fprintln(os.Stderr, "need -out")
		os.Exit(2)
	}
	replace := map[string]string{}
	for _, name := range []string{"client.go", "server.go"} {
		src := filepath.Join(*repo, "atp", name)
		fset := token.NewFileSet()
		f, err := parser.ParseFile(fset, src, nil, parser.ParseComments)
		if err != nil {
			fmt.Fprintln(os.Stderr, err)
			os.Exit(1)
		}
		instrumentFile(fset, name, f)
		var buf bytes.Buffer
		if err := (&printer.Config{Mode: printer.UseSpaces | printer.TabIndent, Tabwidth: 8}).Fprint(&buf, fset, f); err != nil {
			fmt.Fprintln(os.Stderr, err)
			os.Exit(1)
		}
		dst := filepath.Join(*out, "atp_"+name)
		if err := os.WriteFile(dst, buf.Bytes(), 0o644); err != nil {
			fmt.Fprintln(os.Stderr, err)
			os.Exit(1)
		}
		replace[src] = dst
	}
	hook := `package atp

import "sync/atomic"

// VerifYieldHook is called before every statement of client.go and server.go (instrumented build only).
var VerifYieldHook atomic.Pointer[func(int)]

func verifYield(n int) {
	if h := VerifYieldHook.Load(); h != nil {
		(*h)(n)
	}
}
`
	hookPath := filepath.Join(*out, "zz_verif_yield.go")
	if err := os.WriteFile(hookPath, []byte(hook), 0o644); err != nil {
		fmt.Fprintln(os.Stderr, err)
		os.Exit(1)
	}
	replace[filepath.Join(*repo, "atp", "zz_verif_yield.go")] = hookPath
	ov, _ := json.MarshalIndent(map[string]any{"Replace": replace}, "", " ")
	if err := os.WriteFile(filepath.Join(*out, "overlay.json"), ov, 0o644); err != nil {
		fmt.Fprintln(os.Stderr, err)
		os.Exit(1)
	}
	tb, _ := json.Marshal(points)
	if err := os.WriteFile(filepath.Join(*out, "points.json"), tb, 0o644); err != nil {
		fmt.Fprintln(os.Stderr, err)
		os.Exit(1)
	}
	fmt.Printf("instrumented %d yield points\n", len(points))
}
