package c09

import (
	"bytes"
	"encoding/json"
	"fmt"
	"io"
	"strings"
	"testing"

	"github.com/fxamacker/cbor/v2"
	"go.flow.arcalot.io/pluginsdk/atp"
	"go.flow.arcalot.io/pluginsdk/schema"
	"gopkg.in/yaml.v3"
	"pgregory.net/rapid"
	"verif/harness/atpx"
	"verif/harness/ev"
	"verif/harness/gen"
	"verif/harness/oracle"
	"verif/harness/spec"
	"verif/harness/val"
)

func TestMain(m *testing.M) {
	ev.Note("rule", "C09: rapid-generated scopes and whole plugin schemas (steps with input scope, 1-3 outputs incl. error outputs, signal handlers and emitters whose data scopes contain references, displays) over every feature the meta-schema has a row for: all describable kinds, units (built-in and generated), enums with display data, defaults, all presence rules, disabled + reason, examples, id-unenforced, nested scopes, self-referential references, one-of members object/ref/scope. Oracle: SelfSerialize succeeds; UnserializeScope / UnserializeSchema of the description succeeds and the result is usable as returned; so does the meta-schema route DescribeScope().Unserialize + ApplySelf; describing the rebuilt schema gives a description deep-equal to the first; the same after the description went through CBOR and through YAML, and (plugin schemas) after it travelled in a hello message read by the real ATP client; original and rebuilt agree on accept/reject of generated valid and mutated inputs (and on the unserialized value when the original has no struct mapping). Non-trivial: the schema uses >= 3 distinct optional meta-schema features and contains a reference; distinct by schema.")
	ev.RegisterReplay("scope", func(t *testing.T, raw json.RawMessage) {
		var c ScopeCase
		if err := json.Unmarshal(raw, &c); err != nil {
			t.Fatal(err)
		}
		if msg := runScope(c); msg != "" {
			t.Fatal(msg)
		}
	})
	ev.RegisterReplay("plugin", func(t *testing.T, raw json.RawMessage) {
		var c PluginCase
		if err := json.Unmarshal(raw, &c); err != nil {
			t.Fatal(err)
		}
		if msg := runPlugin(c); msg != "" {
			t.Fatal(msg)
		}
	})
	ev.Main(m, "C09")
}

func TestReplay(t *testing.T) { ev.RunReplay(t) }

type ScopeCase struct {
	Spec   *spec.Spec `json:"spec"`
	Inputs []val.V    `json:"inputs"`
}

func hasStruct(s *spec.Spec) bool {
	f := false
	spec.Walk(s, func(n *spec.Spec) {
		if n.Struct != "" {
			f = true
		}
	})
	return f
}

func short(x any) string {
	s := fmt.Sprintf("%#v", x)
	if len(s) > 1500 {
		s = s[:1500] + "..."
	}
	return s
}

// diff finds the first difference between two descriptions.
func diff(a, b any, path string) string {
	am, aok := a.(map[string]any)
	bm, bok := b.(map[string]any)
	if aok && bok {
		for k, av := range am {
			bv, has := bm[k]
			if !has {
				return fmt.Sprintf("%s.%s: missing in the second description (first has %s)", path, k, short(av))
			}
			if d := diff(av, bv, path+"."+k); d != "" {
				return d
			}
		}
		for k, bv := range bm {
			if _, has := am[k]; !has {
				return fmt.Sprintf("%s.%s: only in the second description (%s)", path, k, short(bv))
			}
		}
		return ""
	}
	aa, aok := a.(map[any]any)
	ba, bok := b.(map[any]any)
	if aok && bok {
		for k, av := range aa {
			bv, has := ba[k]
			if !has {
				return fmt.Sprintf("%s[%v]: missing in the second description", path, k)
			}
			if d := diff(av, bv, fmt.Sprintf("%s[%v]", path, k)); d != "" {
				return d
			}
		}
		for k := range ba {
			if _, has := aa[k]; !has {
				return fmt.Sprintf("%s[%v]: only in the second description", path, k)
			}
		}
		return ""
	}
	al, aok := a.([]any)
	bl, bok := b.([]any)
	if aok && bok {
		if len(al) != len(bl) {
			return fmt.Sprintf("%s: list lengths %d vs %d", path, len(al), len(bl))
		}
		for i := range al {
			if d := diff(al[i], bl[i], fmt.Sprintf("%s[%d]", path, i)); d != "" {
				return d
			}
		}
		return ""
	}
	if !val.Equal(a, b, val.Opts{}) {
		return fmt.Sprintf("%s: %s vs %s", path, short(a), short(b))
	}
	return ""
}

func viaCBOR(d any) (any, error) {
	b, err := cbor.Marshal(d)
	if err != nil {
		return nil, err
	}
	var out any
	err = atpx.Dec.Unmarshal(b, &out)
	return out, err
}

func viaYAML(d any) (any, error) {
	b, err := yaml.Marshal(d)
	if err != nil {
		return nil, err
	}
	var out any
	err = yaml.Unmarshal(b, &out)
	return out, err
}

// describeRebuild: description -> rebuild -> description, returns the rebuilt scope and its description.
func rebuildScope(d any, label string) (*schema.ScopeSchema, any, string) {
	var r *schema.ScopeSchema
	var err error
	if p := oracle.Safely(func() { r, err = schema.UnserializeScope(d) }); p != nil {
		return nil, nil, fmt.Sprintf("UnserializeScope of the %s description panicked: %v", label, p)
	}
	if err != nil {
		return nil, nil, fmt.Sprintf("the %s description is not accepted by UnserializeScope: %v", label, err)
	}
	var d2 any
	if p := oracle.Safely(func() { d2, err = r.SelfSerialize() }); p != nil {
		return nil, nil, fmt.Sprintf("SelfSerialize of the schema rebuilt from the %s description panicked: %v", label, p)
	}
	if err != nil {
		return nil, nil, fmt.Sprintf("the schema rebuilt from the %s description cannot describe itself: %v", label, err)
	}
	return r, d2, ""
}

func runScope(c ScopeCase) string {
	built, err := spec.Build(c.Spec)
	if err != nil {
		return ""
	}
	sc, ok := built.(*schema.ScopeSchema)
	if !ok {
		return ""
	}
	var d any
	if p := oracle.Safely(func() { d, err = sc.SelfSerialize() }); p != nil {
		return fmt.Sprintf("SelfSerialize panicked: %v\nschema: %s", p, oracle.SpecJSON(c.Spec))
	}
	if err != nil {
		return fmt.Sprintf("a schema built through the public constructors cannot describe itself: %v\nschema: %s", err, oracle.SpecJSON(c.Spec))
	}
	r, d2, msg := rebuildScope(d, "direct")
	if msg != "" {
		return msg + "\nschema: " + oracle.SpecJSON(c.Spec)
	}
	if df := diff(d, d2, ""); df != "" {
		return fmt.Sprintf("describe -> rebuild -> describe is not a fixed point: %s\nschema: %s", df, oracle.SpecJSON(c.Spec))
	}
	for label, via := range map[string]func(any) (any, error){"CBOR-transported": viaCBOR, "YAML-transported": viaYAML} {
		td, terr := via(d)
		if terr != nil {
			return fmt.Sprintf("the description cannot pass through %s: %v\nschema: %s", label, terr, oracle.SpecJSON(c.Spec))
		}
		_, d3, msg := rebuildScope(td, label)
		if msg != "" {
			return msg + "\nschema: " + oracle.SpecJSON(c.Spec)
		}
		if df := diff(d, d3, ""); df != "" {
			return fmt.Sprintf("after the description was %s, describing the rebuilt schema differs: %s\nschema: %s", label, df, oracle.SpecJSON(c.Spec))
		}
	}
	// the other public route from a description back to a schema: the meta-schema scope itself (DescribeScope) turns
	// the description into a ScopeSchema, and the caller links it (ApplySelf) - the route a caller must take when it
	// wants to apply external namespaces itself
	var viaMeta *schema.ScopeSchema
	if p := oracle.Safely(func() {
		var v any
		if v, err = schema.DescribeScope().Unserialize(d); err == nil {
			viaMeta = v.(*schema.ScopeSchema)
			viaMeta.ApplySelf()
		}
	}); p != nil {
		return fmt.Sprintf("DescribeScope().Unserialize(description) + ApplySelf panicked: %v\nschema: %s", p, oracle.SpecJSON(c.Spec))
	}
	if err != nil {
		return fmt.Sprintf("the description is not accepted by the meta-schema scope DescribeScope(): %v\nschema: %s", err, oracle.SpecJSON(c.Spec))
	}
	var dm any
	if p := oracle.Safely(func() { dm, err = viaMeta.SelfSerialize() }); p != nil || err != nil {
		return fmt.Sprintf("the schema rebuilt through DescribeScope() cannot describe itself: %v %v\nschema: %s", p, err, oracle.SpecJSON(c.Spec))
	}
	if df := diff(d, dm, ""); df != "" {
		return fmt.Sprintf("describe -> rebuild through DescribeScope() -> describe is not a fixed point: %s\nschema: %s", df, oracle.SpecJSON(c.Spec))
	}
	// behavioural equivalence
	structs := hasStruct(c.Spec)
	for _, in := range c.Inputs {
		var u1, u2 any
		var e1, e2 error
		if p := oracle.Safely(func() { u1, e1 = sc.Unserialize(in.Go()) }); p != nil {
			continue // C04
		}
		if !structs {
			var u3 any
			var e3 error
			if p := oracle.Safely(func() { u3, e3 = viaMeta.Unserialize(in.Go()) }); p != nil {
				return fmt.Sprintf("the schema rebuilt through DescribeScope() panicked on %s where the original returned (%s, %v): %v\nschema: %s", in, short(u1), e1, p, oracle.SpecJSON(c.Spec))
			}
			if (e1 == nil) != (e3 == nil) || (e1 == nil && !val.Equal(u1, u3, val.Opts{})) {
				return fmt.Sprintf("original and schema rebuilt through DescribeScope() differ on %s: original (%s, %v), rebuilt (%s, %v)\nschema: %s", in, short(u1), e1, short(u3), e3, oracle.SpecJSON(c.Spec))
			}
		}
		if p := oracle.Safely(func() { u2, e2 = r.Unserialize(in.Go()) }); p != nil {
			return fmt.Sprintf("the rebuilt schema panicked on %s where the original returned (%s, %v): %v\nschema: %s", in, short(u1), e1, p, oracle.SpecJSON(c.Spec))
		}
		if structs {
			continue // the struct mapping is not part of the description (it changes defaulting of by-value members)
		}
		if (e1 == nil) != (e2 == nil) {
			return fmt.Sprintf("original and rebuilt schema disagree on %s: original %v, rebuilt %v\nschema: %s", in, e1, e2, oracle.SpecJSON(c.Spec))
		}
		if e1 == nil && !val.Equal(u1, u2, val.Opts{}) {
			return fmt.Sprintf("original and rebuilt schema unserialize %s differently:\n original: %s\n rebuilt:  %s\nschema: %s", in, short(u1), short(u2), oracle.SpecJSON(c.Spec))
		}
	}
	return ""
}

func c09Opts(depth int) gen.Opts {
	o := gen.Full(depth)
	o.Describable = true
	o.ScopeRoot = true
	return o
}

func features(s *spec.Spec) map[string]bool {
	f := map[string]bool{}
	spec.Walk(s, func(n *spec.Spec) {
		f["kind:"+n.Kind] = true
		if n.Units != nil {
			f["units"] = true
			if n.Units.Builtin == "" {
				f["units_generated"] = true
			}
		}
		if n.Min != nil || n.Max != nil || n.FMin != nil || n.FMax != nil {
			f["bounds"] = true
		}
		if n.Pattern != nil {
			f["string_pattern"] = true
		}
		for _, e := range n.Enum {
			if e.Display != nil {
				f["enum_display"] = true
			}
		}
		if n.IDUnenforced {
			f["id_unenforced"] = true
		}
		if n.Kind == spec.KRef && n.Display != nil {
			f["ref_display"] = true
		}
		if (n.Kind == spec.KOneOfI || n.Kind == spec.KOneOfS) && n.Inlined {
			f["oneof_inlined"] = true
		}
		for _, m := range n.Members {
			f["oneof_member:"+m.Type.Kind] = true
		}
		for _, p := range n.Props {
			if p.Default != nil {
				f["default"] = true
			}
			if p.Required {
				f["required"] = true
			} else {
				f["not_required"] = true
			}
			if len(p.RequiredIf) > 0 {
				f["required_if"] = true
			}
			if len(p.RequiredIfNot) > 0 {
				f["required_if_not"] = true
			}
			if len(p.Conflicts) > 0 {
				f["conflicts"] = true
			}
			if p.Disabled {
				f["disabled"] = true
				if p.DisabledReason != "" {
					f["disabled_reason"] = true
				}
			}
			if len(p.Examples) > 0 {
				f["examples"] = true
			}
			if p.Display != nil {
				f["property_display"] = true
			}
			if p.Type.Kind == spec.KRef && p.Type.RefID == n.ID {
				f["recursive_ref"] = true
			}
		}
	})
	return f
}

var optional = []string{"units", "bounds", "string_pattern", "enum_display", "id_unenforced", "ref_display", "oneof_inlined", "default", "required_if", "required_if_not", "conflicts", "disabled", "examples", "property_display", "recursive_ref"}

func TestScopes(t *testing.T) {
	depth := ev.N(3, 4)
	ev.Check(t, "scopes", 500, 10000, func(rt *rapid.T) {
		o := c09Opts(depth)
		s := gen.Spec(o).Draw(rt, "spec")
		gen.AddDefaults(rt, s, o)
		c := ScopeCase{Spec: s}
		for i := 0; i < ev.N(8, 20); i++ {
			mv, ok := gen.ValueFor(rt, s, nil, 3)
			if !ok {
				break
			}
			in := gen.Render(rt, s, nil, mv).V
			switch rapid.IntRange(0, 3).Draw(rt, "mutateInput") {
			case 0:
				if m, what := gen.MutateRaw(rt, in); what != "" {
					in = m
				}
			case 1:
				// one leaf replaced by a string at the edge of the number / unit grammars
				if m, what := gen.MutateLeaf(rt, in); what != "" {
					in = m
					ev.Class("input_with_hostile_leaf_string", 1)
				}
			}
			c.Inputs = append(c.Inputs, in)
		}
		f := features(s)
		n := 0
		classes := []string{}
		for _, k := range optional {
			if f[k] {
				n++
			}
		}
		for k := range f {
			classes = append(classes, "feature:"+k)
		}
		ev.Case(ev.FP(oracle.SpecJSON(s)), n >= 3 && f["kind:ref"], classes...)
		if n >= 3 && f["kind:ref"] && ev.WantSample("scope") {
			ev.Sample("scope", ScopeCase{Spec: s})
		}
		if msg := runScope(c); msg != "" {
			ev.Fail(rt, "scope", c, "%s", msg)
		}
	})
}

// ---------------------------------------------------------------------------------------------------------------
// whole plugin schemas

type SignalSpec struct {
	ID      string            `json:"id"`
	Data    *spec.Spec        `json:"data"`
	Display *spec.DisplaySpec `json:"display,omitempty"`
}

type OutputSpec struct {
	ID      string            `json:"id"`
	Schema  *spec.Spec        `json:"schema"`
	Error   bool              `json:"error"`
	Display *spec.DisplaySpec `json:"display,omitempty"`
}

type StepSpec struct {
	ID       string            `json:"id"`
	Input    *spec.Spec        `json:"input"`
	Outputs  []OutputSpec      `json:"outputs"`
	Handlers []SignalSpec      `json:"handlers,omitempty"`
	Emitters []SignalSpec      `json:"emitters,omitempty"`
	Display  *spec.DisplaySpec `json:"display,omitempty"`
}

type PluginCase struct {
	Steps  []StepSpec `json:"steps"`
	Inputs []val.V    `json:"inputs"` // for step 0's input
}

func displayOf(d *spec.DisplaySpec) *schema.DisplayValue {
	if d == nil {
		return nil
	}
	return schema.NewDisplayValue(d.Name, d.Desc, d.Icon)
}

func displayIface(d *spec.DisplaySpec) schema.Display {
	if d == nil {
		return nil
	}
	return schema.NewDisplayValue(d.Name, d.Desc, d.Icon)
}

func buildPlugin(c PluginCase) (schema.Schema[schema.Step], map[string]*schema.ScopeSchema, error) {
	scopes := map[string]*schema.ScopeSchema{}
	steps := map[string]*schema.StepSchema{}
	scopeOf := func(key string, s *spec.Spec) (*schema.ScopeSchema, error) {
		b, err := spec.Build(s)
		if err != nil {
			return nil, err
		}
		sc := b.(*schema.ScopeSchema)
		scopes[key] = sc
		return sc, nil
	}
	for _, st := range c.Steps {
		in, err := scopeOf(st.ID+"/input", st.Input)
		if err != nil {
			return nil, nil, err
		}
		outs := map[string]*schema.StepOutputSchema{}
		for _, o := range st.Outputs {
			osc, err := scopeOf(st.ID+"/output/"+o.ID, o.Schema)
			if err != nil {
				return nil, nil, err
			}
			outs[o.ID] = schema.NewStepOutputSchema(osc, displayOf(o.Display), o.Error)
		}
		sig := func(kind string, l []SignalSpec) (map[string]*schema.SignalSchema, error) {
			if len(l) == 0 {
				return nil, nil
			}
			m := map[string]*schema.SignalSchema{}
			for _, sg := range l {
				dsc, err := scopeOf(st.ID+"/"+kind+"/"+sg.ID, sg.Data)
				if err != nil {
					return nil, err
				}
				m[sg.ID] = schema.NewSignalSchema(sg.ID, dsc, displayIface(sg.Display))
			}
			return m, nil
		}
		handlers, err := sig("handler", st.Handlers)
		if err != nil {
			return nil, nil, err
		}
		emitters, err := sig("emitter", st.Emitters)
		if err != nil {
			return nil, nil, err
		}
		steps[st.ID] = schema.NewStepSchema(st.ID, in, outs, handlers, emitters, displayIface(st.Display))
	}
	return schema.NewSchema(steps), scopes, nil
}

func scopesOfRebuilt(r *schema.SchemaSchema) map[string]schema.Scope {
	out := map[string]schema.Scope{}
	for id, st := range r.StepsValue {
		out[id+"/input"] = st.Input()
		for oid, o := range st.Outputs() {
			out[id+"/output/"+oid] = o.Schema()
		}
		for sid, sg := range st.SignalHandlers() {
			out[id+"/handler/"+sid] = sg.DataSchema()
		}
		for sid, sg := range st.SignalEmitters() {
			out[id+"/emitter/"+sid] = sg.DataSchema()
		}
	}
	return out
}

func pluginJSON(c PluginCase) string {
	b, _ := json.Marshal(c.Steps)
	return string(b)
}

func runPlugin(c PluginCase) string {
	sch, scopes, err := buildPlugin(c)
	if err != nil {
		return ""
	}
	var d any
	if p := oracle.Safely(func() { d, err = sch.SelfSerialize() }); p != nil {
		return fmt.Sprintf("SelfSerialize of the plugin schema panicked: %v\nplugin: %s", p, pluginJSON(c))
	}
	if err != nil {
		return fmt.Sprintf("a plugin schema built through the public constructors cannot describe itself: %v\nplugin: %s", err, pluginJSON(c))
	}
	checkWith := func(label string, load func() (*schema.SchemaSchema, error)) string {
		var r *schema.SchemaSchema
		var rerr error
		if p := oracle.Safely(func() { r, rerr = load() }); p != nil {
			return fmt.Sprintf("rebuilding the plugin schema from the %s description panicked: %v", label, p)
		}
		if rerr != nil {
			return fmt.Sprintf("the %s description of the plugin schema is not accepted: %v", label, rerr)
		}
		var d2 any
		if p := oracle.Safely(func() { d2, rerr = r.SelfSerialize() }); p != nil || rerr != nil {
			return fmt.Sprintf("the plugin schema rebuilt from the %s description cannot describe itself: %v %v", label, p, rerr)
		}
		if df := diff(d, d2, ""); df != "" {
			return fmt.Sprintf("plugin schema: describe -> rebuild (%s) -> describe is not a fixed point: %s", label, df)
		}
		// every scope of the rebuilt schema must be usable as returned
		for key, rs := range scopesOfRebuilt(r) {
			orig := scopes[key]
			if orig == nil {
				return fmt.Sprintf("rebuilt plugin schema has an unexpected scope %s", key)
			}
			var verr error
			if p := oracle.Safely(func() { verr = rs.ValidateReferences() }); p != nil || verr != nil {
				return fmt.Sprintf("the %s of the plugin schema rebuilt from the %s description is not usable as returned: references are not linked (%v %v)", key, label, verr, p)
			}
			probes := []val.V{{T: "map[string]any"}}
			if strings.HasSuffix(key, "/input") && strings.HasPrefix(key, c.Steps[0].ID+"/") {
				probes = append(probes, c.Inputs...)
			}
			for _, in := range probes {
				var e1, e2 error
				p1 := oracle.Safely(func() { _, e1 = orig.Unserialize(in.Go()) })
				p2 := oracle.Safely(func() { _, e2 = rs.Unserialize(in.Go()) })
				if p1 == nil && p2 != nil {
					return fmt.Sprintf("the %s of the rebuilt plugin schema (%s) panicked on %s: %v", key, label, in, p2)
				}
				if p1 == nil && p2 == nil && !hasStruct(specOfKey(c, key)) && (e1 == nil) != (e2 == nil) {
					return fmt.Sprintf("the %s of the rebuilt plugin schema (%s) disagrees with the original on %s: original %v, rebuilt %v", key, label, in, e1, e2)
				}
			}
		}
		return ""
	}
	check := func(label string, desc any) string {
		return checkWith(label, func() (*schema.SchemaSchema, error) { return schema.UnserializeSchema(desc) })
	}
	if msg := check("direct", d); msg != "" {
		return msg + "\nplugin: " + pluginJSON(c)
	}
	// as carried in the ATP hello message: read by the real client
	if hello, err := cbor.Marshal(atp.HelloMessage{Version: 3, Schema: d}); err != nil {
		return fmt.Sprintf("plugin description cannot be put into a hello message: %v", err)
	} else if msg := checkWith("hello-message (read by the ATP client)", func() (*schema.SchemaSchema, error) {
		cl := atp.NewClient(helloChannel{Reader: bytes.NewReader(hello)})
		return cl.ReadSchema()
	}); msg != "" {
		return msg + "\nplugin: " + pluginJSON(c)
	}
	if td, err := viaCBOR(d); err != nil {
		return fmt.Sprintf("plugin description cannot pass through CBOR: %v", err)
	} else if msg := check("CBOR-transported", td); msg != "" {
		return msg + "\nplugin: " + pluginJSON(c)
	}
	if td, err := viaYAML(d); err != nil {
		return fmt.Sprintf("plugin description cannot pass through YAML: %v", err)
	} else if msg := check("YAML-transported", td); msg != "" {
		return msg + "\nplugin: " + pluginJSON(c)
	}
	return ""
}

// helloChannel plays a recorded hello message to the client and swallows what the client writes.
type helloChannel struct{ io.Reader }

func (helloChannel) Write(p []byte) (int, error) { return len(p), nil }
func (helloChannel) Close() error                { return nil }

func specOfKey(c PluginCase, key string) *spec.Spec {
	for _, st := range c.Steps {
		if key == st.ID+"/input" {
			return st.Input
		}
		for _, o := range st.Outputs {
			if key == st.ID+"/output/"+o.ID {
				return o.Schema
			}
		}
		for _, s := range st.Handlers {
			if key == st.ID+"/handler/"+s.ID {
				return s.Data
			}
		}
		for _, s := range st.Emitters {
			if key == st.ID+"/emitter/"+s.ID {
				return s.Data
			}
		}
	}
	return &spec.Spec{}
}

func genDisplay(t *rapid.T, label string) *spec.DisplaySpec {
	if rapid.Bool().Draw(t, label+"HasDisplay") {
		return nil
	}
	d := &spec.DisplaySpec{Name: spec.P(rapid.SampledFrom([]string{"Step", "Output", "A signal"}).Draw(t, label+"Name"))}
	if rapid.Bool().Draw(t, label+"Desc") {
		d.Desc = spec.P("Does things.")
	}
	return d
}

func TestPluginSchemas(t *testing.T) {
	ev.Check(t, "plugins", 250, 5000, func(rt *rapid.T) {
		o := c09Opts(2)
		scopeGen := func(label string) *spec.Spec {
			s := gen.Spec(o).Draw(rt, label)
			gen.AddDefaults(rt, s, o)
			// now and then the scope sits at the bottom of a tower of nested scopes / lists: the description of a
			// plugin schema has no depth limit of its own, whatever carries it must not have one either
			if rapid.IntRange(0, 7).Draw(rt, label+"Tower") == 0 {
				k := rapid.IntRange(1, 6).Draw(rt, label+"TowerHeight")
				for i := 0; i < k; i++ {
					var inner *spec.Spec = s
					if rapid.Bool().Draw(rt, label+"TowerList") {
						inner = &spec.Spec{Kind: spec.KList, Items: &spec.Spec{Kind: spec.KList, Items: s}}
					}
					id := fmt.Sprintf("T%d", i)
					s = &spec.Spec{Kind: spec.KScope, Root: id, Objects: []*spec.Spec{{Kind: spec.KObject, ID: id, Props: []spec.Prop{{Name: "inner", Type: inner}}}}}
				}
				ev.Class(fmt.Sprintf("plugin_scope_tower_height=%d", k), 1)
			}
			return s
		}
		c := PluginCase{}
		nSteps := rapid.IntRange(1, 3).Draw(rt, "nSteps")
		sigCount, refInSignal := 0, false
		for i := 0; i < nSteps; i++ {
			st := StepSpec{ID: fmt.Sprintf("step-%d", i), Input: scopeGen("input"), Display: genDisplay(rt, "step")}
			for j := 0; j < rapid.IntRange(1, 3).Draw(rt, "nOutputs"); j++ {
				st.Outputs = append(st.Outputs, OutputSpec{ID: []string{"success", "error", "other_1"}[j], Schema: scopeGen("output"), Error: j == 1, Display: genDisplay(rt, "output")})
			}
			for j := 0; j < rapid.IntRange(0, 2).Draw(rt, "nHandlers"); j++ {
				sg := SignalSpec{ID: fmt.Sprintf("sig_in_%d", j), Data: scopeGen("handlerData"), Display: genDisplay(rt, "signal")}
				st.Handlers = append(st.Handlers, sg)
				sigCount++
				if spec.Kinds(sg.Data)[spec.KRef] {
					refInSignal = true
				}
			}
			for j := 0; j < rapid.IntRange(0, 2).Draw(rt, "nEmitters"); j++ {
				// an emitter may carry the ID of one of the step's handlers (the SDK's own test plugin does)
				sg := SignalSpec{ID: fmt.Sprintf("%s_%d", rapid.SampledFrom([]string{"sig_out", "sig_in"}).Draw(rt, "emitterIDStem"), j), Data: scopeGen("emitterData"), Display: genDisplay(rt, "signal")}
				st.Emitters = append(st.Emitters, sg)
				sigCount++
				if spec.Kinds(sg.Data)[spec.KRef] {
					refInSignal = true
				}
			}
			c.Steps = append(c.Steps, st)
		}
		for i := 0; i < 4; i++ {
			if mv, ok := gen.ValueFor(rt, c.Steps[0].Input, nil, 3); ok {
				c.Inputs = append(c.Inputs, gen.Render(rt, c.Steps[0].Input, nil, mv).V)
			}
		}
		ev.Case(ev.FP(pluginJSON(c)), sigCount > 0 && refInSignal, fmt.Sprintf("plugin_steps=%d", nSteps), fmt.Sprintf("plugin_signals=%v", sigCount > 0), fmt.Sprintf("plugin_ref_in_signal=%v", refInSignal))
		if sigCount > 0 && refInSignal && ev.WantSample("plugin") {
			ev.Sample("plugin", PluginCase{Steps: c.Steps})
		}
		if msg := runPlugin(c); msg != "" {
			ev.Fail(rt, "plugin", c, "%s", msg)
		}
	})
}
