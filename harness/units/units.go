// Package units holds the serialisable description of a units definition, the reference (backtracking) parser of
// the stated grammar and sentence rendering, shared by C16 and the schema model (C02).
package units

import (
	"math/big"
	"sort"
	"strings"

	"go.flow.arcalot.io/pluginsdk/schema"
)

// Names are short singular, short plural, long singular, long plural.
type Names [4]string

// Mult is one multiplier of a definition.
type Mult struct {
	M int64 `json:"m"`
	N Names `json:"n"`
}

// Def describes a units definition: either a built-in one by name or a generated one.
type Def struct {
	Builtin string `json:"builtin,omitempty"`
	Base    Names  `json:"base"`
	Mults   []Mult `json:"mults,omitempty"` // any order; Sorted() gives descending
}

// Builtins lists the five package-level definitions.
var Builtins = map[string]*schema.UnitsDefinition{
	"bytes":      schema.UnitBytes,
	"nanos":      schema.UnitDurationNanoseconds,
	"seconds":    schema.UnitDurationSeconds,
	"characters": schema.UnitCharacters,
	"percentage": schema.UnitPercentage,
}

// BuiltinNames in fixed order.
var BuiltinNames = []string{"bytes", "nanos", "seconds", "characters", "percentage"}

func namesOf(u *schema.UnitDefinition) Names {
	return Names{u.NameShortSingular(), u.NameShortPlural(), u.NameLongSingular(), u.NameLongPlural()}
}

// FromSDK reads the description out of an SDK definition (used for the built-ins: the reference parser works
// from the declared names and multipliers, which are data, not from the SDK's parser).
func FromSDK(name string, u *schema.UnitsDefinition) Def {
	d := Def{Builtin: name, Base: namesOf(u.BaseUnit())}
	for m, un := range u.Multipliers() {
		d.Mults = append(d.Mults, Mult{M: m, N: namesOf(un)})
	}
	sort.Slice(d.Mults, func(i, j int) bool { return d.Mults[i].M > d.Mults[j].M })
	return d
}

// BuiltinDef returns the description of a built-in definition.
func BuiltinDef(name string) Def { return FromSDK(name, Builtins[name]) }

// Sorted returns the multipliers in descending order.
func (d Def) Sorted() []Mult {
	ms := append([]Mult(nil), d.Mults...)
	sort.Slice(ms, func(i, j int) bool { return ms[i].M > ms[j].M })
	return ms
}

// Build returns the SDK definition: the package-level instance for built-ins, a fresh NewUnits otherwise.
func (d Def) Build() *schema.UnitsDefinition {
	if d.Builtin != "" {
		return Builtins[d.Builtin]
	}
	return d.BuildFresh()
}

// BuildFresh always constructs a new instance through the public constructors.
func (d Def) BuildFresh() *schema.UnitsDefinition {
	var mults map[int64]*schema.UnitDefinition
	if len(d.Mults) > 0 {
		mults = map[int64]*schema.UnitDefinition{}
		for _, m := range d.Mults {
			mults[m.M] = schema.NewUnit(m.N[0], m.N[1], m.N[2], m.N[3])
		}
	}
	return schema.NewUnits(schema.NewUnit(d.Base[0], d.Base[1], d.Base[2], d.Base[3]), mults)
}

// Parse is one reading of a sentence.
type Parse struct {
	Value   *big.Rat
	Decimal bool // the base component carried a decimal point
	// CountOverflow: some integer count, or count x multiplier, does not fit in int64
	CountOverflow bool
}

func isWS(c byte) bool { return c == ' ' || c == '\t' || c == '\n' || c == '\f' || c == '\r' }
func isDigit(c byte) bool { return c >= '0' && c <= '9' }

var maxInt64 = big.NewInt(0).SetUint64(1<<63 - 1)

// ParseAll enumerates every reading of s under the stated grammar: optional surrounding white space, then
// components "count [ws] name" in strictly descending unit order, each unit at most once, white space optional
// between components; the base component may carry a decimal fraction and may omit its name (bare number);
// at least one component. Returns the readings with pairwise distinct (value, decimal).
func (d Def) ParseAll(s string) []Parse {
	s = strings.TrimSpace(s)
	if s == "" {
		return nil
	}
	ms := d.Sorted()
	var out []Parse
	seen := map[string]bool{}
	var rec func(pos, idx int, acc *big.Rat, overflow bool, n int)
	emit := func(acc *big.Rat, dec, overflow bool) {
		k := acc.RatString()
		if dec {
			k += "d"
		}
		if seen[k] {
			for i := range out {
				if out[i].Value.Cmp(acc) == 0 && out[i].Decimal == dec && !overflow {
					out[i].CountOverflow = false
				}
			}
			return
		}
		seen[k] = true
		out = append(out, Parse{Value: new(big.Rat).Set(acc), Decimal: dec, CountOverflow: overflow})
	}
	rec = func(pos, idx int, acc *big.Rat, overflow bool, n int) {
		for pos < len(s) && isWS(s[pos]) {
			pos++
		}
		if pos == len(s) {
			if n > 0 {
				emit(acc, false, overflow)
			}
			return
		}
		st := pos
		for pos < len(s) && isDigit(s[pos]) {
			pos++
		}
		if pos == st {
			return
		}
		digits := s[st:pos]
		count, _ := new(big.Int).SetString(digits, 10)
		// multiplier components
		p := pos
		for p < len(s) && isWS(s[p]) {
			p++
		}
		for j := idx; j < len(ms); j++ {
			tried := map[string]bool{}
			for _, name := range ms[j].N {
				if tried[name] {
					continue
				}
				tried[name] = true
				if name != "" && strings.HasPrefix(s[p:], name) {
					v := new(big.Int).Mul(count, big.NewInt(ms[j].M))
					ov := overflow || count.Cmp(maxInt64) > 0 || v.Cmp(maxInt64) > 0
					rec(p+len(name), j+1, new(big.Rat).Add(acc, new(big.Rat).SetInt(v)), ov, n+1)
				}
			}
		}
		// base component (must be last): optional fraction, optional name, then only white space
		type cand struct {
			end int
			val *big.Rat
			dec bool
		}
		cands := []cand{{pos, new(big.Rat).SetInt(count), false}}
		if pos < len(s) && s[pos] == '.' {
			q := pos + 1
			for q < len(s) && isDigit(s[q]) {
				q++
			}
			if q > pos+1 {
				rv, ok := new(big.Rat).SetString(s[st:q])
				if ok {
					cands = append(cands, cand{q, rv, true})
				}
			}
		}
		for _, c := range cands {
			q := c.end
			for q < len(s) && isWS(s[q]) {
				q++
			}
			ov := overflow || (!c.dec && count.Cmp(maxInt64) > 0)
			if q == len(s) {
				emit(new(big.Rat).Add(acc, c.val), c.dec, ov)
				continue
			}
			tried := map[string]bool{}
			for _, name := range d.Base {
				if tried[name] || name == "" {
					continue
				}
				tried[name] = true
				if strings.HasPrefix(s[q:], name) {
					e := q + len(name)
					for e < len(s) && isWS(s[e]) {
						e++
					}
					if e == len(s) {
						emit(new(big.Rat).Add(acc, c.val), c.dec, ov)
					}
				}
			}
		}
	}
	rec(0, 0, new(big.Rat), false, 0)
	return out
}
