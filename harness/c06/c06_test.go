package c06

import (
	"context"
	"encoding/json"
	"fmt"
	"io"
	"os"
	"path/filepath"
	"regexp"
	"runtime"
	"sort"
	"strconv"
	"strings"
	"sync"
	"sync/atomic"
	"testing"
	"time"

	"github.com/fxamacker/cbor/v2"
	"go.flow.arcalot.io/pluginsdk/atp"
	"go.flow.arcalot.io/pluginsdk/schema"
	"pgregory.net/rapid"
	"verif/harness/atpx"
	"verif/harness/ev"
)

func TestMain(m *testing.M) {
	ev.Note("rule", "C06: schedules as data. The build overlay generated from the working tree calls a hook before every statement of atp/client.go and atp/server.go (the yield-point table is re-derived on every run); a delay plan is a list of (point, occurrence, delay): the hook sleeps 4-10 ms the n-th time the point is reached. Real client and real RunATPServer talk over unbuffered pipes and run a session history: three serial Execute calls; two concurrent ones followed by a third; a gated step that receives a signal while running, then another call; a step-fatal error followed by a success; an error without run ID broadcast to a pending run (while its step is still running, and racing its result), followed by overlapping calls; two overlapping calls that carry the same run ID, followed by overlapping calls; two histories against a correctly behaving harness peer that emits signals for its runs (the SDK's own server never does), taken by one caller and not by another, or handled together with the caller's own signals by one goroutine over unbuffered channels; Close at the end or concurrently with the last result. Quick tier: every point that the history reaches x occurrence {1,2} x every history (exhaustive single-delay sweep); thorough tier: additionally all ordered pairs of reached points on two histories and rapid-generated plans of 1-3 delays. Oracle: every Execute returns exactly once with its own run's result, Close returns, the server returns, and no goroutine with a frame in the client remains afterwards. A call that has not returned after 2 s (200x the total delay) is only reported if the session is provably quiescent: all planned delays are over and two goroutine dumps 300 ms apart show identical parked frames; otherwise the trial is waited out (30 s) or counted as inconclusive. Non-trivial: the planned point was actually reached at the planned occurrence; distinct by (history, plan).")
	ev.RegisterReplay("trial", func(t *testing.T, raw json.RawMessage) {
		var c Trial
		if err := json.Unmarshal(raw, &c); err != nil {
			t.Fatal(err)
		}
		loadPoints(t)
		reps := 20
		if n, err := strconv.Atoi(os.Getenv("VERIF_REPLAY_REPS")); err == nil && n > 0 {
			reps = n
		}
		for i := 0; i < reps; i++ {
			if msg, _ := runTrial(c); msg != "" {
				t.Fatal(msg)
			}
		}
	})
	ev.Main(m, "C06")
}

func TestReplay(t *testing.T) { ev.RunReplay(t) }

type point struct {
	ID   int    `json:"id"`
	File string `json:"file"`
	Line int    `json:"line"`
	Kind string `json:"kind"`
	Func string `json:"func"`
}

var points []point

func loadPoints(t *testing.T) {
	if points != nil {
		return
	}
	p := filepath.Join(os.Getenv("VERIF_TMP"), "overlay", "points.json")
	b, err := os.ReadFile(p)
	if err != nil {
		t.Fatalf("yield-point table not found (%v): the check must be built through ./check, which generates the overlay", err)
	}
	if err := json.Unmarshal(b, &points); err != nil {
		t.Fatal(err)
	}
}

func (p point) String() string {
	return fmt.Sprintf("#%d %s:%d (%s, %s)", p.ID, p.File, p.Line, p.Func, strings.TrimPrefix(p.Kind, "*ast."))
}

// Delay is one entry of a plan.
type Delay struct {
	Point      int `json:"point"`
	Occurrence int `json:"occurrence"`
	Millis     int `json:"ms"`
	// informational, for replays against an edited tree
	Where string `json:"where,omitempty"`
}

type Trial struct {
	History string  `json:"history"`
	Plan    []Delay `json:"plan"`
}

// ---------------------------------------------------------------------------------------------------------------
// hook

type hookState struct {
	hits    []atomic.Int64
	plan    []Delay
	fired   []atomic.Bool
	active  atomic.Int64 // delays currently sleeping
	pending atomic.Int64 // plan entries not yet finished
}

func install(nPoints int, plan []Delay) *hookState {
	h := &hookState{hits: make([]atomic.Int64, nPoints+1), plan: plan, fired: make([]atomic.Bool, len(plan))}
	h.pending.Store(int64(len(plan)))
	fn := func(n int) {
		if n < 0 || n >= len(h.hits) {
			return
		}
		c := h.hits[n].Add(1)
		for i := range h.plan {
			if h.plan[i].Point == n && int64(h.plan[i].Occurrence) == c && h.fired[i].CompareAndSwap(false, true) {
				h.active.Add(1)
				time.Sleep(time.Duration(h.plan[i].Millis) * time.Millisecond)
				h.active.Add(-1)
				h.pending.Add(-1)
			}
		}
	}
	atp.VerifYieldHook.Store(&fn)
	return h
}

func uninstall() { atp.VerifYieldHook.Store(nil) }

// ---------------------------------------------------------------------------------------------------------------
// session

type channel struct {
	io.Reader
	io.Writer
	closers []io.Closer
}

func (c channel) Close() error {
	for _, cl := range c.closers {
		_ = cl.Close()
	}
	return nil
}

type call struct {
	run    string
	done   chan struct{}
	result atp.ExecutionResult
	count  atomic.Int64
}

type session struct {
	stdoutR *io.PipeReader
	client  atp.Client
	gates   *atpx.Gates
	srvDone chan []*atp.ServerError
	calls   []*call
	mu      sync.Mutex
}

// emittingPeer is a correctly behaving ATP v3 plugin written in the harness: the SDK's own server never sends signal
// messages to the client, so "signal traffic in both directions" needs a peer that does. It announces the test
// plugin's schema; every work-start is answered - from a goroutine of its own, so that runs overlap - by two signal
// messages for that run, then (after the run's gate, if any) by the work-done message; signals from the client are
// read and dropped; client-done or the end of the input ends it once the running steps have answered.
func emittingPeer(in io.ReadCloser, out io.WriteCloser, gates *atpx.Gates) {
	defer func() {
		_ = out.Close()
		_ = in.Close()
	}()
	dec := atpx.Dec.NewDecoder(in)
	enc := cbor.NewEncoder(out)
	var encMu sync.Mutex
	send := func(id uint32, run string, data any) {
		encMu.Lock()
		defer encMu.Unlock()
		_ = enc.Encode(atp.RuntimeMessage{MessageID: id, RunID: run, MessageData: data})
	}
	var start any
	if dec.Decode(&start) != nil {
		return
	}
	desc, err := atpx.TestPlugin(gates, nil).SelfSerialize()
	if err != nil {
		return
	}
	if enc.Encode(atp.HelloMessage{Version: 3, Schema: desc}) != nil {
		return
	}
	var running sync.WaitGroup
	defer running.Wait()
	for {
		var m atp.DecodedRuntimeMessage
		if dec.Decode(&m) != nil {
			return
		}
		switch m.MessageID {
		case atp.MessageTypeWorkStart:
			var ws atp.WorkStartMessage
			if atpx.Dec.Unmarshal(m.RawMessageData, &ws) != nil {
				continue
			}
			cfg, _ := ws.Config.(map[any]any)
			gate, _ := cfg["gate"].(string)
			run := m.RunID
			running.Add(1)
			go func() {
				defer running.Done()
				gates.Open("started:" + run)
				send(atp.MessageTypeSignal, run, atp.SignalMessage{SignalID: "progress", Data: map[string]any{"x": int64(1)}})
				send(atp.MessageTypeSignal, run, atp.SignalMessage{SignalID: "progress", Data: map[string]any{"x": int64(2)}})
				if gate != "" {
					gates.Wait(gate, 20*time.Second)
				}
				send(atp.MessageTypeWorkDone, run, atp.WorkDoneMessage{StepID: ws.StepID, OutputID: "success", OutputData: map[string]any{"tag": run, "n": int64(len(run))}})
			}()
		case atp.MessageTypeSignal:
			// runs named k...: every signal from the client is answered by a signal to the client
			if strings.HasPrefix(m.RunID, "k") {
				run := m.RunID
				running.Add(1)
				go func() {
					defer running.Done()
					send(atp.MessageTypeSignal, run, atp.SignalMessage{SignalID: "echo", Data: map[string]any{"x": int64(3)}})
				}()
			}
		case atp.MessageTypeClientDone:
			return
		}
	}
}

func newSession() (*session, error) { return newSessionWith(false) }

func newSessionWith(emitting bool) (*session, error) {
	s := &session{gates: atpx.NewGates(), srvDone: make(chan []*atp.ServerError, 1)}
	stdinR, stdinW := io.Pipe()
	stdoutR, stdoutW := io.Pipe()
	plugin := atpx.TestPlugin(s.gates, nil)
	go func() {
		if emitting {
			emittingPeer(stdinR, stdoutW, s.gates)
			s.srvDone <- nil
			return
		}
		s.srvDone <- atp.RunATPServer(context.Background(), stdinR, stdoutW, plugin)
	}()
	s.stdoutR = stdoutR
	s.client = atp.NewClient(channel{Reader: stdoutR, Writer: stdinW, closers: []io.Closer{stdinW}})
	errCh := make(chan error, 1)
	go func() {
		_, err := s.client.ReadSchema()
		errCh <- err
	}()
	select {
	case err := <-errCh:
		if err != nil {
			return nil, err
		}
	case <-time.After(10 * time.Second):
		return nil, fmt.Errorf("ReadSchema did not return")
	}
	return s, nil
}

func (s *session) execute(run, behaviour, gate string, toStep <-chan schema.Input) *call {
	return s.executeStep(run, "do", behaviour, gate, toStep)
}

func (s *session) executeStep(run, step, behaviour, gate string, toStep <-chan schema.Input) *call {
	return s.executeEmitting(run, step, behaviour, gate, toStep, nil)
}

// executeEmitting passes a channel for the signals the step emits (nil: the caller does not want them).
func (s *session) executeEmitting(run, step, behaviour, gate string, toStep <-chan schema.Input, fromStep chan<- schema.Input) *call {
	c := &call{run: run, done: make(chan struct{})}
	s.mu.Lock()
	s.calls = append(s.calls, c)
	s.mu.Unlock()
	go func() {
		r := s.client.Execute(schema.Input{RunID: run, ID: step, InputData: atpx.StepConfig(behaviour, gate, run)}, toStep, fromStep)
		c.result = r
		c.count.Add(1)
		close(c.done)
	}()
	return c
}

type verdictT struct {
	msg   string
	class string
}

var atpFrame = regexp.MustCompile(`pluginsdk/atp\.`)

// atpGoroutines returns the normalised stacks of the goroutines that have a frame in the atp package.
func atpGoroutines() []string {
	buf := make([]byte, 1<<20)
	st := string(buf[:runtime.Stack(buf, true)])
	var out []string
	for _, g := range strings.Split(st, "\n\n") {
		if !atpFrame.MatchString(g) {
			continue
		}
		lines := strings.Split(g, "\n")
		// drop the header (goroutine id, wait time) and argument values
		var norm []string
		for _, l := range lines[1:] {
			if strings.HasPrefix(l, "\t") {
				continue
			}
			// drop the argument list (the last parenthesised group), keep receiver types such as (*client)
			if i := strings.LastIndex(l, "("); i > 0 && strings.HasSuffix(l, ")") {
				l = l[:i]
			}
			l = strings.TrimPrefix(l, "go.flow.arcalot.io/pluginsdk/")
			l = strings.TrimPrefix(l, "created by go.flow.arcalot.io/pluginsdk/")
			norm = append(norm, l)
		}
		state := ""
		if i := strings.Index(lines[0], "["); i >= 0 {
			state = strings.Split(strings.Trim(lines[0][i:], "[]:"), ",")[0]
		}
		out = append(out, state+" | "+strings.Join(norm, " < "))
	}
	sort.Strings(out)
	return out
}

func clientGoroutines() []string {
	var out []string
	for _, g := range atpGoroutines() {
		if strings.Contains(g, "atp.(*client)") {
			out = append(out, g)
		}
	}
	return out
}

// await waits for ch. If it does not arrive within the normal bound, the quiescence rule decides between deadlock
// (violation), slow (keep waiting) and inconclusive.
func await(ch <-chan struct{}, h *hookState, what string) verdictT {
	select {
	case <-ch:
		return verdictT{}
	case <-time.After(2 * time.Second):
	}
	deadline := time.Now().Add(30 * time.Second)
	for time.Now().Before(deadline) {
		if h.pending.Load() == 0 || h.active.Load() == 0 {
			d1 := atpGoroutines()
			select {
			case <-ch:
				return verdictT{}
			case <-time.After(300 * time.Millisecond):
			}
			d2 := atpGoroutines()
			if h.active.Load() == 0 && strings.Join(d1, "\n") == strings.Join(d2, "\n") && !anyRunnable(d2) {
				return verdictT{msg: fmt.Sprintf("%s did not return and the session is quiescent (no delay pending, all ATP goroutines parked in the same place in two dumps 300 ms apart): deadlock\n  %s", what, strings.Join(d2, "\n  ")), class: "deadlock"}
			}
		}
		select {
		case <-ch:
			return verdictT{}
		case <-time.After(200 * time.Millisecond):
		}
	}
	return verdictT{class: "inconclusive"}
}

func anyRunnable(gs []string) bool {
	for _, g := range gs {
		if strings.HasPrefix(g, "running") || strings.HasPrefix(g, "runnable") || strings.HasPrefix(g, "sleep") {
			return true
		}
	}
	return false
}

// Histories. Each returns a verdict; it must leave no call outstanding.
var histories = []string{"serial3", "concurrent2plus1", "signal", "error_then_success", "close_races_last", "broadcast_error", "broadcast_error_concurrent", "same_run_id", "emit_unwatched", "emit_watched", "emit_sequential"}

// emitting reports whether the history runs against the harness peer that emits signals.
func emitting(history string) bool { return strings.HasPrefix(history, "emit_") }

func runHistory(name string, s *session, h *hookState) verdictT {
	wait := func(c *call) verdictT { return await(c.done, h, "Execute("+c.run+")") }
	switch name {
	case "serial3":
		for _, r := range []string{"a1", "a2", "a3"} {
			if v := wait(s.execute(r, "success", "", nil)); v.class != "" {
				return v
			}
		}
	case "concurrent2plus1":
		c1, c2 := s.execute("b1", "success", "", nil), s.execute("b2", "error_output", "", nil)
		if v := wait(c1); v.class != "" {
			return v
		}
		if v := wait(c2); v.class != "" {
			return v
		}
		if v := wait(s.execute("b3", "success", "", nil)); v.class != "" {
			return v
		}
	case "signal":
		toStep := make(chan schema.Input, 2)
		c1 := s.execute("c1", "success", "gate-c1", toStep)
		toStep <- schema.Input{RunID: "c1", ID: "poke", InputData: map[string]any{"x": int64(1)}}
		toStep <- schema.Input{RunID: "no-such-run", ID: "poke", InputData: map[string]any{"x": int64(2)}}
		time.Sleep(2 * time.Millisecond)
		s.gates.Open("gate-c1")
		if v := wait(c1); v.class != "" {
			return v
		}
		close(toStep)
		if v := wait(s.execute("c2", "success", "", nil)); v.class != "" {
			return v
		}
	case "error_then_success":
		if v := wait(s.execute("d1", "panic", "", nil)); v.class != "" {
			return v
		}
		if v := wait(s.execute("d2", "undeclared", "", nil)); v.class != "" {
			return v
		}
		if v := wait(s.execute("d3", "success", "", nil)); v.class != "" {
			return v
		}
	case "broadcast_error":
		// a work-start without a step ID draws an error WITHOUT a run ID from the server, which the client hands to
		// every run that is pending at that moment - here to f1, whose own result is still to come - and later calls
		// overlap again
		c1 := s.execute("f1", "success", "gate-f1", nil)
		if !s.gates.Wait("started:f1", 30*time.Second) {
			return verdictT{class: "inconclusive"}
		}
		if v := wait(s.executeStep("f0", "", "success", "", nil)); v.class != "" {
			return v
		}
		s.gates.Open("gate-f1")
		if v := wait(c1); v.class != "" {
			return v
		}
		// two calls that really overlap: f3 is issued and answered while f2's step is still running
		c2 := s.execute("f2", "success", "gate-f2", nil)
		if !s.gates.Wait("started:f2", 30*time.Second) {
			return verdictT{class: "inconclusive"}
		}
		if v := wait(s.execute("f3", "success", "", nil)); v.class != "" {
			return v
		}
		s.gates.Open("gate-f2")
		if v := wait(c2); v.class != "" {
			return v
		}
		if v := wait(s.execute("f4", "success", "", nil)); v.class != "" {
			return v
		}
	case "broadcast_error_concurrent":
		// the same broadcast, racing the victim's own result: h1's work-done and the run-less error for h0 arrive
		// close together, in either order relative to h1's caller collecting its result; overlapping calls follow
		c1 := s.execute("h1", "success", "", nil)
		// h0 follows a moment later, so that h1's own result precedes the run-less error unless the plan delays h1's
		// caller - which then finds two results delivered to its entry before it collects one
		time.Sleep(2 * time.Millisecond)
		c0 := s.executeStep("h0", "", "success", "", nil)
		if v := wait(c1); v.class != "" {
			return v
		}
		if v := wait(c0); v.class != "" {
			return v
		}
		c2 := s.execute("h2", "success", "gate-h2", nil)
		if !s.gates.Wait("started:h2", 30*time.Second) {
			return verdictT{class: "inconclusive"}
		}
		if v := wait(s.execute("h3", "success", "", nil)); v.class != "" {
			return v
		}
		s.gates.Open("gate-h2")
		if v := wait(c2); v.class != "" {
			return v
		}
		if v := wait(s.execute("h4", "success", "", nil)); v.class != "" {
			return v
		}
	case "emit_unwatched":
		// the plugin emits signals for runs whose callers passed no channel for them: they are dropped, nothing else
		// changes - the run returns its result and later, overlapping calls work
		if v := wait(s.execute("i1", "success", "", nil)); v.class != "" {
			return v
		}
		c2 := s.execute("i2", "success", "gate-i2", nil)
		if !s.gates.Wait("started:i2", 30*time.Second) {
			return verdictT{class: "inconclusive"}
		}
		if v := wait(s.execute("i3", "success", "", nil)); v.class != "" {
			return v
		}
		s.gates.Open("gate-i2")
		if v := wait(c2); v.class != "" {
			return v
		}
	case "emit_watched":
		// one caller takes the emitted signals (and drains them, as Execute's contract demands), an overlapping one
		// does not
		from := make(chan schema.Input, 4)
		got := make(chan int, 1)
		go func() {
			n := 0
			for range from {
				n++
			}
			got <- n
		}()
		c1 := s.executeEmitting("j1", "do", "success", "gate-j1", nil, from)
		if !s.gates.Wait("started:j1", 30*time.Second) {
			return verdictT{class: "inconclusive"}
		}
		if v := wait(s.execute("j2", "success", "", nil)); v.class != "" {
			return v
		}
		s.gates.Open("gate-j1")
		if v := wait(c1); v.class != "" {
			return v
		}
		select {
		case n := <-got:
			if n != 2 {
				return verdictT{msg: fmt.Sprintf("the caller of j1 received %d of the 2 signals its step emitted before the channel was closed", n), class: "signals_lost"}
			}
		case <-time.After(10 * time.Second):
			return verdictT{msg: "the channel for the signals emitted by j1 was not closed after Execute(j1) returned", class: "signals_channel_open"}
		}
		if v := wait(s.execute("j3", "success", "", nil)); v.class != "" {
			return v
		}
	case "emit_sequential":
		// signals in both directions handled by ONE caller goroutine over unbuffered channels, the plain way to use the
		// two channel parameters: it sends its signals one after the other and only then turns to the signals the step
		// emitted in the meantime (two at the start of the run, one in answer to each of its own)
		toStep := make(chan schema.Input)
		from := make(chan schema.Input)
		c1 := s.executeEmitting("k1", "do", "success", "gate-k1", toStep, from)
		if !s.gates.Wait("started:k1", 30*time.Second) {
			return verdictT{class: "inconclusive"}
		}
		seq := make(chan struct{})
		var got atomic.Int64
		go func() {
			defer close(seq)
			toStep <- schema.Input{RunID: "k1", ID: "poke", InputData: map[string]any{"x": int64(1)}}
			toStep <- schema.Input{RunID: "k1", ID: "poke", InputData: map[string]any{"x": int64(2)}}
			close(toStep)
			for range from {
				got.Add(1)
				if got.Load() == 4 {
					s.gates.Open("gate-k1")
				}
			}
		}()
		if v := await(seq, h, "the caller that sends two signals and then receives the emitted ones"); v.class != "" {
			s.gates.Open("gate-k1")
			return v
		}
		if v := wait(c1); v.class != "" {
			return v
		}
		if n := got.Load(); n != 4 {
			return verdictT{msg: fmt.Sprintf("the caller of k1 received %d of the 4 signals its step emitted before the channel was closed", n), class: "signals_lost"}
		}
		if v := wait(s.execute("k2", "success", "", nil)); v.class != "" {
			return v
		}
	case "same_run_id":
		// two overlapping calls that carry the same run ID (a caller's mistake, but each call must still return: the
		// one that registers second is refused, or - if the first has finished by then - runs like any other), then
		// overlapping calls with IDs of their own
		c1 := s.execute("g1", "success", "gate-g1", nil)
		c2 := s.execute("g1", "success", "gate-g1", nil)
		if !s.gates.Wait("started:g1", 30*time.Second) {
			return verdictT{class: "inconclusive"}
		}
		// the step stays pending for longer than any planned delay: a call that the plan holds back between two of
		// its statements wakes up while the other call's run is still open (if the run were over by then, the two
		// calls would simply have run one after the other)
		time.Sleep(15 * time.Millisecond)
		s.gates.Open("gate-g1")
		if v := wait(c1); v.class != "" {
			return v
		}
		if v := wait(c2); v.class != "" {
			return v
		}
		c3 := s.execute("g2", "success", "gate-g2", nil)
		if !s.gates.Wait("started:g2", 30*time.Second) {
			return verdictT{class: "inconclusive"}
		}
		if v := wait(s.execute("g3", "success", "", nil)); v.class != "" {
			return v
		}
		s.gates.Open("gate-g2")
		if v := wait(c3); v.class != "" {
			return v
		}
	case "close_races_last":
		if v := wait(s.execute("e1", "success", "", nil)); v.class != "" {
			return v
		}
		c2 := s.execute("e2", "success", "gate-e2", nil)
		// Close races the *result* of e2, not the call itself: wait until the step is running on the server
		if !s.gates.Wait("started:e2", 30*time.Second) {
			return verdictT{class: "inconclusive"}
		}
		s.gates.Open("gate-e2")
		// Close is called while e2's result may still be on its way (handled by the caller below)
		_ = c2
	}
	return verdictT{}
}

func expectedOutput(run string) (string, bool) {
	switch run {
	case "b2":
		return "error", true
	case "d1", "d2", "f0", "h0":
		return "", false
	}
	return "success", true
}

func describePlan(plan []Delay) string {
	var parts []string
	for _, d := range plan {
		w := fmt.Sprintf("#%d", d.Point)
		if d.Point >= 0 && d.Point < len(points) {
			w = points[d.Point].String()
		}
		parts = append(parts, fmt.Sprintf("%d ms at occurrence %d of %s", d.Millis, d.Occurrence, w))
	}
	return strings.Join(parts, "; ")
}

// runTrial runs one history under one delay plan. Returns (message, class); class "" = fine.
func runTrial(tr Trial) (string, string) {
	// a trial must start from a clean process: goroutines left behind by an earlier (failed or inconclusive) trial
	// would otherwise be attributed to this one
	for i := 0; len(atpGoroutines()) > 0; i++ {
		if i > 300 {
			return "", "inconclusive"
		}
		time.Sleep(10 * time.Millisecond)
	}
	h := install(len(points), tr.Plan)
	defer uninstall()
	head := fmt.Sprintf("history %s, plan: %s", tr.History, describePlan(tr.Plan))
	s, err := newSessionWith(emitting(tr.History))
	if err != nil {
		return fmt.Sprintf("handshake failed on a healthy connection: %v\n%s", err, head), "handshake"
	}
	v := runHistory(tr.History, s, h)
	if v.class == "inconclusive" {
		return "", "inconclusive"
	}
	if v.class != "" {
		return v.msg + "\n" + head, v.class
	}
	// Close
	closed := make(chan struct{})
	var closeErr error
	var closePanic any
	go func() {
		defer close(closed)
		defer func() { closePanic = recover() }()
		closeErr = s.client.Close()
	}()
	if v := await(closed, h, "Close"); v.class != "" {
		if v.class == "inconclusive" {
			return "", "inconclusive"
		}
		return v.msg + "\n" + head, v.class
	}
	if closePanic != nil {
		return fmt.Sprintf("Close panicked: %v\n%s", closePanic, head), "close_panic"
	}
	_ = closeErr
	// every call returned exactly once with its own result
	g1ok := 0
	for _, c := range s.calls {
		if tr.History == "close_races_last" && c.run == "e2" {
			// Close raced the last result: the call must still return (with its result or an error)
			if v := await(c.done, h, "Execute(e2) racing Close"); v.class != "" {
				if v.class == "inconclusive" {
					return "", "inconclusive"
				}
				return v.msg + "\n" + head, v.class
			}
			continue
		}
		select {
		case <-c.done:
		default:
			return fmt.Sprintf("Execute(%s) had not returned when Close returned\n%s", c.run, head), "not_returned"
		}
		if n := c.count.Load(); n != 1 {
			return fmt.Sprintf("Execute(%s) returned %d times\n%s", c.run, n, head), "count"
		}
		if c.run == "f1" || c.run == "h1" {
			continue // may have been handed the broadcast error or its own result, whichever came first: both are returns
		}
		if c.run == "g1" {
			// one of the two calls is refused (or both ran, one after the other); a call that was not refused carries
			// the run's data
			if c.result.Error == nil {
				if data, _ := c.result.OutputData.(map[any]any); c.result.OutputID != "success" || data == nil || data["tag"] != c.run {
					return fmt.Sprintf("Execute(%s) returned (%q, %#v), want the run's own success output\n%s", c.run, c.result.OutputID, c.result.OutputData, head), "wrong_result"
				}
				g1ok++
			}
			continue
		}
		want, ok := expectedOutput(c.run)
		if ok {
			if c.result.Error != nil || c.result.OutputID != want {
				return fmt.Sprintf("Execute(%s) on a healthy connection returned (%q, %v), want output %q\n%s", c.run, c.result.OutputID, c.result.Error, want, head), "wrong_result"
			}
			if data, _ := c.result.OutputData.(map[any]any); data == nil || data["tag"] != c.run {
				return fmt.Sprintf("Execute(%s) returned another run's data: %#v\n%s", c.run, c.result.OutputData, head), "wrong_result"
			}
		} else if c.result.Error == nil {
			return fmt.Sprintf("Execute(%s) of a failing step returned success %q\n%s", c.run, c.result.OutputID, head), "wrong_result"
		}
	}
	if tr.History == "same_run_id" && g1ok == 0 {
		return fmt.Sprintf("two overlapping calls with the same run ID: neither returned the run's result\n%s", head), "wrong_result"
	}
	// the server returns. After Close nobody reads the server's output any more; on an operating-system pipe such
	// output sits in the pipe buffer, on the unbuffered pipe used here it has to be drained or the server would wait
	// for a reader (which is the server's business, C07, not the client's).
	go func() { _, _ = io.Copy(io.Discard, s.stdoutR) }()
	select {
	case <-s.srvDone:
	case <-time.After(20 * time.Second):
		return fmt.Sprintf("RunATPServer did not return after the client closed\n  %s\n%s", strings.Join(atpGoroutines(), "\n  "), head), "server_stuck"
	}
	// no client goroutine remains
	var left []string
	for i := 0; i < 200; i++ {
		left = clientGoroutines()
		if len(left) == 0 {
			break
		}
		time.Sleep(10 * time.Millisecond)
	}
	if len(left) > 0 {
		return fmt.Sprintf("after Close returned, goroutines started by the client are still alive:\n  %s\n%s", strings.Join(left, "\n  "), head), "leak"
	}
	return "", ""
}

// ---------------------------------------------------------------------------------------------------------------

func baselineHits(t *testing.T, hist string) []int64 {
	h := install(len(points), nil)
	s, err := newSessionWith(emitting(hist))
	if err != nil {
		uninstall()
		t.Fatalf("baseline handshake failed: %v", err)
	}
	v := runHistory(hist, s, h)
	closed := make(chan struct{})
	go func() { defer close(closed); defer func() { _ = recover() }(); _ = s.client.Close() }()
	select {
	case <-closed:
	case <-time.After(20 * time.Second):
	}
	go func() { _, _ = io.Copy(io.Discard, s.stdoutR) }()
	select {
	case <-s.srvDone:
	case <-time.After(5 * time.Second):
	}
	uninstall()
	if v.class != "" && v.class != "inconclusive" {
		ev.Fail(t, "trial", Trial{History: hist}, "%s\nhistory %s without any delay", v.msg, hist)
	}
	out := make([]int64, len(points))
	for i := range points {
		out[i] = h.hits[i].Load()
	}
	time.Sleep(20 * time.Millisecond)
	return out
}

func judgeTrial(t ev.TB, tr Trial, hitsBefore []int64) {
	for i := range tr.Plan {
		if tr.Plan[i].Point < len(points) {
			tr.Plan[i].Where = points[tr.Plan[i].Point].String()
		}
	}
	msg, class := runTrial(tr)
	reached := true
	for _, d := range tr.Plan {
		if hitsBefore != nil && hitsBefore[d.Point] < int64(d.Occurrence) {
			reached = false
		}
	}
	if class == "" {
		class = "ok"
	}
	ev.Case(ev.FP(tr.History, fmt.Sprint(tr.Plan)), reached, "trial:"+class, "history:"+tr.History)
	if reached && ev.WantSample("trial") {
		ev.Sample("trial", tr)
	}
	if msg != "" {
		ev.Fail(t, "trial", tr, "%s", msg)
	}
}

// TestSingleDelaySweep: every reached point x occurrence {1,2} x every history.
func TestSingleDelaySweep(t *testing.T) {
	if ev.Replaying() {
		t.Skip()
	}
	loadPoints(t)
	ev.Note("yield_points", fmt.Sprint(len(points)))
	idx := 0
	unhit := map[int]bool{}
	for i := range points {
		unhit[i] = true
	}
	for _, hist := range histories {
		hits := baselineHits(t, hist)
		for p := range points {
			if hits[p] > 0 {
				delete(unhit, p)
			}
			for occ := 1; occ <= 2; occ++ {
				if hits[p] < int64(occ) {
					continue
				}
				idx++
				if !ev.Mine(idx) {
					continue
				}
				judgeTrial(t, Trial{History: hist, Plan: []Delay{{Point: p, Occurrence: occ, Millis: 6}}}, hits)
			}
		}
	}
	var names []string
	for p := range unhit {
		names = append(names, points[p].String())
	}
	sort.Strings(names)
	if sh, _ := ev.Shard(); sh == 0 {
		ev.Note("points_never_reached_by_the_histories", fmt.Sprintf("%d: %s", len(names), strings.Join(names, "; ")))
	}
	ev.Exhaustive("single-delay sweep: every reached yield point x occurrence {1,2} x 11 histories")
}

// TestPairSweep (thorough): all ordered pairs of reached points on two histories.
func TestPairSweep(t *testing.T) {
	if ev.Replaying() || !ev.Thorough() {
		t.Skip()
	}
	loadPoints(t)
	idx := 0
	for _, hist := range []string{"serial3", "concurrent2plus1"} {
		hits := baselineHits(t, hist)
		var reached []int
		for p := range points {
			if hits[p] > 0 {
				reached = append(reached, p)
			}
		}
		for _, a := range reached {
			for _, b := range reached {
				idx++
				if !ev.Mine(idx) {
					continue
				}
				judgeTrial(t, Trial{History: hist, Plan: []Delay{{Point: a, Occurrence: 1, Millis: 5}, {Point: b, Occurrence: 1, Millis: 9}}}, hits)
			}
		}
	}
	ev.Exhaustive("pair sweep: all ordered pairs of reached yield points (first occurrence) x 2 histories")
}

func TestGeneratedPlans(t *testing.T) {
	loadPoints(t)
	ev.Check(t, "plans", 60, 2000, func(rt *rapid.T) {
		hist := rapid.SampledFrom(histories).Draw(rt, "history")
		n := rapid.IntRange(1, 3).Draw(rt, "nDelays")
		var plan []Delay
		for i := 0; i < n; i++ {
			plan = append(plan, Delay{Point: rapid.IntRange(0, len(points)-1).Draw(rt, "point"), Occurrence: rapid.IntRange(1, 3).Draw(rt, "occurrence"), Millis: rapid.IntRange(4, 10).Draw(rt, "ms")})
		}
		judgeTrial(rt, Trial{History: hist, Plan: plan}, nil)
	})
}
