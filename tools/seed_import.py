#!/usr/bin/env python3
"""tools/seed_import.py <Cxx> <name> <worktree> <copy_to> <demo cmd> [needs...]  -- copies _seed deliverables into /verif/seeded/<name>/"""
import sys, os, shutil, json
prop, name, wt, copy_to, cmd = sys.argv[1:6]
needs = ' '.join(sys.argv[6:])
d = '/verif/seeded/' + name
os.makedirs(d, exist_ok=True)
s = os.path.join(wt, '_seed')
demo = None
for f in os.listdir(s):
    if os.path.isfile(os.path.join(s, f)):
        shutil.copy(os.path.join(s, f), os.path.join(d, f))
for f in ('demo_test.go', 'demo.sh'):
    if os.path.exists(os.path.join(d, f)):
        demo = f; break
meta = {'property': prop, 'origin': 'independent sub-agent given only the property text and a scratch worktree',
        'needs_to_manifest': needs,
        'demo': {'file': demo, 'copy_to': copy_to, 'cmd': cmd, 'cwd': os.path.dirname(copy_to)},
        'verified': {}}
json.dump(meta, open(os.path.join(d, 'meta.json'), 'w'), indent=1)
print('imported', d, os.listdir(d))
