#!/usr/bin/env python3
"""Regenerates MANIFEST.json from checks_config.py (single source of truth for the per-check metadata)."""
import json, os, sys
V = os.path.dirname(os.path.dirname(os.path.abspath(__file__)))
sys.path.insert(0, V)
from checks_config import PROPS, NOT_APPLICABLE, HOOK_COMMITS
props = [json.loads(l)['id'] for l in open(os.path.join(V, 'properties.jsonl'))]
checks = []
for pid in props:
    if pid not in PROPS:
        continue
    c = PROPS[pid]
    checks.append({
        "property_id": pid,
        "quick_cmd": "./check %s --tier quick" % pid,
        "thorough_cmd": "./check %s --tier thorough" % pid,
        "evidence_file": "/verif/evidence/%s.json" % pid,
        "replay_cmd_template": "./check %s --replay {path}" % pid,
        "engine": "harness",
        "level_claimed": {"category": c.get("level", "exploration"), "text": c["level_text"], "design_ref": "DESIGN.md §3 " + pid},
        "level_note": c["level_note"],
        "technique": c["technique"],
    })
na = [{"property_id": p, "reason": NOT_APPLICABLE.get(p, "check not built yet - work in progress, will be claimed when its check exists")}
      for p in props if p not in PROPS]
m = {
    "version": 1,
    "setup_cmd": "./check --setup",
    "hooks": {
        "guard": "verif",
        "enable": "no source hooks: the only instrumentation (yield points for C05/C06) is generated from /repo's working tree at check time into a temp dir and applied with `go test -overlay`; build tag `verif` is reserved and unused",
        "baseline_off_cmd": "/verif/tools/repo_test.sh",
        "source_commits": HOOK_COMMITS,
        "add_only": True,
    },
    "engines": [{"name": "harness", "path": "/verif/harness", "serves_properties": [c["property_id"] for c in checks],
                 "kind_free_text": "Go module: pgregory.net/rapid property-based tests (stateful where histories matter), sharded enumerations of finite sub-spaces, reference interpreters / parsers as oracles, supervised worker processes; driven by the python script ./check"}],
    "checks": checks,
    "not_applicable": na,
    "notes": "All checks: ./check <id> --tier quick|thorough [--replay file]. Exit 0 held / 1 VIOLATION / 2 inconclusive. Findings policy and per-property design in DESIGN.md; repaired and recorded defects in known_findings.txt.",
}
json.dump(m, open(os.path.join(V, 'MANIFEST.json'), 'w'), indent=1)
print("wrote MANIFEST.json with %d checks, %d not_applicable" % (len(checks), len(na)))
