#!/usr/bin/env python3
"""Writes seeded/RESULTS.md from the meta.json files."""
import json, os
rows = []
for d in sorted(os.listdir('/verif/seeded')):
    p = os.path.join('/verif/seeded', d, 'meta.json')
    if not os.path.exists(p):
        continue
    m = json.load(open(p))
    v = m.get('verified', {})
    rows.append((d, m['property'], m.get('needs_to_manifest', ''), v.get('first_run_of_checks', '?'), v.get('detected_by', '')))
with open('/verif/seeded/RESULTS.md', 'w') as f:
    f.write('# Independently written breaking changes and what detects them\n\n')
    f.write('Each directory holds `patch.diff` (apply with `git -C /repo apply`, undo with `git -C /repo checkout -- .`), the author\'s demonstration, `NOTES.md` and `meta.json`.\n')
    f.write('`python3 tools/seeded.py seeded/<name> --demo` applies the change, runs the repository\'s own suites (must pass), the demonstration (must fail) and the quick check(s), and restores `/repo`.\n\n')
    caught = sum(1 for r in rows if r[3] == 'caught')
    still = sum(1 for r in rows if (r[4].startswith('NOT caught') or 'THOROUGH tier' in r[4]))
    f.write('%d changes; caught by the quick tier as it stood when the change arrived: %d; missed at first and caught after strengthening the check: %d; not caught by the quick tier yet: %d.\n\n' % (len(rows), caught, len(rows) - caught - still, still))
    f.write('| change | property | needs to manifest | first contact | detected by |\n|---|---|---|---|---|\n')
    for r in rows:
        f.write('| %s | %s | %s | %s | %s |\n' % tuple(x.replace('|', '/') for x in r))
print(len(rows), 'rows')
