#!/usr/bin/env python3
"""Sensitivity test helper: tools/mut.py <prop[,prop]> <file-in-repo> <old> <new> [--tier T]
Replaces the first occurrence of <old> by <new> in /repo/<file>, runs the repo's own tests and the checks,
then restores the file with git checkout. Prints one summary line."""
import subprocess, sys, os
props, f, old, new = sys.argv[1], sys.argv[2], sys.argv[3], sys.argv[4]
tier = sys.argv[6] if len(sys.argv) > 6 and sys.argv[5] == '--tier' else 'quick'
p = os.path.join('/repo', f)
s = open(p).read()
if old not in s:
    print('MUT: pattern not found'); sys.exit(3)
open(p, 'w').write(s.replace(old, new, 1))
try:
    try:
        t = subprocess.run(['/verif/tools/repo_test.sh'], capture_output=True, text=True, timeout=180)
        tests = 'tests-pass' if t.returncode == 0 else 'TESTS-FAIL'
        if t.returncode != 0 and os.environ.get('MUT_VERBOSE'):
            print(t.stdout[-1500:])
    except subprocess.TimeoutExpired:
        subprocess.run(['pkill', '-9', '-f', 'atp.test'])
        tests = 'TESTS-HANG'
    res = []
    for prop in props.split(','):
        c = subprocess.run(['/verif/check', prop, '--tier', tier], capture_output=True, text=True, cwd='/verif')
        v = [l for l in c.stdout.splitlines() if l.startswith('VIOLATION')]
        res.append('%s rc=%d %s' % (prop, c.returncode, (v[0].split('replay=')[1].split('/')[-1] if v else '')))
        if c.returncode == 1:
            i = c.stdout.splitlines().index(v[0])
            print('   ', '\n    '.join(c.stdout.splitlines()[i+1:i+3])[:400])
        elif c.returncode != 0:
            print(c.stdout[-1500:])
    print('MUT %s: %r -> %r : %s : %s' % (f, old[:50], new[:50], tests, '; '.join(res)))
finally:
    subprocess.run(['git', '-C', '/repo', 'checkout', '--', f])
