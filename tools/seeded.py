#!/usr/bin/env python3
"""Run checks against a stored seeded change: tools/seeded.py <seeded-dir> [--props C01,C02] [--tier quick] [--no-tests]
                                                               [--demo] [--seeds 1,2,3]

Applies <seeded-dir>/patch.diff to /repo (git apply), optionally runs the repository's own tests (which must still
pass: the change is only interesting if the existing suite stays green) and the demonstration, runs the checks,
and ALWAYS restores /repo (git checkout -- . ; demonstration file removed). Prints one summary line per check.
Never run two instances at once: they share /repo."""
import argparse, json, os, subprocess, sys, shutil

ap = argparse.ArgumentParser()
ap.add_argument('dir')
ap.add_argument('--props')
ap.add_argument('--tier', default='quick')
ap.add_argument('--no-tests', action='store_true')
ap.add_argument('--demo', action='store_true', help='also run the demonstration with and without the change')
ap.add_argument('--seeds', default='')
args = ap.parse_args()

d = os.path.abspath(args.dir)
meta = json.load(open(os.path.join(d, 'meta.json')))
props = (args.props or meta.get('check_with') or meta['property']).split(',')
ENV = dict(os.environ, GOFLAGS='-mod=mod', GOPROXY='off', GOSUMDB='off', GOTOOLCHAIN='local')


def sh(cmd, **kw):
    return subprocess.run(cmd, capture_output=True, text=True, env=ENV, **kw)


def status_clean():
    s = sh(['git', '-C', '/repo', 'status', '--porcelain']).stdout
    return [l for l in s.splitlines() if not l.endswith('cmd/arcaflow-codegen/codegen')]


def run_demo():
    demo = meta.get('demo')
    if not demo:
        return 'no-demo'
    copies = demo.get('files') or [{'file': demo['file'], 'copy_to': demo['copy_to']}]
    made = []
    for c in copies:
        dst = os.path.join('/repo', c['copy_to'])
        if not os.path.isdir(os.path.dirname(dst)):
            os.makedirs(os.path.dirname(dst)); made.append(os.path.dirname(dst))
        shutil.copy(os.path.join(d, c['file']), dst)
    try:
        r = sh(demo['cmd'], shell=True, cwd=os.path.join('/repo', demo.get('cwd', '.')), timeout=demo.get('timeout', 300))
        if os.environ.get('SEEDED_VERBOSE'):
            print(r.stdout[-3000:], r.stderr[-1000:])
        return 'pass' if r.returncode == 0 else 'FAIL'
    except subprocess.TimeoutExpired:
        return 'HANG'
    finally:
        for c in copies:
            os.remove(os.path.join('/repo', c['copy_to']))
        for m in made:
            shutil.rmtree(m, ignore_errors=True)


if status_clean():
    print('seeded: /repo is not clean:', status_clean()); sys.exit(3)
out = {}
if args.demo:
    out['demo_without'] = run_demo()
a = sh(['git', '-C', '/repo', 'apply', os.path.join(d, 'patch.diff')])
if a.returncode != 0:
    print('seeded: patch does not apply:', a.stderr); sys.exit(3)
try:
    if not args.no_tests:
        try:
            t = sh(['/verif/tools/repo_test.sh'], timeout=300)
            out['repo_tests'] = 'pass' if t.returncode == 0 else 'FAIL'
        except subprocess.TimeoutExpired:
            subprocess.run(['pkill', '-9', '-f', 'atp.test'])
            out['repo_tests'] = 'HANG'
    if args.demo:
        out['demo_with'] = run_demo()
    seeds = [s for s in args.seeds.split(',') if s] or [None]
    for prop in props:
        # the evidence file describes runs on the unchanged tree: keep it out of reach of runs on a changed one
        evf = '/verif/evidence/%s.json' % prop
        saved = open(evf).read() if os.path.exists(evf) else None
        for seed in seeds:
            env = dict(ENV)
            if seed:
                env['VERIF_SEED'] = seed
            c = subprocess.run(['/verif/check', prop, '--tier', args.tier], capture_output=True, text=True, cwd='/verif', env=env)
            v = [l for l in c.stdout.splitlines() if l.startswith('VIOLATION')]
            key = prop + ('@' + seed if seed else '')
            out[key] = 'rc=%d %s' % (c.returncode, v[0].split('replay=')[1].split('/')[-1] if v else '')
            if c.returncode == 1 and v:
                lines = c.stdout.splitlines()
                i = lines.index(v[0])
                print('   ', '\n    '.join(lines[i + 1:i + 3])[:500])
            elif c.returncode != 0:
                print(c.stdout[-1500:])
        if saved is not None:
            open(evf, 'w').write(saved)
finally:
    sh(['git', '-C', '/repo', 'checkout', '--', '.'])
    left = status_clean()
    if left:
        print('seeded: WARNING /repo not clean after restore:', left)
print('SEEDED %s: %s' % (os.path.basename(d), json.dumps(out)))
