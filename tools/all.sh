#!/bin/bash
# tools/all.sh [tier] [ids...] - run checks sequentially, print each summary line; exit status = number of non-zero checks
export GOFLAGS=-mod=mod GOPROXY=off GOSUMDB=off GOTOOLCHAIN=local
tier=${1:-quick}; shift
ids=${@:-C01 C02 C03 C04 C05 C06 C07 C08 C09 C10 C11 C12 C13 C14 C15 C16 C17 C18 C19}
bad=0
cd /verif
for p in $ids; do
  out=$(./check $p --tier $tier 2>&1); rc=$?
  echo "$out" | grep -E "^VIOLATION|INCONCLUSIVE" | head -3
  echo "$out" | tail -1
  [ $rc -ne 0 ] && bad=$((bad+1))
done
exit $bad
