#!/bin/sh
# Runs the repository's own test suite (both modules), the way the baseline does. Exit 0 iff everything passes.
export GOFLAGS=-mod=mod GOPROXY=off GOSUMDB=off GOTOOLCHAIN=local
rc=0
(cd /repo && go test -vet=off -count=1 -timeout 25m ./... 2>&1 | grep -v '^ok\|no test files' ) && rc=1
(cd /repo/cmd/arcaflow-codegen && go test -vet=off -count=1 -timeout 25m ./... 2>&1 | grep -v '^ok\|no test files') && rc=1
git -C /repo status --short | grep -v codegen/codegen
exit $rc
