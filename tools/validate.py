#!/usr/bin/env python3
"""Validate MANIFEST.json and evidence files against the given schemas (run with python3-vt, which has jsonschema)."""
import json, sys, glob, os
import jsonschema
V = os.path.dirname(os.path.dirname(os.path.abspath(__file__)))
ms = json.load(open('/root/.vp/MANIFEST.schema.json'))
es = json.load(open('/root/.vp/EVIDENCE.schema.json'))
m = json.load(open(os.path.join(V, 'MANIFEST.json')))
jsonschema.validate(m, ms)
props = [json.loads(l)['id'] for l in open(os.path.join(V, 'properties.jsonl'))]
claimed = [c['property_id'] for c in m['checks']]
na = [c['property_id'] for c in m.get('not_applicable', [])]
assert sorted(claimed + na) == sorted(props), (sorted(set(props) - set(claimed) - set(na)), 'unaccounted')
bad = 0
for c in m['checks']:
    p = c['evidence_file']
    if not os.path.exists(p):
        print('missing evidence', p); bad += 1; continue
    e = json.load(open(p))
    try:
        jsonschema.validate(e, es)
    except jsonschema.ValidationError as ex:
        print('invalid', p, ex.message); bad += 1
    if e['level'] != c['level_claimed']['category']:
        print('level mismatch', p); bad += 1
print('manifest ok; claimed=%d not_applicable=%d bad_evidence=%d' % (len(claimed), len(na), bad))
sys.exit(1 if bad else 0)
