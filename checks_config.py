# Per-property configuration of the ./check driver. Rules / non-triviality texts live with the Go code (ev.Note("rule")).
PROPS = {
    "C16": dict(pkg="c16", shards=16, level="exploration",
                technique="property-based testing (rapid) + exhaustive enumeration of small integers; oracle = format/parse round trip and an independent backtracking reference parser of the unit grammar",
                level_text="Exploration: every integer 0..200000 on the five built-in unit sets in both forms (exhaustive for that range), plus generated unit definitions x boundary-biased integers/floats and grammar-generated sentences with one-edit near-misses, each judged against all readings enumerated by an independent reference parser. Absence of violations outside the explored cases is not established.",
                fuzz=[{"target": "FuzzSentence", "seconds": 60}],
                level_note="Trusts the reference parser (harness/units) as the reading of the stated grammar; unit names are non-empty, digit-free, whitespace-free; ambiguous generated unit sets (several distinct readings) are counted as unspecified, not judged.",
                assumptions=["unit names are non-empty, digit-free and white-space-free (the generator's domain)",
                             "quantities are non-negative (the property's domain)",
                             "float round trips are judged within 1e-6 + 1e-9*x (the formatter prints six decimals)"]),
}

PROPS["C18"] = dict(pkg="c18", shards=16, level="exploration",
    technique="property-based testing (rapid) + exhaustive enumeration of the small signature matrix; handlers synthesised with reflect.MakeFunc; oracle = acceptance predicate written from the doc comment and scripted handler results",
    level_text="Exploration: the (handler signature x declaration) matrix is enumerated for <=1 parameter over the full type pools and for <=2 parameters over reduced pools (exhaustive for those sub-spaces), 3-parameter pairs and near-miss declarations are sampled; every accepted function is called with 0..4 arguments and scripted results.",
    level_note="Handlers are function values (non-function handlers are outside the stated matrix); call arguments are non-nil values of the declared types; for dynamic functions a first result of a non-empty interface type is counted as unspecified.",
    assumptions=["'error' in the doc comment means the predeclared interface type", "call arguments are non-nil values of the declared native types"])

# properties deliberately not claimed, with the reason (empty: all are meant to be claimed)
NOT_APPLICABLE = {}
# commits in /repo that add build-tag-guarded hooks (none: instrumentation is generated at check time)
HOOK_COMMITS = []

PROPS["C19"] = dict(pkg="c19", shards=16, level="exploration",
    extra_builds={"codegen": {"cmd": ["go", "build"], "cwd": "/repo/cmd/arcaflow-codegen", "env": {"GOFLAGS": "-mod=readonly"}}},
    technique="property-based testing (rapid) over generated schema YAML documents; the generator is built from the working tree and run as a subprocess 10x per document; oracle = structural check of the parsed output (go/parser, gofmt fixed point) + byte-identity across runs",
    level_text="Exploration: generated documents (0-8 objects x 0-8 properties, all type IDs, refs, both argument forms) each run 10 times in a fresh process; output parsed and compared structurally with the document, runs compared byte for byte.",
    level_note="Documents are well-formed schema files: names are Go identifiers that are not keywords, every property has a type mapping, refs carry an id; struct/field names are only compared case-insensitively for ASCII names (title-casing rules are not re-implemented); type_id=map is a recorded known finding and is generated in a separate counted class.",
    assumptions=["10 identical runs make an undetected 2-way map-order coin flip < 0.2%; documents with >=3 keys make it negligible"])

PROPS["C02"] = dict(pkg="c02", shards=16, level="exploration",
    fuzz=[{"target": "FuzzDenote", "seconds": 60}],
    technique="property-based testing (rapid) + exhaustive scalar boundary battery; oracle = independent reference interpreter of the schema description (accept/reject and denoted value), cross-checked on Unserialize, Validate and Serialize",
    level_text="Exploration: an enumerated battery (all absent/present bound combinations x boundary values x every Go representation; exhaustive for that grid) plus generated nested list/map/any/enum schemas with valid-by-construction, one-place-perturbed and decoder-domain inputs, all judged in both directions against the reference interpreter.",
    level_note="Trusts harness/model as the reading of the statement and of the fixed lenient conversions (strconv syntax for numeric strings, %f for float->string, the 14 boolean words, the reference unit parser); inputs whose denotation is not unique (colliding map keys, ambiguous unit sentences) are counted as unspecified; panics on rejected inputs are left to C04.",
    assumptions=["native values are of the schema's native Go type (other Go types are C04's domain)"])

PROPS["C01"] = dict(pkg="c01", shards=16, level="exploration",
    technique="property-based testing (rapid): generated schemas x valid-by-construction inputs in arbitrary representations; oracle = round-trip laws (Unserialize/Validate/Serialize/CBOR encode-decode) and typed-vs-untyped differential",
    level_text="Exploration: generated schemas of every kind (struct-mapped and map-based objects, one-of, references, scopes, units, defaults) with inputs rendered in arbitrary decoder representations; each accepted input is taken through Validate, Serialize, Unserialize again directly and over a real CBOR encode/decode, and through the typed entry points.",
    level_note="Struct-mapped objects follow the documented precondition (properties that cannot express absence are required, treat-empty-as-default, or zero-valid and rule-free); equality is NaN-reflexive, regexp-by-source, nil==empty slice, and empty==absent only where a property is marked treat-empty-as-default; panics are left to C04.",
    assumptions=["CBOR transport = fxamacker/cbor default Marshal and Unmarshal into any, as atp/client.go and atp/server.go use it"])

PROPS["C03"] = dict(pkg="c03", shards=16, level="exploration",
    technique="property-based testing (rapid) + exhaustive enumeration of small objects; oracle = independent reference interpreter of object/one-of semantics, checked in both directions on Unserialize (raw) and Validate/Serialize (native)",
    level_text="Exploration: all flag combinations x supplied subsets x three struct mappings for objects with 1-2 properties (exhaustive) and a reduced grid for 3; generated nested objects / one-of schemas with valid inputs and structural raw mutations; every case judged accept/reject and by value against the reference interpreter.",
    level_note="Trusts harness/model for presence rules, defaulting (incl. the documented sub-object default propagation for absent by-value members), disabled-in-use on the Unserialize path only, shorthand and discriminator dispatch; struct-mapped objects obey the documented precondition for fields that cannot express absence; own defaults on by-value members whose sub-object also declares defaults are not generated (the statement does not say how the two merge).",
    assumptions=["native presence = map key present / pointer field non-nil / value field always present unless treat-empty-as-default and zero"])

PROPS["C04"] = dict(pkg="c04", shards=16, level="exploration",
    fuzz=[{"target": "FuzzDecoded", "seconds": 90}],
    technique="property-based testing (rapid) with fault-style value substitution, executed in supervised worker processes; oracle = totality (value or error; panic, fatal error or no return is a violation)",
    level_text="Exploration: generated schemas of every kind x hostile values from the decoder domain and from arbitrary Go values substituted at schema-directed positions, genuine native values damaged by reflection, and deep nesting; every operation (Unserialize, data-mode ValidateCompatibility, Validate, Serialize) runs in a supervised worker so that panics, stack exhaustion and hangs are observed and attributed.",
    level_note="Cyclic Go values are excluded (no finite description); depth is bounded by what the decoders can produce (10000); a hang is only reported after a second attempt in a fresh worker with three times the deadline; one recorded known finding (single-property self-referential object + shorthand) is excluded from generation and exercised by a dedicated case.",
    cap_s={"quick": 900, "thorough": 3000})

PROPS["C17"] = dict(pkg="c17", shards=16, level="exploration",
    technique="property-based testing (rapid) with exhaustive single-fault injection per generated input; oracle = the injected fault's known path vs the ConstraintError path (errors.As), premise checked by the reference interpreter",
    level_text="Exploration: generated nested schemas and valid inputs; for each input every applicable single corruption (wrong type per leaf, bounds, enum, pattern, sizes, bad map key, undeclared key, missing required) is applied one at a time and the returned error must be a ConstraintError whose path leads to the corrupted element, for Unserialize and (where expressible natively) Validate.",
    level_note="Only single-fault inputs are judged (the reference interpreter confirms base accepted / corrupted rejected); path segments are compared after stripping the SDK's [i] / [k] / {k} decoration and {oneof[..]} markers; for an undeclared key the object's path with the key named in the message is accepted; inputs use the canonical representation (no single-property shorthand).")

PROPS["C15"] = dict(pkg="c15", shards=16, level="exploration",
    technique="property-based testing (rapid) with single-feature mutation of generated schema pairs + exhaustive nil/non-nil bound matrix, evaluated 16x per pair in supervised workers; oracle = termination, determinism, reflexivity (self / copy / rebuilt from description) and the statement's list of sufficient reasons for rejection",
    level_text="Exploration: generated consumer/producer pairs (identical, copied, rebuilt, one unconsumable mutation at any depth, one harmless mutation), the complete nil/non-nil bound matrix for five kinds (exhaustive), and recursive scopes; each pair evaluated 16 times in a supervised worker so that stack exhaustion is observed and map-order dependence shows.",
    level_note="Rejection is only asserted for the statement's sufficient reasons (one-directional on purpose); acceptance only for identical / copied / rebuilt producers; positions under an 'any' consumer are not mutated; a schema that cannot be rebuilt from its description is C09's concern and skipped here.",
    cap_s={"quick": 900, "thorough": 3000})

PROPS["C12"] = dict(pkg="c12", shards=16, level="exploration",
    technique="stateful property-based testing (rapid state machine over one schema instance); oracle = 12x repeated evaluation (map-order randomisation), deep-copy argument snapshots, self-description / GetDefaults snapshots and differential against a freshly built instance",
    level_text="Exploration: generated call histories (Unserialize / Validate / Serialize / ValidateCompatibility with valid, hostile and default-filling arguments, in-place scrambling of returned values) on one schema instance; every call evaluated 12 times, arguments compared with deep copies, and after every step the instance compared with its own initial self-description and defaults and with a fresh instance on a probe set.",
    level_note="Only error-ness and values are compared, never messages (messages list map keys in iteration order by design); totality of the calls is C04/C15's concern (panics are compared for consistency, not reported); recursive scopes are excluded from the schema-mode compatibility action (recorded C15 finding).")

PROPS["C14"] = dict(pkg="c14", shards=16, level="exploration",
    technique="property-based testing (rapid) over generated scope trees with colliding IDs and namespaces; oracles = link-state model per ApplyNamespace step, reference interpreter with lexical resolution, and the metamorphic relation 'inlining references does not change behaviour'",
    level_text="Exploration: generated worlds (nested scopes with colliding object IDs of different shapes, references under properties/lists/maps/one-of, up to two external namespaces applied in a generated order, recursive objects) with valid, mutated and deeply recursive inputs; link state checked after every namespace application, behaviour compared with the lexical reference resolver and with the reference-free (inlined) schema.",
    level_note="Objects are map-based; every object carries a uniquely named required marker so that a mis-resolved reference changes acceptance; recursion is unrolled 3 levels for the inlined form; external scopes have no named references of their own.")

PROPS["C09"] = dict(pkg="c09", shards=16, level="exploration",
    technique="property-based testing (rapid) over generated scopes and plugin schemas; oracle = describe/rebuild/describe fixed point (directly, over CBOR and over YAML) and original-vs-rebuilt behavioural differential on generated inputs",
    level_text="Exploration: generated scopes and whole plugin schemas using every describable feature; each is described, rebuilt (directly, after a real CBOR and a real YAML round trip), described again and compared; original and rebuilt schema are run side by side on valid and mutated inputs; every scope of a rebuilt plugin schema (including signal data scopes) must be usable as returned.",
    level_note="Generated schemas stay inside what the meta-schema can express for content it merely stores (IDs matching idType, non-empty display strings and property names, non-empty enums, no TypedStringEnumSchema[T]); behaviour is compared by value only for schemas without struct mapping, because the struct mapping (which changes defaulting of by-value members) is not part of a description.")

PROPS["C10"] = dict(pkg="c10", shards=16, level="exploration",
    fuzz=[{"target": "FuzzDescription", "seconds": 120}],
    technique="mutation-based property testing (rapid + per-description enumeration of single structural mutations, sampled doubles, grammar-free trees) executed in supervised workers; oracle = load returns error or a schema on which every exercised operation is total",
    level_text="Exploration: valid descriptions of generated scopes and plugin schemas are mutated at every node (delete / rename / retype / re-point / unparsable texts / bad unit multipliers), loaded through UnserializeScope / UnserializeSchema in a supervised worker and, when accepted, exercised with generated inputs; panics, fatal errors and hangs at load time or on first use are violations.",
    level_note="The quick tier runs a generated sample (about 400 per description) of each description's mutation enumeration (single mutations incl. grafts of other type descriptions), the thorough tier up to 20000 per description (all of it for most descriptions); Client.ReadSchema is exercised by C08's hello-message faults (it is UnserializeSchema behind a CBOR decode).",
    cap_s={"quick": 900, "thorough": 3400})

PROPS["C11"] = dict(pkg="c11", shards=16, level="exploration", race=True,
    technique="property-based testing (rapid) over generated callable schemas and call histories, sequential and barrier-released concurrent, built with -race; oracle = recording handlers compared with a second identically built instance of every scope, errors.As on the documented error types, step-data identity per run ID",
    level_text="Exploration: generated steps (with and without signals / initializer), scripted handler behaviours and histories of step and signal calls over a small pool of run IDs, executed sequentially or concurrently under the race detector; invocation counts, arguments, returned triples, error types and step-data identity are checked against an independent second instance of each schema.",
    level_note="Handlers are generic over `any` input so that the input type assertion inside Call cannot fail; scopes are map-based; concurrency explores whatever interleavings the scheduler produces for barrier-released goroutines (the race detector reports unsynchronised access).")

PROPS["C13"] = dict(pkg="c13", shards=16, level="exploration", race=True,
    technique="concurrency property testing: rapid-generated schemas and operation mixes run by 2-16 barrier-released goroutines inside -race worker processes (GORACE=halt_on_error), first-use paths raced on fresh / rebuilt instances and in brand-new processes for package-level state; oracle = race detector + differential against isolated evaluation",
    level_text="Exploration: generated schemas with lazily initialised features, fresh or rebuilt per trial, hammered by barrier-released goroutines with mixed operations in race-detector-instrumented worker processes; package-level first use is raced in a new process per trial; every concurrent result is compared with the same call made alone on another fresh instance.",
    level_note="The race detector only reports races that the scheduler actually exercises in the trial; schedules are whatever the Go scheduler produces for goroutines released together (no schedule control here). Replays repeat the trial 200 times.",
    cap_s={"quick": 900, "thorough": 3400})

PROPS["C07"] = dict(pkg="c07", shards=16, level="fault_enumeration",
    fuzz=[{"target": "FuzzServerInput", "seconds": 90}],
    technique="grammar-based generation of client scripts (rapid) + enumeration of every truncation offset, run against the real RunATPServer in supervised workers; oracle = process survival, return, and an independent parse of the output stream against a reference reading of the script",
    level_text="Fault enumeration: for each generated client script (valid and invalid frames in any order, step behaviours incl. gated ones released before or after the input ends) the whole script, every truncation offset of it (quick: every third offset at a generated phase; thorough: all) and failing-output variants are fed to the real server in a supervised worker; survival, return and the one-terminal-message-per-read-work-start invariant are checked.",
    level_note="The reference reading of a script follows the statement: the server reads frames until the first frame it cannot decode as a runtime message, client-done or the end of input; while the output stays open every work-start frame read before that owes exactly one terminal message for its run ID ('' when the frame carries no usable run/step ID). Message order is not judged. 'Returns' is judged after every gate has been opened, with an 8+4 s bound.",
    cap_s={"quick": 900, "thorough": 3400})

PROPS["C08"] = dict(pkg="c08", shards=16, level="fault_enumeration",
    fuzz=[{"target": "FuzzClientStream", "seconds": 90}],
    technique="fault injection at every byte offset of recorded server transcripts, replayed to the real client by a causal fake server inside supervised workers; oracle = bounded return of every call, no panic / goroutine leak, and success only if an independent sequential reading of the faulted stream contains the intact work-done",
    level_text="Fault enumeration: transcripts recorded from the real server (v3, 1-3 concurrent runs, with signal and error frames) and hand-built v1 transcripts are replayed causally to a real client with EOF / read error / byte corruption / garbage tail at every byte offset (quick: every fifth offset at a generated phase; thorough: all), hello variants and an independently failing write side; ReadSchema, all Execute calls and Close must return, without panic or leaked goroutines, and no success may be reported that the faulted stream does not contain.",
    level_note="Errors are always acceptable outcomes; only fabricated successes, panics, hangs (4-8 s bounds inside the worker) and leaked client goroutines are violations. With a failing write side the server->client stream is additionally ended, because the property's premise is a broken server stream.",
    cap_s={"quick": 900, "thorough": 3400})

PROPS["C06"] = dict(pkg="c06", shards=16, level="exploration", overlay=True,
    technique="schedule exploration by systematic delay injection: a build overlay generated from the working tree yields before every statement of the ATP client and server; single-delay sweep over every reached point (exhaustive), pair sweep and rapid-generated plans; oracle = every Execute returns exactly once with its own result, Close and the server return, no client goroutine remains; hangs are only reported under a quiescence proof",
    level_text="Exploration of a delay-bounded subset of schedules: every statement of atp/client.go and atp/server.go is a yield point (re-derived from the working tree on every run); the quick tier delays each reached point at its first and second occurrence on eleven session histories (eight against the real server, three against a correctly behaving harness peer that emits signals; exhaustive for that plan space), the thorough tier adds all ordered pairs of points on two histories and generated 1-3-delay plans. Real client and server over unbuffered pipes.",
    level_note="Not all interleavings: only those reachable by one to three injected delays on the statement grid. Liveness is judged on bounded histories: a call is reported as hanging only if all delays are over and two goroutine dumps 300 ms apart are identical and fully parked; anything else that exceeds the bounds is counted as inconclusive, never as a violation.",
    cap_s={"quick": 900, "thorough": 3400})

PROPS["C05"] = dict(pkg="c05", shards=16, level="exploration",
    technique="property-based testing (rapid) of whole ATP sessions over a harness-owned fragmenting / coalescing transport; oracle = differential against in-process CallStep on a second identically built schema, tag-based delivery check, independent parse of the wire tap, overlapping-write detection",
    level_text="Exploration: generated plugin schemas, inputs, call histories (serial / concurrent / staggered, with unsolicited trailing server frames) and transport plans (unbuffered, or buffered with arbitrary fragment sizes, coalescing, mid-message read ends and split writes) run through the real client and server (v3) or a harness v1 server; every result is compared with the in-process result of the same step on an identical schema.",
    level_note="Concurrent calls are not asserted over the v1 framing (its frames carry no run ID); interleavings are those the scheduler produces under the generated transport timing (C06 explores schedules systematically); a call not returning within 30 s on a healthy connection is reported as lost.",
    cap_s={"quick": 900, "thorough": 3400})
