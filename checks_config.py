# Per-property configuration of the ./check driver. Rules / non-triviality texts live with the Go code (ev.Note("rule")).
PROPS = {
    "C16": dict(pkg="c16", shards=16, level="exploration",
                technique="property-based testing (rapid) + exhaustive enumeration of small integers; oracle = format/parse round trip and an independent backtracking reference parser of the unit grammar",
                level_text="Exploration: every integer 0..200000 on the five built-in unit sets in both forms (exhaustive for that range), plus generated unit definitions x boundary-biased integers/floats and grammar-generated sentences with one-edit near-misses, each judged against all readings enumerated by an independent reference parser. Absence of violations outside the explored cases is not established.",
                level_note="Trusts the reference parser (harness/units) as the reading of the stated grammar; unit names are non-empty, digit-free, whitespace-free; ambiguous generated unit sets (several distinct readings) are counted as unspecified, not judged.",
                assumptions=["unit names are non-empty, digit-free and white-space-free (the generator's domain)",
                             "quantities are non-negative (the property's domain)",
                             "float round trips are judged within 1e-6 + 1e-9*x (the formatter prints six decimals)"]),
}

# properties deliberately not claimed, with the reason (empty: all are meant to be claimed)
NOT_APPLICABLE = {}
# commits in /repo that add build-tag-guarded hooks (none: instrumentation is generated at check time)
HOOK_COMMITS = []
